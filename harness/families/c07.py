"""C07 — interconnect(): correspondence between `control.interconnect` (spec parsing, the
pre-processing loops, InterconnectedSystem.__init__, _compute_static_io, LinearICSystem), the
operator forms on I/O systems (NonlinearIOSystem.__add__ … feedback) and the Lean model
`CtrlVerif.Model.Interconnect` (driver family `ic`).

A case = a set of subsystems + one or two *spellings* of the same wiring (or one malformed call).
Each spelling is one call of `interconnect`; it is tokenised here with the same regular
expressions `_parse_spec` / `_find_signals` use and sent to the model, and executed on the real
code.  Compared: raises-or-not, the three maps (exactly), the A, B, C, D of the resulting
LinearICSystem (tolerance: the code differentiates numerically); for a share of the cases also
what the resulting system computes: `dynamics` / `output` at points, `linearize` at a point and a
discrete-time `input_output_response`, with the state / input held as Python ints, tuples,
integer arrays or floats (model: `Wiring.eval`, `IC.dtTraj`; driver requests `ev` / `tr`); for
`add_unused=True` the labels of the appended external signals (model: `IC.addedLabels`, driver
block `un`).  Blocks marked `C07-v07` (wide vector signals, dictionary order of indexed labels,
add_unused stream, label comparison) were added after the seeded changes C07-m6 / C07-m7."""
import re
import warnings
from fractions import Fraction

import numpy as np
import control as ct

from core.runner import Family, Verdict, AGREE, VIOLATES, DIFFERS
from core import exmat
from core.exact import fr, tok, Tokens

TOL = Fraction(1, 10 ** 8)


# ----------------------------------------------------------------------------
# JSON encoding of Python call arguments: tuples as {"t": [...]}
# ----------------------------------------------------------------------------

class NpNum:
    """a NumPy scalar inside a call argument (a gain read out of an array: `F[i, j]`);
    JSON form {"np": dtype name, "v": value}"""

    def __init__(self, dtype, v):
        self.dtype, self.v = dtype, v

    def value(self):
        return np.dtype(self.dtype).type(self.v)


def enc(x):
    if isinstance(x, NpNum):
        return {"np": x.dtype, "v": x.v}
    if isinstance(x, tuple):
        return {"t": [enc(v) for v in x]}
    if isinstance(x, list):
        return [enc(v) for v in x]
    return x


def dec(x):
    if isinstance(x, dict):
        if "np" in x:
            return np.dtype(x["np"]).type(x["v"])
        return tuple(dec(v) for v in x["t"])
    if isinstance(x, list):
        return [dec(v) for v in x]
    return x


# ----------------------------------------------------------------------------
# tokenisation (the regular expressions of control/iosys.py, verbatim)
# ----------------------------------------------------------------------------

RE_SLICE = re.compile(r'([\w$]+)\[([\d]*):([\d]*)\]$')
RE_BASE = re.compile(r'([\w$]+)$')
RE_SIG = re.compile(r'([\w$]+)\[([\d]+)\]$')
SAFE = re.compile(r'^[^\s]+$')


class Untokenisable(Exception):
    pass


def safe(s):
    if not isinstance(s, str) or not SAFE.match(s):
        raise Untokenisable(repr(s))
    return s


def label_toks(raw):
    m = RE_SIG.match(raw)
    if m:
        return "%s 1 %s %d" % (safe(raw), m.group(1), int(m.group(2)))
    return "%s 0" % safe(raw)


def name_toks(name):
    ms = RE_SLICE.match(name)
    mb = RE_BASE.match(name)
    if ms:
        lo = "_" if ms.group(2) == "" else str(int(ms.group(2)))
        hi = "_" if ms.group(3) == "" else str(int(ms.group(3)))
        return "sl %s %s %s" % (ms.group(1), lo, hi)
    if mb:
        return "bs " + safe(name)
    return "ex " + safe(name)


def is_int(x):
    return isinstance(x, int) and not isinstance(x, bool)


def spec_toks(spec):
    """`_parse_spec` up to and including the sign handling"""
    if is_int(spec):
        system_spec, signal_spec, gain = spec, None, None
    elif isinstance(spec, str):
        parts = re.split(r'\.', spec)
        if len(parts) > 2:
            return "X"
        system_spec, gain = parts[0], None
        signal_spec = None if len(parts) < 2 else parts[1]
    elif isinstance(spec, tuple) and 1 <= len(spec) <= 3:
        system_spec = spec[0]
        signal_spec = None if len(spec) < 2 else spec[1]
        gain = None if len(spec) < 3 else spec[2]
    else:
        return "X"
    sneg = gneg = 0
    if isinstance(system_spec, str):
        if system_spec == "":
            raise Untokenisable("empty system")
        if system_spec[0] == '-':
            sneg, system_spec = 1, system_spec[1:]
    if isinstance(signal_spec, str):
        if signal_spec == "":
            raise Untokenisable("empty signal")
        if signal_spec[0] == '-':
            gneg, signal_spec = 1, signal_spec[1:]
    if is_int(system_spec):
        s = "i %d" % system_spec
    elif isinstance(system_spec, str):
        s = "n " + safe(system_spec)
    else:
        return "X"
    if signal_spec is None:
        g = "a"
    elif is_int(signal_spec):
        g = "i %d" % signal_spec
    elif isinstance(signal_spec, list) and all(is_int(i) for i in signal_spec):
        g = "l %d%s" % (len(signal_spec), "".join(" %d" % i for i in signal_spec))
    elif isinstance(signal_spec, str):
        g = "n 1 " + name_toks(signal_spec)
    elif isinstance(signal_spec, (list, tuple)) and all(isinstance(i, str) for i in signal_spec):
        g = "n %d%s" % (len(signal_spec), "".join(" " + name_toks(i) for i in signal_spec))
    else:
        raise Untokenisable(repr(signal_spec))
    return "S %s %d %s %d %s" % (s, sneg, g, gneg, "_" if gain is None else tok(fr(gain)))


def conns_toks(c):
    if c is None:
        return "I"
    if c is False:
        return "F"
    if not isinstance(c, list):
        raise Untokenisable("connections")
    out = ["E %d" % len(c)]
    for e in c:
        if isinstance(e, list):
            out.append("L %d" % len(e))
            out.extend(spec_toks(s) for s in e)
        elif isinstance(e, (str, tuple)):
            out.append("A " + spec_toks(e))
        else:
            out.append("A X")
    return " ".join(out)


def iolist_toks(lst, names):
    """`inplist`/`outlist` (or, when omitted, the `inputs`/`outputs` names)"""
    none = lst is None
    if none:
        lst = names or []
    if not isinstance(lst, list):
        lst = [lst]
    out = ["%d %d" % (int(none), len(lst))]
    for e in lst:
        if isinstance(e, str) and len(e.split('.')) == 1:
            if e == "" or e == "-":
                raise Untokenisable("empty")
            neg = int(e[0] == '-')
            sname = e[1:] if neg else e
            out.append("B %d %s %s" % (neg, safe(sname), name_toks(sname)))
        elif isinstance(e, list):
            out.append("L %d" % len(e))
            out.extend(spec_toks(s) for s in e)
        else:
            out.append("S " + spec_toks(e))
    if names is None:
        cnt = "_"
    elif isinstance(names, list):
        cnt = str(len(names))
    elif isinstance(names, str):
        cnt = "1"
    else:
        cnt = str(int(names))
    out.append(cnt)
    return " ".join(out)


def mat_toks(M):
    return " ".join(tok(Fraction(x)) for row in M for x in row)


def sj_expected(sj):
    """what `summing_junction(inputs=[...], output=..., dimension=...)` documents"""
    ins, outn, dim = sj["inputs"], sj["output"], sj.get("dimension")
    gains = [-1 if s[0] == '-' else 1 for s in ins]
    names = [s[1:] if s[0] == '-' else s for s in ins]
    og = -1 if outn[0] == '-' else 1
    on = outn[1:] if outn[0] == '-' else outn
    if dim is None:
        D = [[str(g * og) for g in gains]]
        return names, [on], D
    inl = ["%s[%d]" % (n, d) for n in names for d in range(dim)]
    outl = ["%s[%d]" % (on, d) for d in range(dim)]
    D = [[str(gains[c // dim] * og) if c % dim == r else "0" for c in range(len(inl))]
         for r in range(dim)]
    return inl, outl, D


def sys_view(s):
    """labels + matrices the model is told about"""
    if "sj" in s:
        inl, outl, D = sj_expected(s["sj"])
        return inl, outl, 0, [], [], [], D
    return s["in"], s["out"], s["n"], s["A"], s["B"], s["C"], s["D"]


def sys_toks(s):
    inl, outl, n, A, B, C, D = sys_view(s)
    head = "%s %d %s %d %s" % (safe(s["name"]), len(inl), " ".join(label_toks(l) for l in inl),
                               len(outl), " ".join(label_toks(l) for l in outl))
    head = " ".join(head.split())
    return "%s L %d %s %s %s %s" % (head, n, mat_toks(A), mat_toks(B), mat_toks(C), mat_toks(D))


def pool_toks(pool):
    return "%d %s" % (len(pool), " ".join(tok(Fraction(v)) for v in pool))


def ev_toks(ev):
    """evaluation requests: `ev` k points (state pool, input pool), `tr` a discrete-time run"""
    if not ev:
        return ""
    out = []
    if ev.get("pts"):
        out.append("ev %d" % len(ev["pts"]))
        out.extend("%s %s" % (pool_toks(p["x"]), pool_toks(p["u"])) for p in ev["pts"])
    if ev.get("traj"):
        tr = ev["traj"]
        out.append("tr %d %s" % (len(tr["U"]), pool_toks(tr["x0"])))
        out.extend(pool_toks(u) for u in tr["U"])
    return " " + " ".join(out)


def call_line(systems, call):
    if "op" in call:
        return " ".join(("ic op " + op_toks(systems, call["op"])[0] + ev_toks(call.get("ev"))).split())
    parts = ["ic %d" % len(systems)]
    parts.extend(sys_toks(s) for s in systems)
    parts.append(conns_toks(dec(call.get("connections"))))
    parts.append(iolist_toks(dec(call.get("inplist")), dec(call.get("inputs"))))
    parts.append(iolist_toks(dec(call.get("outlist")), dec(call.get("outputs"))))
    parts.append("1" if call.get("add_unused") else "0")
    return " ".join((" ".join(parts) + ev_toks(call.get("ev"))).split())


# ----------------------------------------------------------------------------
# operator forms on I/O systems: expression trees
#   {"o": "sys", "i": k} | {"o": "num", "v": "p/q"} | {"o": "arr", "M": [[..]]}
#   {"o": "add"|"sub"|"mul"|"div", "a": T, "b": T} | {"o": "neg", "a": T}
#   {"o": "fb", "a": T, "b": T, "sign": "p/q"}
# `op_toks` mirrors Python's dispatch (which operand's method runs, what a number / array is
# converted to) and emits the model expression; `op_eval` runs the real operators.
# ----------------------------------------------------------------------------

def neg_leaf(s):
    """`-sys` for a StateSpace leaf: StateSpace(A, B, -C, -D) (StateSpace.__neg__; property C02)"""
    s2 = dict(s)
    s2["C"] = [[str(-Fraction(x)) for x in r] for r in s["C"]]
    s2["D"] = [[str(-Fraction(x)) for x in r] for r in s["D"]]
    return s2


def op_toks(systems, t):
    """-> (driver tokens, kind); kind: nl (a NonlinearIOSystem leaf) | ic (the InterconnectedSystem
    an operator returned) | ss (a StateSpace leaf) | num | arr.

    Python's binary-operator protocol, as it applies to these classes: `a + b` calls
    `a.__add__(b)`, and `b.__radd__(a)` when that returns NotImplemented — but the reflected
    method goes FIRST when type(b) is a proper subclass of type(a) that overrides it: StateSpace
    derives from NonlinearIOSystem and overrides __radd__/__rsub__/__rmul__, InterconnectedSystem
    derives from it without overriding them.  StateSpace.__add__/__mul__ return NotImplemented for
    a non-StateSpace system, __sub__ is `self + (-other)`, __rsub__ is `other + (-self)`, __radd__
    is `self + other`, __rmul__ returns NotImplemented for a non-StateSpace system."""
    o = t["o"]
    if o == "sys":
        s = systems[t["i"]]
        return "s " + sys_toks(s), ("nl" if s.get("nl") else "ss")
    if o == "num":
        return "k 1 1 " + tok(Fraction(t["v"])), "num"
    if o == "arr":
        M = t["M"]
        return "k %d %d %s" % (len(M), len(M[0]), mat_toks(M)), "arr"
    ta, ka = op_toks(systems, t["a"])
    if o == "neg":
        if ka not in ("nl", "ic"):
            raise Untokenisable("neg of " + ka)
        return "neg " + ta, "ic"
    if o == "div":
        if ka not in ("nl", "ic") or t["b"]["o"] != "num":
            raise Untokenisable("div")
        # `self * (1 / other)` in floating point
        return "mul %s k 1 1 %s" % (ta, tok(fr(1 / num_value(t["b"]["v"])))), "ic"
    tb, kb = op_toks(systems, t["b"])
    if ka not in ("nl", "ic") and kb not in ("nl", "ic"):
        raise Untokenisable("no nonlinear operand")      # StateSpace algebra: property C02
    if o == "mul":
        return "mul %s %s" % (ta, tb), "ic"
    if o == "add":
        if ka == "nl" and kb == "ss":                     # ss.__radd__(nl) -> ss + nl -> nl.__radd__(ss)
            return "add %s %s" % (tb, ta), "ic"
        return "add %s %s" % (ta, tb), "ic"
    if o == "sub":
        if ka == "ss":                                     # ss.__sub__: ss + (-other)
            return "add %s neg %s" % (ta, tb), "ic"
        if ka == "nl" and kb == "ss":                     # ss.__rsub__(nl): nl + (-ss) -> (-ss).__radd__(nl)
            return "add s %s %s" % (sys_toks(neg_leaf(systems[t["b"]["i"]])), ta), "ic"
        return "sub %s %s" % (ta, tb), "ic"
    if o == "fb":
        if ka not in ("nl", "ic", "ss"):
            raise Untokenisable("feedback of " + ka)
        return "fb %s %s %s" % (ta, tb, tok(Fraction(t["sign"]))), "ic"
    raise Untokenisable(o)


def num_value(v):
    q = Fraction(v)
    return int(q) if q.denominator == 1 else float(q)


def op_eval(objs, t, via):
    o = t["o"]
    if o == "sys":
        return objs[t["i"]]
    if o == "num":
        return num_value(t["v"])
    if o == "arr":
        return np.array([[float(Fraction(x)) for x in r] for r in t["M"]])
    a = op_eval(objs, t["a"], via)
    if o == "neg":
        return ct.negate(a) if via == "function" else -a
    b = op_eval(objs, t["b"], via)
    if o == "add":
        return ct.parallel(a, b) if via == "function" else a + b
    if o == "sub":
        return a - b
    if o == "mul":
        return ct.series(b, a) if via == "function" else a * b
    if o == "div":
        return a / b
    if o == "fb":
        sg = num_value(t["sign"])
        return ct.feedback(a, b, sg) if via == "function" else a.feedback(b, sg)
    raise ValueError(o)


def op_dzero(systems, t):
    """is the direct term of the node zero by structure?"""
    o = t["o"]
    if o == "sys":
        return d_zero(systems[t["i"]])
    if o == "num":
        return Fraction(t["v"]) == 0
    if o == "arr":
        return all(Fraction(x) == 0 for r in t["M"] for x in r)
    if o in ("neg", "div", "fb"):
        return op_dzero(systems, t["a"])
    if o in ("add", "sub"):
        return op_dzero(systems, t["a"]) and op_dzero(systems, t["b"])
    return op_dzero(systems, t["a"]) or op_dzero(systems, t["b"])


def op_cyclic(systems, t):
    """some feedback node closes a loop through two direct terms"""
    if t["o"] in ("sys", "num", "arr"):
        return False
    kids = [t[k] for k in ("a", "b") if k in t]
    if any(op_cyclic(systems, k) for k in kids):
        return True
    # (a feedback sign of 0 connects nothing back: no loop)
    return t["o"] == "fb" and Fraction(t["sign"]) != 0 and \
        not (op_dzero(systems, t["a"]) or op_dzero(systems, t["b"]))


def op_has_nl(systems, t):
    if t["o"] == "sys":
        return bool(systems[t["i"]].get("nl"))
    return any(op_has_nl(systems, t[k]) for k in ("a", "b") if k in t)


def op_cyclic_inner_nl(systems, t):
    """a PROPER sub-expression is a feedback node that closes a loop through two direct terms and
    contains a nonlinear operand: it is built as an InterconnectedSystem whose algebraic loop is only
    looked for by `_compute_static_io` at the values the enclosing system happens to feed it, whereas
    the model linearises every node on unit perturbations.  The wiring has an algebraic loop: it is
    outside the property's quantifier, whichever side notices."""
    kids = [t[k] for k in ("a", "b") if k in t]
    return any((op_cyclic(systems, k) and op_has_nl(systems, k)) for k in kids)


def op_nodes(t):
    yield t
    for k in ("a", "b"):
        if k in t:
            yield from op_nodes(t[k])


# ----------------------------------------------------------------------------
# implementation side
# ----------------------------------------------------------------------------

def dt_value(dt):
    """timebase of the subsystems of a case: 0 continuous, True, or a sampling time"""
    if dt is True or dt in (0, None):
        return dt
    q = Fraction(dt)
    return int(q) if q.denominator == 1 else float(q)


def build_sys(s, dt=0):
    dkw = {"dt": dt_value(dt)} if dt else {}
    if "sj" in s:
        kw = {}
        if s["sj"].get("dimension") is not None:
            kw["dimension"] = s["sj"]["dimension"]
        return ct.summing_junction(inputs=list(s["sj"]["inputs"]), output=s["sj"]["output"],
                                   name=s["name"], **kw)
    n, m, p = s["n"], len(s["in"]), len(s["out"])
    A = np.array([[float(Fraction(x)) for x in r] for r in s["A"]]).reshape(n, n)
    B = np.array([[float(Fraction(x)) for x in r] for r in s["B"]]).reshape(n, m)
    C = np.array([[float(Fraction(x)) for x in r] for r in s["C"]]).reshape(p, n)
    D = np.array([[float(Fraction(x)) for x in r] for r in s["D"]]).reshape(p, m)
    if s.get("nl"):
        # the same linear dynamics behind the NonlinearIOSystem interface
        def upd(t, x, u, params, A=A, B=B):
            return A @ np.atleast_1d(x) + B @ np.atleast_1d(u)

        def outf(t, x, u, params, C=C, D=D):
            return C @ np.atleast_1d(x) + D @ np.atleast_1d(u)
        if n == 0:
            return ct.nlsys(None, outf, inputs=list(s["in"]), outputs=list(s["out"]), name=s["name"],
                            **dkw)
        return ct.nlsys(upd, outf, inputs=list(s["in"]), outputs=list(s["out"]),
                        states=n, name=s["name"], **dkw)
    return ct.ss(A, B, C, D, name=s["name"], inputs=list(s["in"]), outputs=list(s["out"]), **dkw)


def classify_exc(e):
    msg = str(e)
    if isinstance(e, RuntimeError) and "algebraic loop" in msg:
        return "illPosed"
    if isinstance(e, ValueError):
        if "out of range" in msg:
            return "indexRange"
        if "couldn't find" in msg or "could not find" in msg:
            return "unknownName"
        if "inconsistent number" in msg:
            return "shape"
        return "badArg"
    return "crash:" + type(e).__name__


def norm_msg(e):
    return re.sub(r"[\d]+", "#", re.sub(r"'[^']*'", "'*'", str(e)))[:80]


def fmat(M, p=None, m=None):
    return [[str(fr(x)) for x in row] for row in np.asarray(M).reshape(p, m).tolist()]


INT_T = ["int", "tuple", "i64", "i32"]
FLT_T = ["float", "f64", "f32"]


def num_arg(vals, typ):
    """the vector `vals` (Fraction strings) as the caller holds it: a list / tuple of Python ints,
    a list of Python floats, an integer or floating-point NumPy array"""
    if typ == "int":
        return [int(Fraction(v)) for v in vals]
    if typ == "tuple":
        return tuple(int(Fraction(v)) for v in vals)
    if typ == "float":
        return [float(Fraction(v)) for v in vals]
    if typ in ("i64", "i32"):
        return np.array([int(Fraction(v)) for v in vals], dtype={"i64": np.int64, "i32": np.int32}[typ])
    return np.array([float(Fraction(v)) for v in vals], dtype={"f64": np.float64, "f32": np.float32}[typ])


def pool_take(pool, n):
    return [pool[i] if i < len(pool) else "0" for i in range(n)]


def run_eval(T, ev):
    """`dynamics` / `output` at the points, `linearize` at a point, a discrete-time
    `input_output_response` — with the state / input held in the number type the case names"""
    n, nin, nout = int(T.nstates), int(T.ninputs), int(T.noutputs)
    res = {}
    stage = "pts"
    try:
        if ev.get("pts"):
            R, O = [], []
            for p in ev["pts"]:
                x, u = num_arg(pool_take(p["x"], n), p["xt"]), num_arg(pool_take(p["u"], nin), p["ut"])
                R.append([str(fr(v)) for v in np.asarray(T.dynamics(0, x, u), dtype=float).reshape(n)])
                O.append([str(fr(v)) for v in np.asarray(T.output(0, x, u), dtype=float).reshape(nout)])
            res["rhs"] = [[R[k][i] for k in range(len(R))] for i in range(n)]
            res["out"] = [[O[k][i] for k in range(len(O))] for i in range(nout)]
        if ev.get("linpt") is not None:
            stage = "linpt"
            p = ev["pts"][ev["linpt"]]
            x, u = num_arg(pool_take(p["x"], n), p["xt"]), num_arg(pool_take(p["u"], nin), p["ut"])
            lin = T.linearize(x, u)
            res["linpt"] = {"A": fmat(lin.A, n, n), "B": fmat(lin.B, n, nin),
                            "C": fmat(lin.C, nout, n), "D": fmat(lin.D, nout, nin)}
        if ev.get("traj") and nin > 0:
            stage = "traj"
            tr = ev["traj"]
            N = len(tr["U"])
            h = 1 if ev["dt"] is True else dt_value(ev["dt"])
            Tv = np.arange(N) * h
            cols = [pool_take(u, nin) for u in tr["U"]]
            rows = [[cols[k][i] for k in range(N)] for i in range(nin)]
            if tr["ut"] in ("int", "tuple", "float"):
                U = [num_arg(r, "int" if tr["ut"] == "tuple" else tr["ut"]) for r in rows]
            else:
                U = np.array([num_arg(r, tr["ut"]) for r in rows])
            X0 = num_arg(pool_take(tr["x0"], n), tr["xt"])
            resp = ct.input_output_response(T, Tv, U, X0, squeeze=False)
            res["Y"] = fmat(resp.outputs, nout, N)
            if n > 0:
                res["X"] = fmat(resp.states, n, N)
    except Exception as e:  # noqa
        return {"err": stage, "exc": type(e).__name__, "msg": norm_msg(e)}
    return res


def run_call(systems, call):
    try:
        with warnings.catch_warnings():
            warnings.simplefilter("ignore")
            ev = call.get("ev")
            syss = [build_sys(s, (ev or {}).get("dt", 0)) for s in systems]
            if "op" in call:
                T = op_eval(syss, call["op"], call.get("via", "operator"))
                if not isinstance(T, ct.InterconnectedSystem):
                    return {"err": "crash:type", "exc": "TypeError",
                            "msg": "operator returned " + type(T).__name__}
            else:
                kw = {}
                for k in ("inplist", "outlist", "inputs", "outputs"):
                    if call.get(k) is not None:
                        kw[k] = dec(call[k])
                if call.get("add_unused"):
                    kw["add_unused"] = True
                c = dec(call.get("connections"))
                T = ct.interconnect(syss, connections=c, **kw)
            nu, ny = T.connect_map.shape
            res = {"nin": int(T.ninputs), "nout": int(T.noutputs),
                   "cm": fmat(T.connect_map, nu, ny),
                   "im": fmat(T.input_map, nu, T.ninputs),
                   "om": fmat(T.output_map, T.noutputs, ny + nu),
                   "cls": type(T).__name__}
            # >>> C07-v07: names of the external signals (compared for add_unused calls)
            res["inl"], res["outl"] = list(T.input_labels), list(T.output_labels)
            # <<< C07-v07
            if isinstance(T, ct.StateSpace):
                lin = T
            else:
                lin = T.linearize(np.zeros(T.nstates), np.zeros(T.ninputs))
            n = int(T.nstates)
            res["lin"] = {"n": n, "A": fmat(lin.A, n, n), "B": fmat(lin.B, n, T.ninputs),
                          "C": fmat(lin.C, T.noutputs, n), "D": fmat(lin.D, T.noutputs, T.ninputs)}
            if ev:
                res["ev"] = run_eval(T, ev)
            return res
    except Exception as e:  # noqa
        return {"err": classify_exc(e), "exc": type(e).__name__, "msg": norm_msg(e)}


# ----------------------------------------------------------------------------
# model output
# ----------------------------------------------------------------------------

def read_mat(t):
    p, m = t.nat(), t.nat()
    return [[str(t.rat()) for _ in range(m)] for _ in range(p)]


def parse_out(line):
    t = Tokens(line)
    head = t.next()
    if head == "err":
        return {"err": t.next()}
    if head != "ok":
        return {"driver": line}
    res = {"nin": t.nat(), "nout": t.nat()}
    assert t.next() == "cm"
    res["cm"] = read_mat(t)
    assert t.next() == "im"
    res["im"] = read_mat(t)
    assert t.next() == "om"
    res["om"] = read_mat(t)
    k = t.next()
    # >>> C07-v07: add_unused: labels of the appended inputs / outputs (IC.addedLabels)
    if k == "un":
        if t.t[t.i] == "err":
            t.next()
            return {"driver": "addedLabels: " + line[:200]}
        res["uin"] = [t.next() for _ in range(t.nat())]
        res["uout"] = [t.next() for _ in range(t.nat())]
        k = t.next()
    # <<< C07-v07
    if k == "lin":
        n = t.nat()
        res["lin"] = {"n": n, "A": read_mat(t), "B": read_mat(t), "C": read_mat(t), "D": read_mat(t)}
    while not t.done():
        k = t.next()
        assert k in ("ev", "tr"), k
        res.setdefault("ev", {})
        if t.t[t.i] == "err":
            t.next()
            res["ev"]["err"] = k + ":" + t.next()
        elif k == "ev":
            res["ev"]["rhs"], res["ev"]["out"] = read_mat(t), read_mat(t)
        else:
            res["ev"]["X"], res["ev"]["Y"] = read_mat(t), read_mat(t)
    return res


def F(M):
    return [[Fraction(x) for x in r] for r in M]


def canon_unused(res, base):
    """add_unused appends the unused signals in the iteration order of a Python set: sort the
    appended columns of input_map (with B, D) and rows of output_map (with C, D)"""
    if "err" in res or "driver" in res or base is None:
        return res
    nin0, nout0 = base
    res = dict(res)
    nin, nout = res["nin"], res["nout"]
    im = F(res["im"])
    om = F(res["om"])
    cols = list(range(nin))
    rows = list(range(nout))
    if nin0 < nin:
        cols = cols[:nin0] + sorted(cols[nin0:], key=lambda c: [r[c] for r in im])
    if nout0 < nout:
        rows = rows[:nout0] + sorted(rows[nout0:], key=lambda r: om[r])
    res["im"] = [[res["im"][r][c] for c in cols] for r in range(len(res["im"]))]
    res["om"] = [res["om"][r] for r in rows]
    # >>> C07-v07: every appended column / row keeps its name (implementation: all labels of the
    # result; model: the labels of the appended signals only)
    if "inl" in res and len(res["inl"]) == nin and len(res["outl"]) == nout:
        res["inl"] = [res["inl"][c] for c in cols]
        res["outl"] = [res["outl"][r] for r in rows]
    if "uin" in res and len(res["uin"]) == nin - nin0 and len(res["uout"]) == nout - nout0:
        res["uin"] = [res["uin"][c - nin0] for c in cols[nin0:]]
        res["uout"] = [res["uout"][r - nout0] for r in rows[nout0:]]
    # <<< C07-v07
    if "lin" in res:
        L = dict(res["lin"])
        L["B"] = [[row[c] for c in cols] for row in L["B"]]
        L["C"] = [L["C"][r] for r in rows]
        L["D"] = [[L["D"][r][c] for c in cols] for r in rows]
        res["lin"] = L
    return res


# ----------------------------------------------------------------------------
# generator
# ----------------------------------------------------------------------------

NAMES = ["P", "C", "G1", "plant", "ctrl", "S2", "filt", "obs", "K_a", "sysB"]
SIGPOOL = ["r", "e", "v", "w", "z", "q", "h", "d", "n", "m", "f", "g", "a", "b"]


def rand_mat(rng, p, m, lo=-2, hi=2, zero=0.3):
    return [[str(0 if rng.random() < zero else rng.randint(lo, hi)) for _ in range(m)] for _ in range(p)]


# >>> C07-v07: indexed labels whose dictionary (insertion) order is not the lexicographic order of
# the label strings: `_find_signals` lists the channels of a base name / slice in dictionary order
def index_numbers(rng, n):
    """channel numbers of an n-channel vector signal, in dictionary order"""
    r = rng.random()
    if r < 0.70:
        return list(range(n))                       # u[0] .. u[n-1]
    if r < 0.80:
        k0 = rng.choice([8, 9, 9, 98, 99])          # u[9], u[10]: ascending, but '10' < '9' as text
        return list(range(k0, k0 + n))
    if r < 0.90:
        ks = list(range(n))                         # labels given in another order: u[1], u[0]
        rng.shuffle(ks)
        return ks
    return sorted(rng.sample(range(0, 14), n))      # gaps: u[2], u[7], u[11]
# <<< C07-v07


def gen_system(rng, name, style, used_labels=None, nl=False, dims_=None, bases=None):
    nin, nout = rng.choice([1, 1, 2, 2, 3]), rng.choice([1, 1, 2, 2, 3])
    n = rng.choice([0, 1, 1, 2, 2, 3])
    if dims_ is not None:
        nin, nout = dims_
    if style == "idx":
        ib, ob = rng.choice([("u", "y"), ("in", "out"), ("u", "y")])
        if bases is not None:
            ib, ob = bases
        inl = ["%s[%d]" % (ib, k) for k in (index_numbers(rng, nin) if dims_ is None else range(nin))]
        outl = ["%s[%d]" % (ob, k) for k in (index_numbers(rng, nout) if dims_ is None else range(nout))]
    elif style == "mixed":
        inl = ["u[%d]" % k for k in range(nin - 1)] + ["d"] if nin > 1 else ["u"]
        outl = ["y[%d]" % k for k in range(nout - 1)] + ["aux"] if nout > 1 else ["y"]
    else:
        low = name.lower().replace("_", "")
        inl = ["%si%d" % (low, k) for k in range(nin)]
        outl = ["%so%d" % (low, k) for k in range(nout)]
    proper = n > 0 and rng.random() < 0.45
    s = {"name": name, "in": inl, "out": outl, "n": n,
         "A": rand_mat(rng, n, n), "B": rand_mat(rng, n, nin, zero=0.15),
         "C": rand_mat(rng, nout, n, zero=0.15),
         "D": [["0"] * nin for _ in range(nout)] if proper else rand_mat(rng, nout, nin, zero=0.4)}
    if nl:
        s["nl"] = True
    return s


def d_zero(s):
    _, _, _, _, _, _, D = sys_view(s)
    return all(Fraction(x) == 0 for r in D for x in r)


def dims(s):
    inl, outl = sys_view(s)[:2]
    return len(inl), len(outl)


# an explicit gain of zero (a (sys, sig, 0) entry written out of a gain matrix) is a gain like any
# other: the source contributes nothing
GAINS = [1, 1, 1, -1, -1, 2, -2, 3, 0.5, -0.5, 0, 0.0]


def gwrap(rng, g):
    """the gain `g` as the caller may hold it: Python int / float, -0.0, or a NumPy scalar
    (an entry `F[i, j]` of an integer / float64 / float32 array)"""
    q = Fraction(g)
    r = rng.random()
    if r < 0.5:
        return g
    if r < 0.62:
        return -0.0 if q == 0 else float(g)
    if r < 0.82:
        return NpNum("float64", -0.0 if (q == 0 and rng.random() < 0.3) else float(g))
    if r < 0.92 and q.denominator == 1:
        return NpNum(rng.choice(["int64", "int32"]), int(q))
    return NpNum("float32", float(g))


def gen_wiring(rng, systems, loops=False):
    """semantic wiring: conn = [{"to": (b, js), "from": [(a, is, g), ...]}], inp = entries,
    out = entries; entries are {"k": "sum", "t": [...]} or {"k": "all", "s": b}"""
    ns = len(systems)
    rank = list(range(ns))
    rng.shuffle(rank)

    def allowed(a, b):
        return loops or rank[a] < rank[b] or d_zero(systems[a])
    conn = []
    free_inputs = [(b, j) for b in range(ns) for j in range(dims(systems[b])[0])]
    rng.shuffle(free_inputs)
    nconn = rng.randint(0, min(len(free_inputs), 2 + ns))
    taken = set()
    for (b, j) in free_inputs[:nconn]:
        if (b, j) in taken:
            continue
        srcs = [a for a in range(ns) if allowed(a, b)]
        if not srcs:
            continue
        # vector connection?
        a = rng.choice(srcs)
        nin_b, nout_a = dims(systems[b])[0], dims(systems[a])[1]
        if rng.random() < 0.3 and nin_b > 1 and nout_a > 1:
            k = rng.randint(2, min(nin_b, nout_a))
            js = list(range(nin_b))[:k] if rng.random() < 0.6 else rng.sample(range(nin_b), k)
            if any((b, jj) in taken for jj in js):
                continue
            is_ = list(range(nout_a))[:k] if rng.random() < 0.6 else rng.sample(range(nout_a), k)
            frm = [(a, is_, rng.choice(GAINS))]
            if rng.random() < 0.3:
                a2 = rng.choice(srcs)
                if dims(systems[a2])[1] >= k:
                    frm.append((a2, rng.sample(range(dims(systems[a2])[1]), k), rng.choice(GAINS)))
            conn.append({"to": (b, js), "from": frm})
            taken.update((b, jj) for jj in js)
        else:
            frm = []
            for _ in range(rng.choice([1, 1, 1, 2, 3])):
                a = rng.choice(srcs)
                frm.append((a, [rng.randrange(dims(systems[a])[1])], rng.choice(GAINS)))
            conn.append({"to": (b, [j]), "from": frm})
            taken.add((b, j))
    inp = []
    for _ in range(rng.randint(1, 3)):
        if rng.random() < 0.2:
            inp.append({"k": "all", "s": rng.randrange(ns)})
        else:
            t = []
            for _ in range(rng.choice([1, 1, 1, 2])):
                b = rng.randrange(ns)
                t.append((b, rng.randrange(dims(systems[b])[0])))
            inp.append({"k": "sum", "t": t})
    out = []
    for _ in range(rng.randint(1, 3)):
        if rng.random() < 0.2:
            out.append({"k": "all", "s": rng.randrange(ns)})
        else:
            t = []
            for _ in range(rng.choice([1, 1, 1, 2])):
                b = rng.randrange(ns)
                if rng.random() < 0.2:
                    t.append(("u", b, rng.randrange(dims(systems[b])[0]), rng.choice(GAINS)))
                else:
                    t.append(("y", b, rng.randrange(dims(systems[b])[1]), rng.choice(GAINS)))
            out.append({"k": "sum", "t": t})
    return {"conn": conn, "inp": inp, "out": out}


def labels_of(s, kind):
    inl, outl = sys_view(s)[:2]
    return inl if kind == "u" else outl


def canonical_call(systems, w):
    """spelling 0: index tuples, one scalar connection per signal"""
    conns = []
    for c in w["conn"]:
        b, js = c["to"]
        for k, j in enumerate(js):
            conns.append([(b, j)] + [(a, is_[k], g) for (a, is_, g) in c["from"]])
    inplist = []
    for e in w["inp"]:
        if e["k"] == "all":
            inplist.extend((e["s"], j) for j in range(dims(systems[e["s"]])[0]))
        elif e["k"] == "vec":       # C07-v07: one external input per listed signal
            inplist.extend((e["s"], j) for j in e["idx"])
        else:
            inplist.append([(b, j) for (b, j) in e["t"]])
    outlist = []
    for e in w["out"]:
        if e["k"] == "all":
            outlist.extend((e["s"], i) for i in range(dims(systems[e["s"]])[1]))
        elif e["k"] == "vec":       # C07-v07: one external output per listed signal, gain g
            outlist.extend((e["s"], i, e["g"]) for i in e["idx"])
        else:
            lst = []
            for (kind, b, i, g) in e["t"]:
                if kind == "y":
                    lst.append((b, i, g))
                else:
                    lst.append((systems[b]["name"], labels_of(systems[b], "u")[i], g))
            outlist.append(lst)
    return {"connections": enc(conns), "inplist": enc(inplist), "outlist": enc(outlist)}


def slice_forms(labels, idxs):
    """string forms 'base[lo:hi]' / 'base' naming exactly the signals idxs (in order)"""
    forms = []
    ms = [RE_SIG.match(labels[i]) for i in idxs]
    if not all(ms) or len({m.group(1) for m in ms}) != 1:
        return forms
    base = ms[0].group(1)
    ks = [int(m.group(2)) for m in ms]
    # all labels with this base, in dictionary order
    allb = [(i, int(RE_SIG.match(l).group(2))) for i, l in enumerate(labels)
            if RE_SIG.match(l) and RE_SIG.match(l).group(1) == base]
    lo, hi = min(ks), max(ks) + 1
    sel = [i for (i, k) in allb if lo <= k < hi]
    if sel == list(idxs):
        forms.append("%s[%d:%d]" % (base, lo, hi))
        if [i for (i, k) in allb if k >= lo] == list(idxs):
            forms.append("%s[%d:]" % (base, lo))
        if [i for (i, k) in allb if k < hi] == list(idxs):
            forms.append("%s[:%d]" % (base, hi))
    if [i for (i, k) in allb] == list(idxs):
        forms.append("%s[:]" % base)
        if base not in labels:
            forms.append(base)
    return forms


def render_ref(rng, systems, a, idxs, g, kind, allow_gain=True, names=0.0):
    """one spelling of "signals idxs of subsystem a with gain g" (kind 'u' input / 'y' output);
    names = probability of insisting on a range / base-name form when there is one (C07-v07)"""
    s = systems[a]
    labels = labels_of(s, kind)
    name = s["name"]
    opts = []
    sysr = rng.choice([a, name])
    gl = [] if g == 1 and rng.random() < 0.7 else [gwrap(rng, g)]
    if not allow_gain:
        gl = [] if rng.random() < 0.8 else [gwrap(rng, 1)]
    if len(idxs) == 1:
        i = idxs[0]
        lab = labels[i]
        opts.append(tuple([sysr, i] + gl))
        opts.append(tuple([sysr, lab] + gl))
        opts.append(tuple([sysr, [i]] + gl))
        opts.append(tuple([sysr, [lab]] + gl))
        if g == 1:
            opts.append("%s.%s" % (name, lab))
        if g == -1 and allow_gain:
            opts.append("-%s.%s" % (name, lab))
            opts.append("%s.-%s" % (name, lab))
            opts.append((sysr, "-" + lab))
            opts.append(("-" + name, lab))
            opts.append(("-" + name, i))
    else:
        opts.append(tuple([sysr, list(idxs)] + gl))
        opts.append(tuple([sysr, [labels[i] for i in idxs]] + gl))
    nopts = []
    for f in slice_forms(labels, idxs):
        nopts.append(tuple([sysr, f] + gl))
        nopts.append(tuple([sysr, [f]] + gl))
        if g == 1:
            nopts.append("%s.%s" % (name, f))
        if g == -1 and allow_gain:
            nopts.append("-%s.%s" % (name, f))
    if nopts and rng.random() < names:
        return rng.choice(nopts)
    opts.extend(nopts)
    if list(idxs) == list(range(len(labels))):
        if g == 1:
            opts.extend([a, name, (sysr,), (sysr, None)])
        elif allow_gain:
            opts.append((sysr, None, gwrap(rng, g)))
            if g == -1:
                opts.append("-" + name)
                opts.append(("-" + name,))
    return rng.choice(opts)


def sysnames(systems):
    return {s["name"] for s in systems}


def all_labels(systems):
    out = set()
    for s in systems:
        out.update(labels_of(s, "u"))
        out.update(labels_of(s, "y"))
    return out


def bare_forms(systems, b, idxs, kind):
    """(C07-v07) range / base-name strings without a system part ('e', 'e[2:12]') naming exactly
    the signals idxs of subsystem b: only when no other subsystem carries that base name in the
    same dictionary (the matches of all subsystems are summed) and it is not a system name"""
    out = []
    for f in slice_forms(labels_of(systems[b], kind), idxs):
        base = f.split("[")[0]
        others = [l for k2, s2 in enumerate(systems) if k2 != b for l in labels_of(s2, kind)]
        if base in sysnames(systems) or base in others or \
                any(RE_SIG.match(l) and RE_SIG.match(l).group(1) == base for l in others):
            continue
        out.append(f)
    return out


def random_call(rng, systems, w, names=0.0):
    """spelling 1: random forms (names: see render_ref)"""
    conns = []
    for c in w["conn"]:
        b, js = c["to"]
        if rng.random() < 0.25 and len(c["from"]) > 1:
            # a list that sums == several connections to the same input
            for (a, is_, g) in c["from"]:
                conns.append([render_ref(rng, systems, b, js, 1, "u", allow_gain=False, names=names),
                              render_ref(rng, systems, a, is_, g, "y", names=names)])
        elif rng.random() < 0.25 * (1 - names) and len(js) > 1:
            for k, j in enumerate(js):
                conns.append([render_ref(rng, systems, b, [j], 1, "u", allow_gain=False)] +
                             [render_ref(rng, systems, a, [is_[k]], g, "y") for (a, is_, g) in c["from"]])
        else:
            conns.append([render_ref(rng, systems, b, js, 1, "u", allow_gain=False, names=names)] +
                         [render_ref(rng, systems, a, is_, g, "y", names=names) for (a, is_, g) in c["from"]])
    rng.shuffle(conns)
    if not conns and rng.random() < 0.5:
        conns = False
    if conns and len(conns) == 1 and rng.random() < 0.5 and all(isinstance(x, (str, tuple)) for x in conns[0]):
        conns = conns[0]        # single connection given flat
    call = {}
    for key, kind in (("inp", "u"), ("out", "y")):
        lst = []
        for e in w[key]:
            if e["k"] == "all":
                s = systems[e["s"]]
                n = dims(s)[0 if kind == "u" else 1]
                forms = [e["s"], s["name"], (e["s"],), (s["name"], None), (e["s"], list(range(n)))]
                nforms = ["%s.%s" % (s["name"], f) for f in slice_forms(labels_of(s, kind), list(range(n)))]
                nforms += bare_forms(systems, e["s"], list(range(n)), kind)
                forms += nforms
                lst.append(rng.choice(nforms if nforms and rng.random() < names else forms))
            elif e["k"] == "vec":
                # (C07-v07) several signals of one subsystem, one external signal each
                g = 1 if key == "inp" else e["g"]
                nforms = bare_forms(systems, e["s"], e["idx"], kind) if g == 1 else []
                if g == -1:
                    nforms = ["-" + f for f in bare_forms(systems, e["s"], e["idx"], kind)]
                if nforms and rng.random() < 0.3:
                    lst.append(rng.choice(nforms))
                else:
                    lst.append(render_ref(rng, systems, e["s"], e["idx"], g, kind,
                                          allow_gain=(key == "out"), names=names))
            elif key == "inp":
                refs = [render_ref(rng, systems, b, [j], 1, "u", allow_gain=False) for (b, j) in e["t"]]
                lst.append(refs[0] if len(refs) == 1 and rng.random() < 0.6 and not is_int(refs[0]) else refs)
            else:
                refs = []
                for (k2, b, i, g) in e["t"]:
                    if k2 == "y":
                        refs.append(render_ref(rng, systems, b, [i], g, "y"))
                    else:
                        lab = labels_of(systems[b], "u")[i]
                        nm = systems[b]["name"]
                        forms = [(nm, lab, gwrap(rng, g)), (b, lab, gwrap(rng, g))]
                        if g == 1:
                            forms += ["%s.%s" % (nm, lab), (nm, lab), (b, [lab])]
                        if g == -1:
                            forms += ["-%s.%s" % (nm, lab), (nm, "-" + lab)]
                        refs.append(rng.choice(forms))
                lst.append(refs[0] if len(refs) == 1 and rng.random() < 0.6 and not is_int(refs[0]) else refs)
        call["inplist" if key == "inp" else "outlist"] = lst
    # a single non-list inplist/outlist
    for key in ("inplist", "outlist"):
        if len(call[key]) == 1 and not isinstance(call[key][0], list) and rng.random() < 0.3:
            call[key] = call[key][0]
    return {"connections": enc(conns), "inplist": enc(call["inplist"]), "outlist": enc(call["outlist"])}


def counts(systems, w):
    cnt = lambda e, d: dims(systems[e["s"]])[d] if e["k"] == "all" else (len(e["idx"]) if e["k"] == "vec" else 1)
    return sum(cnt(e, 0) for e in w["inp"]), sum(cnt(e, 1) for e in w["out"])


def input_used_as_output_ambiguous(systems, w):
    """a subsystem input listed in outlist whose label also names (or is the base name of) an
    output of the same subsystem resolves to that output: keep the generator off it"""
    for e in w["out"]:
        if e["k"] != "sum":
            continue
        for (k2, b, i, g) in e["t"]:
            if k2 == "u":
                lab = labels_of(systems[b], "u")[i]
                outs = labels_of(systems[b], "y")
                if lab in outs or any(RE_SIG.match(o) and RE_SIG.match(o).group(1) == lab for o in outs):
                    return True
    return False


def gen_explicit(rng, tier, loops=False, nl=False):
    ns = rng.choice([1, 2, 2, 3, 3, 4])
    names = rng.sample(NAMES, ns)
    style = rng.choice(["idx", "idx", "named", "mixed"])
    r = rng.random()
    if r < 0.12:
        # add_unused names the added signals by their bare labels: keep them distinct
        systems = [gen_system(rng, nm, "named", nl=(nl and rng.random() < 0.6)) for nm in names]
    else:
        systems = [gen_system(rng, nm, rng.choice([style, style, "idx", "named"]),
                              nl=(nl and rng.random() < 0.6)) for nm in names]
    if nl and not any(s.get("nl") for s in systems):
        systems[0]["nl"] = True
    w = gen_wiring(rng, systems, loops=loops)
    if input_used_as_output_ambiguous(systems, w):
        return None
    c0 = canonical_call(systems, w)
    c1 = random_call(rng, systems, w)
    nin, nout = counts(systems, w)
    if r < 0.25:
        for c in (c0, c1):
            c["inputs"] = ["w%d" % k for k in range(nin)]
            c["outputs"] = ["z%d" % k for k in range(nout)]
    case = {"tag": "loops" if loops else ("nl" if nl else "explicit"), "sys": systems, "calls": [c0, c1]}
    if r < 0.12:
        for c in (c0, c1):
            c["add_unused"] = True
        case["base"] = [nin, nout]
        case["tag"] = "add_unused"
    return case


def gen_implicit(rng, tier):
    """signals connected by name: outputs get names from a pool, inputs reuse them; a summing
    junction with signs; `inputs=` / `outputs=` name the external signals"""
    ns = rng.choice([2, 2, 3, 3, 4])
    names = rng.sample(NAMES, ns)
    pool = list(SIGPOOL)
    rng.shuffle(pool)
    systems = []
    outnames = []
    rank = list(range(ns))
    rng.shuffle(rank)
    # outputs first
    outs = []
    for k in range(ns):
        no = rng.choice([1, 1, 2])
        o = [pool.pop() for _ in range(no)]
        outs.append(o)
    ext = [pool.pop() for _ in range(2)]
    flags = []
    for k in range(ns):
        sj = rng.random() < 0.3
        flags.append((sj, rng.random() < 0.5 and not sj))
    for k in range(ns):
        sj, proper = flags[k]
        ni = rng.choice([1, 2, 2, 3])
        cand = [(a, o) for a in range(ns) for o in outs[a]
                if (a != k and (rank[a] < rank[k] or flags[a][1] or rng.random() < 0.1))
                or (a == k and flags[k][1] and rng.random() < 0.5)]
        ins = []
        for _ in range(ni):
            r = rng.random()
            if r < 0.55 and cand:
                ins.append(rng.choice(cand)[1])
            else:
                ins.append(rng.choice(ext))
        ins = list(dict.fromkeys(ins))
        if sj:
            sins = [("-" if rng.random() < 0.4 else "") + x for x in ins]
            systems.append({"name": names[k], "sj": {"inputs": sins, "output": outs[k][0]}})
            outs[k] = outs[k][:1]
        else:
            n = rng.choice([1, 1, 2]) if proper else rng.choice([0, 1, 2])
            nin, nout = len(ins), len(outs[k])
            systems.append({"name": names[k], "in": ins, "out": outs[k], "n": n,
                            "A": rand_mat(rng, n, n), "B": rand_mat(rng, n, nin, zero=0.15),
                            "C": rand_mat(rng, nout, n, zero=0.15),
                            "D": [["0"] * nin for _ in range(nout)] if proper
                            else rand_mat(rng, nout, nin, zero=0.4)})
    used_ext = [x for x in ext if any(x in labels_of(s, "u") for s in systems)]
    if not used_ext:
        return None
    allouts = [o for k in range(ns) for o in labels_of(systems[k], "y")]
    yout = rng.sample(allouts, rng.randint(1, min(2, len(allouts))))
    if rng.random() < 0.3:
        yout[0] = "-" + yout[0]
    c_imp = {"connections": None, "inputs": list(used_ext), "outputs": [y.lstrip("-") for y in yout]}
    if any(y.startswith("-") for y in yout):
        c_imp["outlist"] = list(yout)
    # explicit spelling of the same wiring
    conns = []
    for b, s in enumerate(systems):
        for j, lab in enumerate(labels_of(s, "u")):
            src = [(a, labels_of(t, "y").index(lab)) for a, t in enumerate(systems)
                   if lab in labels_of(t, "y")]
            if src:
                conns.append([(b, j)] + [(a, i) for (a, i) in src])
    inplist = [[(b, labels_of(s, "u").index(x)) for b, s in enumerate(systems) if x in labels_of(s, "u")]
               for x in used_ext]
    outlist = []
    for y in yout:
        g = -1 if y.startswith("-") else 1
        y0 = y.lstrip("-")
        outlist.append([(a, labels_of(t, "y").index(y0), g) for a, t in enumerate(systems)
                        if y0 in labels_of(t, "y")])
    c_exp = {"connections": enc(conns), "inplist": enc(inplist), "outlist": enc(outlist)}
    if not conns:
        return None
    return {"tag": "implicit", "sys": systems, "calls": [c_imp, c_exp]}


def gen_malformed(rng, tier):
    case = None
    while case is None:
        case = gen_explicit(rng, tier)
    systems = case["sys"]
    call = {k: dec(v) if k in ("connections", "inplist", "outlist") else v
            for k, v in case["calls"][0].items()}
    ns = len(systems)
    kind = rng.choice(["sig-hi", "sig-hi", "sig-neg", "sys-hi", "sys-neg", "sys-name", "sig-name",
                       "gain-twice", "gain-input", "gain-inplist", "len", "dots", "tuple4", "out-hi", "out-hi",
                       "inp-hi", "inp-neg", "bare-unknown", "sig-hi-next", "names-list", "names-list",
                       "slice-empty"])
    conns = call["connections"]
    b = rng.randrange(ns)
    a = rng.randrange(ns)
    nin_b, nout_a = dims(systems[b])[0], dims(systems[a])[1]
    nm = lambda k: rng.choice([k, systems[k]["name"]])
    if kind == "sig-hi":
        conns.append([(nm(b), nin_b + rng.randrange(2)), (nm(a), 0)])
    elif kind == "sig-hi-next":
        conns.append([(nm(b), 0), (nm(a), nout_a + rng.randrange(2))])
    elif kind == "sig-neg":
        conns.append(rng.choice([[(nm(b), -1), (nm(a), 0)], [(nm(b), 0), (nm(a), -1 - rng.randrange(2))]]))
    elif kind == "sys-hi":
        conns.append(rng.choice([[(ns, 0), (a, 0)], [(b, 0), (ns + 1, 0)]]))
    elif kind == "sys-neg":
        conns.append(rng.choice([[(-1, 0), (a, 0)], [(b, 0), (-1, 0)], [(b, 0), (-ns, 0)]]))
    elif kind == "sys-name":
        conns.append([(nm(b), 0), ("nosuch", 0)] if rng.random() < 0.5 else ["nosuch.u", (a, 0)])
    elif kind == "sig-name":
        conns.append(rng.choice([[(nm(b), 0), (systems[a]["name"], "nosuch")],
                                 ["%s.nosuch" % systems[b]["name"], (a, 0)],
                                 [(nm(b), 0), "%s.nosuch[0:2]" % systems[a]["name"]]]))
    elif kind == "gain-twice":
        conns.append([(b, 0), rng.choice([("-" + systems[a]["name"], 0, rng.choice([2, 0])),
                                          (systems[a]["name"], "-" + labels_of(systems[a], "y")[0],
                                           rng.choice([2, 0.0])),
                                          ("-" + systems[a]["name"], "-" + labels_of(systems[a], "y")[0])])])
    elif kind == "gain-input":
        # any gain other than 1 on the input side of a connection, an explicit zero included
        conns.append([rng.choice([(b, 0, rng.choice([2, 0, 0.0, -1, 0.5, NpNum("float64", 0.0)])),
                                  "-%s.%s" % (systems[b]["name"], labels_of(systems[b], "u")[0])]),
                      (a, 0)])
    elif kind == "gain-inplist":
        # idem in `inplist` (also inside a list that sums)
        ent = (nm(b), rng.randrange(nin_b), rng.choice([2, 0, 0.0, -1, NpNum("int64", 0)]))
        call["inplist"] = list(call["inplist"]) + [rng.choice([ent, [ent], [(nm(a), 0), ent]])]
    elif kind == "len":
        if nin_b < 2:
            conns.append([(b, [0, 0]), (a, 0)])
        else:
            conns.append([(b, [0, 1]), (a, [0])])
    elif kind == "dots":
        conns.append([(b, 0), "%s.y.z" % systems[a]["name"]])
    elif kind == "tuple4":
        conns.append([(b, 0), (a, 0, 1, 1)])
    elif kind == "out-hi":
        nu_a = dims(systems[a])[0]
        call["outlist"] = list(call["outlist"]) + [(nm(a), max(nout_a, nu_a) + rng.randrange(2))]
    elif kind == "inp-hi":
        call["inplist"] = list(call["inplist"]) + [(nm(b), nin_b + rng.randrange(2))]
    elif kind == "inp-neg":
        call["inplist"] = list(call["inplist"]) + [(nm(b), -1)]
    elif kind == "bare-unknown":
        call["outlist"] = list(call["outlist"]) + ["nosuch"]
    elif kind == "slice-empty":
        # a range of an existing base name that selects nothing: beyond the last index, or empty
        side = rng.choice(["in", "src", "inp", "out"])
        k, knd = (b, "u") if side in ("in", "inp") else (a, "y")
        labs = labels_of(systems[k], knd)
        ms = [RE_SIG.match(l) for l in labs if RE_SIG.match(l)]
        if ms:
            base = ms[0].group(1)
            top = 1 + max(int(m.group(2)) for m in ms if m.group(1) == base)
            sl = rng.choice(["%s[%d:%d]" % (base, top, top + 2), "%s[%d:]" % (base, top),
                             "%s[1:1]" % base, "%s[:0]" % base])
            sname = systems[k]["name"]
            ref = rng.choice(["%s.%s" % (sname, sl), (nm(k), sl), (nm(k), [sl])])
            if side == "in":
                conns.append([ref, (nm(a), 0)])
            elif side == "src":
                conns.append([(nm(b), 0), ref])
            elif side == "inp":
                call["inplist"] = list(call["inplist"]) + [ref]
            else:
                call["outlist"] = list(call["outlist"]) + [ref]
        else:
            conns.append([(nm(b), 0), "%s.nosuch[0:2]" % systems[a]["name"]])
    elif kind == "names-list":
        # a list of signal names with an unknown one at a random position
        side = rng.choice(["in", "src", "inp", "out"])
        k, knd = (b, "u") if side in ("in", "inp") else (a, "y")
        labs = labels_of(systems[k], knd)
        L = rng.choice([2, 2, 3])
        names = [rng.choice(labs) for _ in range(L)]
        names[rng.randrange(L)] = rng.choice(["nosuch", "nosuch[0]", labs[0] + "x"])
        other = lambda n: [rng.randrange(n) for _ in range(L)]
        if side == "in":
            conns.append([(nm(b), names), (nm(a), other(nout_a))])
        elif side == "src":
            conns.append([(nm(b), other(nin_b)), (nm(a), names)])
        elif side == "inp":
            call["inplist"] = list(call["inplist"]) + [(nm(b), names)]
        else:
            call["outlist"] = list(call["outlist"]) + [(nm(a), names)]
    call = {k: enc(v) if k in ("connections", "inplist", "outlist") else v for k, v in call.items()}
    return {"tag": "malformed", "mal": kind, "sys": systems, "calls": [call]}


def gen_edge(rng, tier):
    """wirings the property counts as valid but that sit on special paths of the code"""
    case = None
    while case is None:
        case = gen_explicit(rng, tier)
    systems = case["sys"]
    call = dict(case["calls"][0])
    kind = rng.choice(["empty-conns", "false-conns", "outlist-input-index"])
    if kind == "empty-conns":
        call["connections"] = []
    elif kind == "false-conns":
        call["connections"] = False
    else:
        # an index beyond the outputs but within the inputs: resolved as subsystem input
        a = rng.randrange(len(systems))
        nu, ny = dims(systems[a])
        if nu <= ny:
            call["connections"] = False
        else:
            call["outlist"] = dec(call["outlist"]) + [(a, ny)]
            call["outlist"] = enc(call["outlist"])
            if input_used_as_output_ambiguous(
                    systems, {"out": [{"k": "sum", "t": [("u", a, ny, 1)]}]}):
                call["outlist"] = case["calls"][0]["outlist"]
    call.pop("add_unused", None)
    return {"tag": "edge", "edge": kind, "sys": systems, "calls": [call]}


def gen_idxlist(rng, tier):
    """integer index *lists* in tuple specs, at every place a spec may stand: valid lists in any
    order and with repetitions, and lists with one out-of-range / negative entry at a random
    position (first, middle, last) — every entry of the list has to be checked"""
    case = None
    while case is None:
        case = gen_explicit(rng, tier)
    systems = case["sys"]
    call = {k: dec(v) if k in ("connections", "inplist", "outlist") else v
            for k, v in case["calls"][0].items()}
    call.pop("add_unused", None)
    ns = len(systems)
    b, a = rng.randrange(ns), rng.randrange(ns)
    nm = lambda k: rng.choice([k, systems[k]["name"]])
    kind = rng.choice(["perm", "dup", "hi", "hi", "hi", "neg", "neg", "empty"])
    # connections are the place where a list reaches InterconnectedSystem.__init__ as a list
    # (interconnect() expands inplist / outlist entries into one spec per signal first)
    site = rng.choice(["conn-in"] * 3 + ["conn-src"] * 3 + ["conn-src2"] * 2 +
                      ["inplist", "inplist-sum", "outlist", "outlist-sum"])
    L = rng.choice([2, 2, 3, 3, 4])

    def mk(n):
        """index list over range(n) of length L of the chosen kind"""
        if kind == "empty":
            return []
        if kind == "perm" and n >= 2:
            l = rng.sample(range(n), min(L, n))
            if l == sorted(l):
                l.reverse()
            return l
        l = [rng.randrange(n) for _ in range(L)]
        if kind == "hi":
            l[rng.randrange(L)] = n + rng.randrange(2)
        elif kind == "neg":
            l[rng.randrange(L)] = -1 - rng.randrange(2)
        return l

    def ok(n, length):
        return [rng.randrange(n) for _ in range(length)]
    nin_b, nout_a = dims(systems[b])[0], dims(systems[a])[1]
    if site == "conn-in":
        l = mk(nin_b)
        call["connections"].append([(nm(b), l), (nm(a), ok(nout_a, len(l)))])
    elif site == "conn-src":
        l = mk(nout_a)
        call["connections"].append([(nm(b), ok(nin_b, len(l))), (nm(a), l, rng.choice(GAINS))])
    elif site == "conn-src2":
        l = mk(nout_a)
        a2 = rng.randrange(ns)
        call["connections"].append([(nm(b), ok(nin_b, len(l))),
                                    (nm(a2), ok(dims(systems[a2])[1], len(l))), (nm(a), l)])
    elif site == "inplist":
        call["inplist"] = list(call["inplist"]) + [(nm(b), mk(nin_b))]
    elif site == "inplist-sum":
        call["inplist"] = list(call["inplist"]) + [[(nm(a), 0), (nm(b), mk(nin_b))]]
    elif site == "outlist":
        call["outlist"] = list(call["outlist"]) + [(nm(a), mk(nout_a), rng.choice(GAINS))]
    else:
        call["outlist"] = list(call["outlist"]) + [[(nm(b), 0), (nm(a), mk(nout_a))]]
    for key in ("inputs", "outputs"):
        call.pop(key, None)
    call = {k: enc(v) if k in ("connections", "inplist", "outlist") else v for k, v in call.items()}
    return {"tag": "idxlist", "mal": "list-%s@%s" % (kind, site), "sys": systems, "calls": [call]}


def gen_gainmat(rng, tier):
    """static output feedback / output mixing written entry by entry from gain matrices that
    contain zeros: `[(sys, j)] + [(sys_a, i, F[j][i]) for every output i]` — the zero entries are
    listed too, as Python / NumPy zeros of any type (also where a non-zero gain would close an
    algebraic loop: a zero entry connects nothing); the second spelling leaves them out"""
    ns = rng.choice([1, 1, 2, 2, 3])
    names = rng.sample(NAMES, ns)
    systems = [gen_system(rng, nm, rng.choice(["idx", "named", "mixed"]), nl=rng.random() < 0.25)
               for nm in names]
    rank = list(range(ns))
    rng.shuffle(rank)
    ins = [(b, j) for b in range(ns) for j in range(dims(systems[b])[0])]
    outs = [(a, i) for a in range(ns) for i in range(dims(systems[a])[1])]
    pz = rng.choice([0.3, 0.5, 0.7])
    NZ = [g for g in GAINS if g != 0]

    def ref(a, i, kind):
        return (rng.choice([a, systems[a]["name"]]), rng.choice([i, labels_of(systems[a], kind)[i]]))
    conns0, conns1 = [], []
    for (b, j) in rng.sample(ins, rng.randint(1, len(ins))):
        row0, row1 = [], []
        for (a, i) in outs:
            if rng.random() < 0.25:
                continue                    # pair not in the matrix at all
            loopfree = rank[a] < rank[b] or d_zero(systems[a])
            g = rng.choice(NZ) if (loopfree and rng.random() >= pz) else 0
            row0.append(ref(a, i, "y") + (gwrap(rng, g),))
            if g != 0:
                row1.append(render_ref(rng, systems, a, [i], g, "y"))
        if row0:
            conns0.append([ref(b, j, "u")] + row0)
        if row1:
            conns1.append([render_ref(rng, systems, b, [j], 1, "u", allow_gain=False)] + row1)
    out0, out1 = [], []
    for _ in range(rng.randint(1, 3)):
        row0, row1 = [], []
        cand = [("y", a, i) for (a, i) in outs]
        for (b, j) in ins:
            lab = labels_of(systems[b], "u")[j]
            if not input_used_as_output_ambiguous(systems, {"out": [{"k": "sum", "t": [("u", b, j, 1)]}]}):
                cand.append(("u", b, j))
        for (kind, a, i) in rng.sample(cand, rng.randint(1, min(4, len(cand)))):
            g = 0 if rng.random() < pz else rng.choice(NZ)
            if kind == "y":
                row0.append(ref(a, i, "y") + (gwrap(rng, g),))
                if g != 0:
                    row1.append(render_ref(rng, systems, a, [i], g, "y"))
            else:
                row0.append((systems[a]["name"], labels_of(systems[a], "u")[i], gwrap(rng, g)))
                if g != 0:
                    row1.append((systems[a]["name"], labels_of(systems[a], "u")[i], g))
        out0.append(row0)
        out1.append(row1)
    inp = []
    for _ in range(rng.randint(1, 2)):
        inp.append([rng.choice(ins) for _ in range(rng.choice([1, 1, 2]))])
    inp1 = [[render_ref(rng, systems, b, [j], 1, "u", allow_gain=False) for (b, j) in e] for e in inp]
    c0 = {"connections": enc(conns0) if conns0 else False, "inplist": enc(inp), "outlist": enc(out0)}
    c1 = {"connections": enc(conns1) if conns1 else False, "inplist": enc(inp1), "outlist": enc(out1)}
    return {"tag": "gainmat", "sys": systems, "calls": [c0, c1]}


# >>> C07-v07: wide vector signals (11+ channels) and add_unused with many unused signals

def pick_range(rng, n, k):
    """k consecutive positions out of n; for n >= 11 mostly a range that contains channel 10 and one
    of the channels 2..9 (there the numeric order of the channels is not the lexicographic order
    of their labels)"""
    if n >= 11 and k >= 2 and rng.random() < 0.8:
        lo = rng.randint(max(0, 11 - k), min(9, n - k))
    else:
        lo = rng.randint(0, n - k)
    return list(range(lo, lo + k))


def gen_wide(rng, tier):
    """subsystems with vector signals of 11-13 channels ('u[0]' .. 'u[12]'), wired by base names
    ('C.u', bare 'e'), ranges ('P.u[0:12]', 'y[2:]', 'u[9:11]') and whole-system forms on one side
    and index lists / scalar tuples / label lists on the other; inplist / outlist by base name or
    range.  The canonical spelling uses scalar index tuples only."""
    ns = rng.choice([1, 2, 2, 2, 3])
    names = rng.sample(NAMES, ns)
    N = rng.choice([11, 11, 12, 12, 13])
    systems = []
    for nm in names:
        shape = rng.choice(["sq", "sq", "fan-in", "fan-out"])
        nin = N if shape in ("sq", "fan-in") else rng.choice([1, 2, 3])
        nout = N if shape in ("sq", "fan-out") else rng.choice([1, 2, 3])
        bases = rng.choice([("u", "y"), ("e", "u"), ("in", "out"), ("u", "y")])
        sy = gen_system(rng, nm, "idx", dims_=(nin, nout), bases=bases)
        if sy["n"] > 2:
            sy["n"], sy["A"] = 2, [r[:2] for r in sy["A"][:2]]
            sy["B"], sy["C"] = sy["B"][:2], [r[:2] for r in sy["C"]]
        systems.append(sy)
    rank = list(range(ns))
    rng.shuffle(rank)
    conn, taken = [], set()
    for _ in range(rng.randint(1, 1 + ns)):
        b = rng.randrange(ns)
        srcs = [a for a in range(ns) if rank[a] < rank[b] or d_zero(systems[a])]
        if not srcs:
            continue
        a = rng.choice(srcs)
        nin_b, nout_a = dims(systems[b])[0], dims(systems[a])[1]
        k = min(nin_b, nout_a)
        if k >= 2 and rng.random() < 0.7:
            k = rng.randint(2, k)
        js = pick_range(rng, nin_b, k)
        if any((b, j) in taken for j in js):
            continue
        r = rng.random()
        is_ = pick_range(rng, nout_a, k) if r < 0.7 else rng.sample(range(nout_a), k)
        frm = [(a, is_, rng.choice(GAINS))]
        if rng.random() < 0.25:
            a2 = rng.choice(srcs)
            if dims(systems[a2])[1] >= k:
                frm.append((a2, pick_range(rng, dims(systems[a2])[1], k), rng.choice(GAINS)))
        conn.append({"to": (b, js), "from": frm})
        taken.update((b, j) for j in js)

    def entry(kind):
        b = rng.randrange(ns)
        n = dims(systems[b])[0 if kind == "u" else 1]
        r = rng.random()
        g = 1 if kind == "u" else rng.choice([1, 1, 1, -1, 2, 0.5])
        if r < 0.3 or n < 2:
            return {"k": "all", "s": b}
        if r < 0.9:
            return {"k": "vec", "s": b, "idx": pick_range(rng, n, rng.randint(2, n)), "g": g}
        return {"k": "vec", "s": b, "idx": rng.sample(range(n), rng.randint(2, min(n, 4))), "g": g}
    w = {"conn": conn, "inp": [entry("u") for _ in range(rng.choice([1, 1, 2]))],
         "out": [entry("y") for _ in range(rng.choice([1, 1, 2]))]}
    c0 = canonical_call(systems, w)
    c1 = random_call(rng, systems, w, names=0.75)
    if rng.random() < 0.25:
        nin, nout = counts(systems, w)
        c1["inputs"] = ["w%d" % k for k in range(nin)]
        c1["outputs"] = nout
    return {"tag": "wide", "sys": systems, "calls": [c0, c1]}


def unused_sets(systems, w):
    """subsystem inputs / outputs that `unused_signals()` reports for the semantic wiring w: rows
    of input_map and connect_map / columns of output_map and connect_map that are entirely zero
    (gains accumulate exactly; subsystem inputs listed as outputs do not count as used)"""
    cm, om = {}, {}
    used_in, used_out = set(), set()
    for c in w["conn"]:
        b, js = c["to"]
        for (a, is_, g) in c["from"]:
            for j, i in zip(js, is_):
                cm[(b, j, a, i)] = cm.get((b, j, a, i), 0) + Fraction(g)
    for (b, j, a, i), g in cm.items():
        if g != 0:
            used_in.add((b, j))
            used_out.add((a, i))
    for e in w["inp"]:
        if e["k"] == "all":
            used_in.update((e["s"], j) for j in range(dims(systems[e["s"]])[0]))
        elif e["k"] == "vec":
            used_in.update((e["s"], j) for j in e["idx"])
        else:
            used_in.update(e["t"])
    for r, e in enumerate(w["out"]):
        if e["k"] == "all":
            used_out.update((e["s"], i) for i in range(dims(systems[e["s"]])[1]))
        elif e["k"] == "vec":
            if Fraction(e["g"]) != 0:
                used_out.update((e["s"], i) for i in e["idx"])
        else:
            for (kind, b, i, g) in e["t"]:
                if kind == "y":
                    om[(r, b, i)] = om.get((r, b, i), 0) + Fraction(g)
    used_out.update((b, i) for (r, b, i), g in om.items() if g != 0)
    allin = [(b, j) for b, s in enumerate(systems) for j in range(dims(s)[0])]
    allout = [(a, i) for a, s in enumerate(systems) for i in range(dims(s)[1])]
    return [p for p in allin if p not in used_in], [p for p in allout if p not in used_out]


def gen_unused(rng, tier):
    """add_unused=True with many unused signals spread over several subsystems, vs the call
    that lists the same signals explicitly (inplist / outlist entries and their labels in
    `inputs=` / `outputs=`); explicit connections, or implicit ones (by signal names)"""
    if rng.random() < 0.4:
        return gen_unused_implicit(rng, tier)
    ns = rng.choice([2, 2, 3, 3, 4])
    names = rng.sample(NAMES, ns)
    systems = [gen_system(rng, nm, "named", nl=rng.random() < 0.15,
                          dims_=(rng.choice([1, 2, 3, 3, 4]), rng.choice([1, 2, 3, 3, 4]))) for nm in names]
    w = gen_wiring(rng, systems)
    w["conn"] = w["conn"][:rng.choice([0, 1, 2, 3, 5])]
    if input_used_as_output_ambiguous(systems, w):
        return None
    nin, nout = counts(systems, w)
    ui, uo = unused_sets(systems, w)
    A = random_call(rng, systems, w) if rng.random() < 0.6 else canonical_call(systems, w)
    A.update(inputs=["w%d" % k for k in range(nin)], outputs=["z%d" % k for k in range(nout)],
             add_unused=True)
    Bc = canonical_call(systems, w) if rng.random() < 0.6 else random_call(rng, systems, w)
    Bc["inplist"] = enc(dec(Bc["inplist"]) + [(b, j) for (b, j) in ui]) \
        if isinstance(dec(Bc["inplist"]), list) else enc([dec(Bc["inplist"])] + [(b, j) for (b, j) in ui])
    Bc["outlist"] = enc(dec(Bc["outlist"]) + [(a, i) for (a, i) in uo]) \
        if isinstance(dec(Bc["outlist"]), list) else enc([dec(Bc["outlist"])] + [(a, i) for (a, i) in uo])
    Bc["inputs"] = A["inputs"] + [labels_of(systems[b], "u")[j] for (b, j) in ui]
    Bc["outputs"] = A["outputs"] + [labels_of(systems[a], "y")[i] for (a, i) in uo]
    return {"tag": "unused", "sys": systems, "calls": [A, Bc], "base": [nin, nout],
            "uinfo": {"conn": "explicit", "nui": len(ui), "nuo": len(uo),
                      "spread": len({b for (b, j) in ui}) > 1 or len({a for (a, i) in uo}) > 1}}


def gen_unused_implicit(rng, tier):
    """`interconnect(syslist, inputs=[...], outputs=[...], add_unused=True)` with connections by
    signal names (the documented use): disturbance inputs and auxiliary outputs with names of
    their own on several subsystems, vs the call that lists their names in `inputs` / `outputs`"""
    case = gen_implicit(rng, tier)
    if case is None:
        return None
    systems = [dict(s) for s in case["sys"]]
    c_imp = dict(case["calls"][0])
    cnt = 0
    for s in systems:
        if "sj" in s:
            continue
        zeroD = d_zero(s)
        for key in ("in", "out", "B", "C", "D"):
            s[key] = [list(r) if isinstance(r, list) else r for r in s[key]]
        for _ in range(rng.choice([0, 1, 1, 2])):
            s["in"].append("dst%d" % cnt)
            cnt += 1
            for r in s["B"]:
                r.append(str(rng.randint(-2, 2)))
            for r in s["D"]:
                r.append("0" if zeroD else str(rng.randint(-2, 2)))
        for _ in range(rng.choice([0, 1, 1, 2])):
            s["out"].append("mon%d" % cnt)
            cnt += 1
            s["C"].append([str(rng.randint(-2, 2)) for _ in range(s["n"])])
            s["D"].append(["0" if zeroD else str(rng.randint(-2, 2)) for _ in s["in"]])
    inputs = list(c_imp["inputs"])
    outputs = list(c_imp["outputs"])
    alli = {l for s in systems for l in labels_of(s, "u")}
    allo = {l for s in systems for l in labels_of(s, "y")}
    ui = [(b, j) for b, s in enumerate(systems) for j, l in enumerate(labels_of(s, "u"))
          if l not in allo and l not in inputs]
    uo = [(a, i) for a, s in enumerate(systems) for i, l in enumerate(labels_of(s, "y"))
          if l not in alli and l not in outputs]
    li = [labels_of(systems[b], "u")[j] for (b, j) in ui]
    lo = [labels_of(systems[a], "y")[i] for (a, i) in uo]
    # add_unused names the added signals by their bare labels: keep them distinct (NOTES, defect 3)
    if len(set(inputs + li)) != len(inputs + li) or len(set(outputs + lo)) != len(outputs + lo):
        return None
    A = dict(c_imp, add_unused=True)
    Bc = dict(c_imp, inputs=inputs + li, outputs=outputs + lo)
    if "outlist" in c_imp:
        Bc["outlist"] = list(c_imp["outlist"]) + lo
    return {"tag": "unused", "sys": systems, "calls": [A, Bc], "base": [len(inputs), len(outputs)],
            "uinfo": {"conn": "implicit", "nui": len(ui), "nuo": len(uo),
                      "spread": len({b for (b, j) in ui}) > 1 or len({a for (a, i) in uo}) > 1}}

# <<< C07-v07


# ---- operator forms

OPNAMES = ["F", "G", "H", "Q1", "R2", "Wn"]
SIGNS = ["-1", "-1", "-1", "1", "1", "2", "-2", "1/2", "0", "0"]


_BAG = {}


def bag_draw(rng, key, items):
    """draw from a shuffled copy of `items` without replacement, refilled when empty: every value
    occurs once in every len(items) draws (a rare value cannot be missed by a whole run);
    emptied at the start of `generate`"""
    b = _BAG.setdefault(key, [])
    if not b:
        b.extend(items)
        rng.shuffle(b)
    return b.pop()


def gen_op_leaf(rng, systems, m, p, allow, proper=False):
    kinds = [k for k in allow if k != "num" or (m == 1 and p == 1)]
    k = rng.choice(kinds)
    if k == "num":
        return {"o": "num", "v": rng.choice(["2", "-1", "3", "1/2", "-2", "1", "-1/2", "0"])}
    if k == "arr":
        return {"o": "arr", "M": rand_mat(rng, p, m, zero=0.2)}
    if systems and rng.random() < 0.12:
        # an operand that is already in use (the same object twice)
        cand = [i for i, s in enumerate(systems) if dims(s) == (m, p) and bool(s.get("nl")) == (k == "nl")
                and (not proper or d_zero(s))]
        if cand:
            return {"o": "sys", "i": rng.choice(cand)}
    n = rng.choice([1, 1, 2]) if proper else rng.choice([0, 1, 1, 2])
    zeroD = proper or (n > 0 and rng.random() < 0.3)
    s = {"name": OPNAMES[len(systems) % len(OPNAMES)] + str(len(systems)),
         "in": ["u[%d]" % i for i in range(m)], "out": ["y[%d]" % i for i in range(p)], "n": n,
         "A": rand_mat(rng, n, n), "B": rand_mat(rng, n, m, zero=0.15),
         "C": rand_mat(rng, p, n, zero=0.15),
         "D": [["0"] * m for _ in range(p)] if zeroD else rand_mat(rng, p, m, zero=0.3)}
    if k == "nl":
        s["nl"] = True
    systems.append(s)
    return {"o": "sys", "i": len(systems) - 1}


def gen_op_tree(rng, systems, m, p, depth, allow, st):
    """expression with m inputs and p outputs (unless st["mismatch"] is spent on the way);
    allow = kinds of leaf permitted here; an operator node is always a nonlinear I/O system"""
    if depth == 0:
        return gen_op_leaf(rng, systems, m, p, allow)
    o = rng.choice(["add", "add", "sub", "sub", "mul", "mul", "mul", "neg", "fb", "fb", "div"])
    if o == "div" and "num" not in st["consts"]:
        o = "mul"
    d1, d2 = rng.randint(0, depth - 1), rng.randint(0, depth - 1)
    if rng.random() < 0.5:
        d1 = depth - 1
    else:
        d2 = depth - 1
    NL = ["nl"]
    ANY = ["nl", "nl", "ss", "ss"] + st["consts"]

    def kind_of(t):
        if t["o"] == "sys":
            return "nl" if systems[t["i"]].get("nl") else "ss"
        return t["o"] if t["o"] in ("num", "arr") else "nl"

    def bump(x):
        """spend the dimension mismatch here"""
        if st["mismatch"] and rng.random() < 0.6:
            st["mismatch"] = False
            return rng.choice([y for y in (1, 2, 3) if y != x])
        return x
    if o == "neg":
        return {"o": "neg", "a": gen_op_tree(rng, systems, m, p, d1, NL, st)}
    if o == "div":
        return {"o": "div", "a": gen_op_tree(rng, systems, m, p, d1, NL, st),
                "b": {"o": "num", "v": rng.choice(["2", "-2", "4", "1/2", "-1"])}}
    if o in ("add", "sub"):
        a = gen_op_tree(rng, systems, m, p, d1, ANY, st)
        m2, p2 = (bump(m), p) if rng.random() < 0.5 else (m, bump(p))
        b = gen_op_tree(rng, systems, m2, p2, d2, NL if kind_of(a) != "nl" else ANY, st)
        return {"o": o, "a": a, "b": b}
    if o == "mul":
        q = rng.choice([1, 2, 2, 3])
        a = gen_op_tree(rng, systems, q, p, d1, ANY, st)          # left factor: q -> p
        b = gen_op_tree(rng, systems, m, bump(q), d2, NL if kind_of(a) != "nl" else ANY, st)
        return {"o": "mul", "a": a, "b": b}
    # feedback: forward path m -> p, return path p -> m
    acyclic = rng.random() < 0.75
    if acyclic and d1 == 0 and rng.random() < 0.5:
        a = gen_op_leaf(rng, systems, m, p, ["nl", "nl", "ss"], proper=True)
        acyclic = False
    else:
        a = gen_op_tree(rng, systems, m, p, d1, ["nl", "nl", "ss"], st)
    m2, p2 = (bump(m), p) if rng.random() < 0.5 else (m, bump(p))
    ballow = NL if kind_of(a) != "nl" else ANY
    if acyclic:
        ballow = [k for k in ballow if k in ("nl", "ss")]
        b = gen_op_leaf(rng, systems, p2, m2, ballow, proper=True)
    else:
        b = gen_op_tree(rng, systems, p2, m2, d2, ballow, st)
    return {"o": "fb", "a": a, "b": b, "sign": bag_draw(rng, "sign", SIGNS)}


def gen_op(rng, tier):
    """operator forms (+ - * / unary -, feedback, and ct.parallel / series / negate / feedback)
    with at least one nonlinear I/O system per node: non-square signatures, StateSpace / number /
    array operands on either side, nesting, the same object twice, incompatible sizes"""
    systems = []
    m, p = rng.choice([1, 2, 2, 3]), rng.choice([1, 2, 2, 3])
    if rng.random() < 0.7 and m == p:
        p = rng.choice([x for x in (1, 2, 3) if x != m])
    depth = rng.choice([1, 1, 1, 2, 2]) if tier == "quick" else rng.choice([1, 1, 2, 2, 3])
    st = {"mismatch": rng.random() < 0.15,
          "consts": rng.choice([[], [], ["arr"], ["num", "arr"]])}
    spoiled = st["mismatch"]
    tree = gen_op_tree(rng, systems, m, p, depth, ["nl"], st)
    if tree["o"] == "sys" or not systems:
        return None
    calls = [{"op": tree, "via": "operator"}]
    if any(t["o"] in ("add", "mul", "neg", "fb") for t in op_nodes(tree)):
        calls.append({"op": tree, "via": "function"})
    return {"tag": "op", "sys": systems, "calls": calls,
            "opinfo": {"top": tree["o"], "square": m == p, "spoiled": spoiled and not st["mismatch"]}}


# ---- evaluation of the interconnected system (number types of the state / input)

POOL = 16
DYADIC = ["1", "1", "1/2", "1/2", "1/4", "3/4", "3/2", "-1/2"]


def dyadic_data(rng, systems):
    """scale every entry of A, B, C, D by a dyadic factor (zero pattern unchanged): the values the
    interconnection computes are then not integers even at integer states"""
    out = []
    for s in systems:
        if "sj" in s:
            out.append(s)
            continue
        s2 = dict(s)
        for key in ("A", "B", "C", "D"):
            s2[key] = [[str(Fraction(x) * Fraction(rng.choice(DYADIC))) for x in r] for r in s[key]]
        out.append(s2)
    return out


def gen_pool(rng, typ):
    if typ in INT_T:
        return [str(rng.randint(-3, 3)) for _ in range(POOL)]
    return [str(Fraction(rng.randint(-8, 8), rng.choice([1, 2, 4]))) for _ in range(POOL)]


def gen_ntype(rng, pint=0.6):
    return rng.choice(INT_T + ["int"]) if rng.random() < pint else rng.choice(FLT_T)


def attach_eval(rng, case, tier):
    """evaluate the interconnected system each call builds: `dynamics` / `output` at 2-3 points,
    `linearize` at one of them, and (discrete time) a simulated response — the state and the input
    given as Python ints, tuples, integer arrays (int64 / int32) or floats (list, float64,
    float32); subsystem data dyadic so that the results are not integers"""
    if rng.random() < 0.75:
        case["sys"] = dyadic_data(rng, case["sys"])
        for c in case["calls"]:
            if "sys" in c:
                return
    dt = rng.choice([0, 0, 1, 1, 1, "1/2", "1/4", True])
    pts = []
    for _ in range(rng.choice([2, 2, 3])):
        xt, ut = gen_ntype(rng), gen_ntype(rng, 0.5)
        pts.append({"x": gen_pool(rng, xt), "xt": xt, "u": gen_pool(rng, ut), "ut": ut})
    ev = {"dt": dt, "pts": pts}
    if rng.random() < 0.6:
        ev["linpt"] = rng.randrange(len(pts))
    if dt != 0:
        xt, ut = gen_ntype(rng, 0.7), gen_ntype(rng, 0.5)
        N = rng.randint(3, 6)
        ev["traj"] = {"x0": gen_pool(rng, xt), "xt": xt, "ut": ut,
                      "U": [gen_pool(rng, ut)[:8] for _ in range(N)]}
    for c in case["calls"]:
        c["ev"] = ev
    case["evinfo"] = {"dt": "cont" if dt == 0 else "disc"}


EVAL_TAGS = {"explicit": 0.3, "nl": 0.6, "implicit": 0.3, "loops": 0.3, "gainmat": 0.4, "op": 0.4}


def relclose(a, b, rel):
    """|a - b| <= rel * (1 + max|b|), entry by entry (a: implementation, b: model)"""
    if [len(r) for r in a] != [len(r) for r in b]:
        return False
    scale = 1 + max([abs(x) for r in b for x in r] or [0])
    return all(abs(x - y) <= rel * scale for ra, rb in zip(a, b) for x, y in zip(ra, rb))


OWNED = {
    "tag": "corpus", "sys": [
        {"name": "P", "in": ["u"], "out": ["y"], "n": 1, "A": [["-1"]], "B": [["1"]], "C": [["1"]],
         "D": [["0"]]},
        {"name": "C", "in": ["e0", "e1"], "out": ["v"], "n": 1, "A": [["1"]], "B": [["1", "2"]],
         "C": [["1"]], "D": [["0", "0"]]}],
    "calls": [{"connections": enc([[(0, 1), (1, 0)]]), "inplist": enc([(1, 0)]), "outlist": enc([(0, 0)])}]}


def cyclic_feedthrough(systems, res):
    """does the signal-level feedthrough graph (connect_map x direct terms) have a cycle?"""
    if "cm" not in res:
        return False
    cm = F(res["cm"])
    nu = len(cm)
    # N = cm * blockdiag(D)
    offs_u, offs_y, ou, oy = [], [], 0, 0
    for s in systems:
        offs_u.append(ou)
        offs_y.append(oy)
        ni, no = dims(s)
        ou += ni
        oy += no
    Dd = [[Fraction(0)] * ou for _ in range(oy)]
    for k, s in enumerate(systems):
        D = sys_view(s)[6]
        for r, row in enumerate(D):
            for c, x in enumerate(row):
                Dd[offs_y[k] + r][offs_u[k] + c] = Fraction(x)
    # structural graph on the subsystem inputs: i -> j when input j feeds through some direct term to
    # an output that is connected to input i (an edge exists even when the gains of several such
    # paths cancel: u0 <- -(y0 + y2) with D = [1, -1]' is an algebraic loop although cm * D = 0)
    adj = [[j for j in range(nu) if any(cm[i][k] != 0 and Dd[k][j] != 0 for k in range(oy))]
           for i in range(nu)]
    color = [0] * nu

    def dfs(v):
        color[v] = 1
        for x in adj[v]:
            if color[x] == 1 or (color[x] == 0 and dfs(x)):
                return True
        color[v] = 2
        return False
    return any(color[v] == 0 and dfs(v) for v in range(nu))


class C07(Family):
    prop = "C07"
    # >>> py2lean-ic: source-text tie (notes/NOTES-py2lean-ic.md): Generated/IC*.lean are rewritten from
    # control/iosys.py and control/nlsys.py of the tree under check and proved equal to the model
    extra_modules = ["CtrlVerif.Props.C07GenParse", "CtrlVerif.Props.C07GenInit", "CtrlVerif.Props.C07GenOps",
                     "CtrlVerif.Props.C07GenStatic", "CtrlVerif.Props.C07Gen"]
    # >>> py2lean-interconnect (notes/NOTES-py2lean-interconnect.md): Generated/ICX*.lean (signal look-up, pre-processing of interconnect())
    extra_modules = extra_modules + ["CtrlVerif.Props.C07GenXFind", "CtrlVerif.Props.C07GenXPre", "CtrlVerif.Props.C07GenXConn",
                                     "CtrlVerif.Props.C07GenX"]
    # <<< py2lean-interconnect
    # >>> py2lean-iolist (notes/NOTES-py2lean-iolist.md): Generated/ICLIn.lean, ICLOut.lean (inplist / outlist loops of interconnect())
    extra_modules = extra_modules + ["CtrlVerif.Props.C07GenXList", "CtrlVerif.Props.C07GenXListBare",
                                     "CtrlVerif.Props.C07GenXListTop", "CtrlVerif.Props.C07GenXListModel",
                                     "CtrlVerif.Props.C07GenXListNone"]
    # <<< py2lean-iolist

    def pre_build(self):
        import os
        from core import py2lean_ic, leanproj
        problems, self.gen_info = py2lean_ic.regenerate(os.environ.get("VERIF_REPO") or "/repo", leanproj.LEAN)
        # >>> py2lean-interconnect
        from core import py2lean_icx
        problems_x, info_x = py2lean_icx.regenerate(os.environ.get("VERIF_REPO") or "/repo", leanproj.LEAN)
        problems = problems + problems_x
        self.gen_info.update(info_x)
        # <<< py2lean-interconnect
        # >>> py2lean-iolist
        from core import py2lean_iolist
        problems_l, info_l = py2lean_iolist.regenerate(os.environ.get("VERIF_REPO") or "/repo", leanproj.LEAN)
        problems = problems + problems_l
        self.gen_info.update(info_l)
        # <<< py2lean-iolist
        return problems
    # <<< py2lean-ic
    externals = ["numpy array arithmetic (matmul, +=) inside _compute_static_io / linearize",
                 "Python `re` (the harness tokenises specs and labels with the regular expressions "
                 "of _parse_spec/_find_signals)"]
    assumptions = [
        "system names and signal labels are distinct, non-empty, free of whitespace, '.', '$' and "
        "a leading '-'; labels have the form \\w+ or \\w+[\\d+]",
        "subsystems are StateSpace objects (or NonlinearIOSystem wrappers of linear dynamics) with "
        "small integer data, in continuous time; in the evaluation stream small dyadic data "
        "(multiples of 1/4) and a common timebase 0 / 1 / 1/2 / 1/4 / True; the numerical "
        "differentiation of LinearICSystem is compared with the exact derivative within 1e-8",
        "evaluation stream: states / inputs are integers in [-3, 3] or multiples of 1/4 in [-8, 8], "
        "so that every floating-point operation of a correct implementation is exact; dynamics(), "
        "output() and the simulated response are compared with relative tolerance 1e-9, "
        "linearize() at a non-zero point within 1e-3 * max(1, |f(x0, u0)|) (finite differences "
        "with eps = 1e-6); the timebase is the implementation's only (the model iterates "
        "x+ = _rhs); continuous-time simulation (solve_ivp) is not compared",
        "a feedthrough cycle whose propagation happens to terminate in exact arithmetic "
        "(nilpotent loop gain) is not compared",
        "add_unused: the order of the appended signals (iteration order of a Python set) is not "
        "compared; which label each appended column of input_map / row of output_map carries is "
        "(columns / rows are sorted by content together with their labels on both sides); the "
        "appended labels are kept distinct from each other and from the given names (the code "
        "names added signals by their bare labels and rejects duplicates)",
        "operator stream: which model expression a Python expression denotes follows Python's "
        "binary-operator protocol as mirrored in op_toks (reflected method first for a StateSpace "
        "right operand of a plain NonlinearIOSystem; StateSpace.__sub__/__rsub__/__radd__ "
        "delegate to + and unary -); nodes whose operands are all StateSpace/number/array are "
        "not generated (C02); a feedback node closing a loop through two direct terms is compared "
        "only when both sides raise or both return"]
    rule = ("random sets of 1-4 subsystems (0-3 states, 1-3 inputs/outputs, integer data, direct "
            "terms zero or not), random loop-free wirings with scalar and vector connections, sums, "
            "gains, subsystem inputs as outputs; every wiring is written twice (index tuples / "
            "random mix of 'sys.sig', tuples with names, '-' signs, explicit gains, lists, slices, "
            "base names, whole-system forms) and both must match the model; implicit connection "
            "by signal names with summing junctions vs the explicit wiring; NonlinearIOSystem "
            "wrappers; algebraic loops; add_unused; a malformed stream (one defect per call: "
            "out-of-range index, unknown name, gain twice, gain on an input, length mismatch, "
            "list of names with an unknown one at a random position, empty range, ...); an "
            "index-list stream (integer index lists in connections / inplist / outlist, also inside "
            "lists that sum: permuted, repeated, empty, one entry out of range or negative at a "
            "random position); an operator stream (trees of + - * / unary - .feedback and "
            "ct.parallel/series/negate/feedback over NonlinearIOSystem, StateSpace, number and array "
            "operands of non-square sizes, nested 1-3 deep, incompatible sizes in 15%; written with "
            "operators and with the bdalg functions; feedback signs and number operands include 0); "
            "gains include explicit zeros (0, 0.0, -0.0) and are written as Python ints / floats or "
            "NumPy scalars (int64, int32, float64, float32), also gain 1 on input specs and gain 0 / "
            "other gains on input specs (must raise); a gain-matrix stream (connections and outlist "
            "written entry by entry from matrices containing zeros, vs the spelling that omits the "
            "zero entries); an evaluation stream on ~20% of the valid cases (explicit, nonlinear "
            "wrappers, implicit, loops, gain-matrix, operator trees): dynamics()/output() at 2-3 "
            "points, linearize() at one of them, discrete-time input_output_response over 3-6 steps, "
            "state and input each held as list of Python ints / tuple / int64 / int32 array / list of "
            "floats / float64 / float32 array, dyadic subsystem data; indexed labels whose dictionary "
            "order is not the lexicographic order of the label strings (30% of the indexed-label "
            "subsystems: channel numbers starting at 8 / 9 / 98 / 99, permuted, with gaps); a wide "
            "stream (6%): subsystems with vector signals of 11-13 channels wired by base names, "
            "bare base names, ranges (mostly containing channel 10 and a one-digit channel) and "
            "whole-system forms against index lists / scalar tuples, inplist / outlist by base name "
            "or range (one external signal per channel); an add_unused stream (5%): 2-4 subsystems "
            "with up to 4 inputs / outputs each and few connections (explicit, or implicit by signal "
            "names with extra disturbance inputs / monitor outputs), add_unused=True vs the call "
            "listing the same signals and their labels explicitly; for every add_unused call the "
            "label of each appended external input / output is compared with the model's "
            "(IC.addedLabels)")

    def corpus(self):
        return [OWNED]

    def generate(self, rng, tier):
        n = 560 if tier == "quick" else 3800
        out = []
        _BAG.clear()
        while len(out) < n:
            r = rng.random()
            # >>> C07-v07: wide vector signals 6 %, add_unused with many unused signals 5 %
            if r < 0.06:
                c = gen_wide(rng, tier)
            elif r < 0.11:
                c = gen_unused(rng, tier)
            # <<< C07-v07
            elif r < 0.30:
                c = gen_explicit(rng, tier)
            elif r < 0.41:
                c = gen_implicit(rng, tier)
            elif r < 0.47:
                c = gen_explicit(rng, tier, nl=True)
            elif r < 0.53:
                c = gen_explicit(rng, tier, loops=True)
            elif r < 0.57:
                c = gen_edge(rng, tier)
            elif r < 0.70:
                c = gen_idxlist(rng, tier)
            elif r < 0.75:
                c = gen_gainmat(rng, tier)
            elif r < 0.87:
                c = gen_op(rng, tier)
            else:
                c = gen_malformed(rng, tier)
            if c is None:
                continue
            if rng.random() < EVAL_TAGS.get(c.get("tag"), 0):
                attach_eval(rng, c, tier)
            try:
                self.line(c)
            except Untokenisable:
                continue
            out.append(c)
        return out

    def line(self, case):
        return [call_line(case["sys"], c) for c in case["calls"]]

    def impl(self, case):
        return [canon_unused(run_call(case["sys"], c), case.get("base")) for c in case["calls"]]

    def parse_model(self, case, out):
        return [canon_unused(parse_out(o), case.get("base")) for o in out]

    def compare_one(self, case, k, im, mo):
        feat = {"call": "canonical" if (k == 0 and len(case["calls"]) > 1) else "variant",
                "tag": case.get("tag")}
        if case.get("mal"):
            feat["mal"] = case["mal"]
        if case.get("edge"):
            feat["edge"] = case["edge"]
        if case.get("tag") == "op":
            feat["call"] = case["calls"][k].get("via")
            feat["top"] = case["calls"][k]["op"]["o"]
        if "driver" in mo:
            return Verdict(DIFFERS, "driver: " + mo["driver"][:200], dict(feat, kind="driver"))
        if "err" in mo and "err" in im:
            return None
        if "err" in mo:
            if mo["err"] == "illPosed" and case.get("tag") == "op" \
                    and op_cyclic_inner_nl(case["sys"], case["calls"][k]["op"]):
                # an inner nonlinear feedback node with an algebraic loop that the enclosing system never
                # excites (e.g. it is driven by a block with zero direct term and no states): the model
                # reports the loop when it linearises the inner node, the code would only when the node
                # is evaluated at a non-zero input.  Not a wiring the property quantifies over.
                return None
            feat.update(kind="no-raise", model_err=mo["err"])
            # operands of incompatible sizes: there are no signal-flow equations to realise
            st = VIOLATES if mo["err"] in ("indexRange", "unknownName", "illPosed") \
                or (case.get("tag") == "op" and mo["err"] == "shape") else DIFFERS
            return Verdict(st, "model raises %s, implementation returns a system (cm=%s im=%s om=%s)"
                           % (mo["err"], im["cm"], im["im"], im["om"]), feat)
        if "err" in im:
            if im["err"] == "illPosed" and case.get("tag") != "op" \
                    and cyclic_feedthrough(case["sys"], mo):
                return None     # nilpotent cycle: exact propagation stops, floating point need not
            if im["err"] == "illPosed" and case.get("tag") == "op" \
                    and op_cyclic(case["sys"], case["calls"][k]["op"]):
                return None     # idem, for a feedback node through two direct terms
            feat.update(kind="raises-on-valid", exc=im["exc"], msg=im["msg"])
            return Verdict(VIOLATES, "valid wiring rejected: %s: %s" % (im["exc"], im["msg"]), feat)
        for key in ("nin", "nout"):
            if im[key] != mo[key]:
                feat.update(kind="size", which=key)
                return Verdict(VIOLATES, "%s: impl %s model %s" % (key, im[key], mo[key]), feat)
        for key in ("cm", "im", "om"):
            if F(im[key]) != F(mo[key]):
                feat.update(kind="map", which=key)
                return Verdict(VIOLATES, "%s differs: impl %s model %s" % (key, im[key], mo[key]), feat)
        # >>> C07-v07: add_unused — every appended external input / output carries the label of
        # the subsystem signal its column of input_map / row of output_map is wired to (the maps
        # agree at this point, columns / rows sorted by content together with their names), and
        # the names given in `inputs=` / `outputs=` stay in front
        call = case["calls"][k]
        if call.get("add_unused") and case.get("base") and "uin" in mo and "inl" in im:
            n0s = case["base"]
            for which, labs, un, n0, given in (("inputs", im["inl"], mo["uin"], n0s[0], call.get("inputs")),
                                               ("outputs", im["outl"], mo["uout"], n0s[1], call.get("outputs"))):
                if labs[n0:] != un:
                    feat.update(kind="label", which=which)
                    return Verdict(VIOLATES, "add_unused: the appended %s are named %s, but (in this order of "
                                   "the appended %s of the maps) they are wired to the subsystem signals %s"
                                   % (which, labs[n0:], "columns" if which == "inputs" else "rows", un), feat)
                if isinstance(given, list) and labs[:n0] != given:
                    feat.update(kind="label-given", which=which)
                    return Verdict(VIOLATES, "add_unused: given %s %s became %s" % (which, given, labs[:n0]), feat)
        # <<< C07-v07
        if "lin" in mo and "lin" in im:
            if im["lin"]["n"] != mo["lin"]["n"]:
                feat.update(kind="lin", which="n")
                return Verdict(VIOLATES, "state dimension", feat)
            for key in ("A", "B", "C", "D"):
                a, b = F(im["lin"][key]), F(mo["lin"][key])
                if [len(r) for r in a] != [len(r) for r in b] or not exmat.close(a, b, TOL):
                    feat.update(kind="lin", which=key)
                    return Verdict(VIOLATES, "%s differs: impl %s model %s"
                                   % (key, im["lin"][key], mo["lin"][key]), feat)
        ev = case["calls"][k].get("ev")
        if ev and "lin" in mo and "lin" in im:
            return self.compare_eval(ev, im.get("ev") or {}, mo.get("ev") or {}, mo, feat)
        return None

    def compare_eval(self, ev, ie, me, mo, feat):
        """the evaluations of one call: implementation `ie`, model `me`"""
        feat = dict(feat, dt="cont" if ev["dt"] == 0 else "disc")
        if "err" in me or ("pts" in ev and "rhs" not in me) or ("traj" in ev and "X" not in me):
            return Verdict(DIFFERS, "model evaluation: %s" % me, dict(feat, kind="eval-model"))
        if "err" in ie:
            src = ev["traj"] if ie["err"] == "traj" else ev["pts"][ev["linpt"] if ie["err"] == "linpt" else 0]
            feat.update(kind="eval-raises", stage=ie["err"], exc=ie["exc"], msg=ie["msg"],
                        xt=src["xt"], ut=src["ut"])
            return Verdict(VIOLATES, "evaluation of the interconnected system raises (%s): %s: %s"
                           % (ie["err"], ie["exc"], ie["msg"]), feat)
        if ev.get("pts"):
            for which in ("rhs", "out"):
                a, b = F(ie[which]), F(me[which])
                for j, p in enumerate(ev["pts"]):
                    ca, cb = [[r[j]] for r in a], [[r[j]] for r in b]
                    if not relclose(ca, cb, Fraction(1, 10 ** 9)):
                        feat.update(kind="eval", which=which, xt=p["xt"], ut=p["ut"])
                        return Verdict(VIOLATES, "%s at point %d (state as %s, input as %s): impl %s model %s"
                                       % ("dynamics()" if which == "rhs" else "output()", j, p["xt"], p["ut"],
                                          [str(r[0]) for r in ca], [str(r[0]) for r in cb]), feat)
        if ev.get("linpt") is not None and "linpt" in ie:
            j = ev["linpt"]
            p = ev["pts"][j]
            scale = max([1] + [abs(r[j]) for r in F(me["rhs"])] + [abs(r[j]) for r in F(me["out"])])
            for key in ("A", "B", "C", "D"):
                a, b = F(ie["linpt"][key]), F(mo["lin"][key])
                if [len(r) for r in a] != [len(r) for r in b] or \
                        not exmat.close(a, b, Fraction(1, 1000) * scale):
                    feat.update(kind="eval", which="linearize-" + key, xt=p["xt"], ut=p["ut"])
                    return Verdict(VIOLATES, "linearize at point %d (state as %s, input as %s): %s impl %s model %s"
                                   % (j, p["xt"], p["ut"], key, ie["linpt"][key], mo["lin"][key]), feat)
        if ev.get("traj") and "Y" in ie:
            tr = ev["traj"]
            for which in ("X", "Y"):
                if which not in ie:
                    continue
                if not relclose(F(ie[which]), F(me[which]), Fraction(1, 10 ** 9)):
                    feat.update(kind="eval", which="traj-" + which, xt=tr["xt"], ut=tr["ut"])
                    return Verdict(VIOLATES, "discrete-time response (X0 as %s, U as %s): %s impl %s model %s"
                                   % (tr["xt"], tr["ut"], "states" if which == "X" else "outputs",
                                      ie[which], me[which]), feat)
        return None

    def compare(self, case, impl, model):
        for k in range(len(case["calls"])):
            v = self.compare_one(case, k, impl[k], model[k])
            if v is not None:
                return v
        # (C07-v07: the appended labels are printed for the add_unused spelling only)
        strip = lambda m: {k2: v for k2, v in m.items() if k2 not in ("uin", "uout")}
        if len(case["calls"]) == 2 and strip(model[0]) != strip(model[1]):
            # the two spellings are meant to be the same wiring: a generator problem, not the code's
            return Verdict(DIFFERS, "spellings differ in the model: %s vs %s" % (model[0], model[1]),
                           {"kind": "generator", "tag": case.get("tag")})
        return Verdict(AGREE)

    def nontrivial(self, case, model):
        m = model[-1]
        if "err" in m:
            return True
        return any(Fraction(x) != 0 for r in m["cm"] for x in r) or len(case["sys"]) > 1

    def stats(self, case, impl, model):
        st = {"tag": case.get("tag"), "nsys": len(case["sys"])}
        m = model[-1]
        st["outcome"] = ("err:" + m["err"]) if "err" in m else "ok"
        if case.get("mal"):
            st["mal"] = case["mal"]
            i = impl[-1]
            st["errclass_match"] = ("err" in i and "err" in m and i["err"] == m["err"])
        if case.get("tag") == "op":
            st["op"] = "%s/%s%s" % (case["opinfo"]["top"],
                                    "square" if case["opinfo"]["square"] else "nonsquare",
                                    "/spoiled" if case["opinfo"]["spoiled"] else "")
            st["op_nodes"] = sum(1 for t in op_nodes(case["calls"][0]["op"])
                                 if t["o"] not in ("sys", "num", "arr"))
        if "lin" in m:
            st["states"] = min(m["lin"]["n"], 6)
        ev = case["calls"][-1].get("ev")
        if ev:
            st["eval"] = case.get("evinfo", {}).get("dt", "?") + ("+traj" if ev.get("traj") else "") \
                + ("+linpt" if ev.get("linpt") is not None else "")
            kinds = {"int" if p["xt"] in INT_T else "float" for p in ev["pts"]}
            st["eval_xt"] = "+".join(sorted(kinds))
            if ev.get("traj"):
                st["traj_x0"] = "int" if ev["traj"]["xt"] in INT_T else "float"
        if "err" not in m:
            st["connected"] = sum(1 for r in m["cm"] for x in r if Fraction(x) != 0) > 0
        # >>> C07-v07
        if case.get("uinfo"):
            u = case["uinfo"]
            st["unused"] = "%s/%s/%s" % (u["conn"], "spread" if u["spread"] else "one-sys",
                                         "3+" if max(u["nui"], u["nuo"]) >= 3 else "<3")
        if "uin" in model[0]:
            st["added_labels"] = min(len(model[0]["uin"]) + len(model[0]["uout"]), 8)
        if case.get("tag") == "wide":
            st["wide_max"] = max(max(dims(s)) for s in case["sys"])
        # <<< C07-v07
        return st

    def shrink(self, case):
        out = []
        calls = case["calls"]
        if len(calls) == 2:
            for k in (0, 1):
                c = dict(case)
                c["calls"] = [calls[k]]
                out.append(c)
        if case.get("tag") == "op":
            # a sub-expression that is itself an operator node
            for ci, call in enumerate(calls):
                for sub in list(op_nodes(call["op"]))[1:]:
                    if sub["o"] in ("sys", "num", "arr"):
                        continue
                    c = dict(case)
                    c["calls"] = [dict(call, op=sub)]
                    c["opinfo"] = dict(case["opinfo"], top=sub["o"])
                    out.append(c)
        ev = calls[0].get("ev")
        if ev:
            cands = []
            if ev.get("traj"):
                cands.append({k2: v for k2, v in ev.items() if k2 != "traj"})
                if len(ev["traj"]["U"]) > 2:
                    cands.append(dict(ev, traj=dict(ev["traj"], U=ev["traj"]["U"][:-1])))
            if ev.get("linpt") is not None:
                cands.append({k2: v for k2, v in ev.items() if k2 != "linpt"})
            if len(ev.get("pts", [])) > 1:
                for j in range(len(ev["pts"])):
                    e2 = dict(ev, pts=[ev["pts"][j]])
                    if ev.get("linpt") is not None:
                        e2["linpt"] = 0 if ev["linpt"] == j else None
                    cands.append(e2)
            # shorter value pools (entries beyond the end of a pool are 0)
            L = max([len(p["x"]) for p in ev.get("pts", [])] + [len(p["u"]) for p in ev.get("pts", [])]
                    + ([len(ev["traj"]["x0"])] if ev.get("traj") else []) + [0])
            if L > 1:
                cut = lambda v: v[:L // 2]
                e2 = dict(ev, pts=[dict(p, x=cut(p["x"]), u=cut(p["u"])) for p in ev.get("pts", [])])
                if ev.get("traj"):
                    e2["traj"] = dict(ev["traj"], x0=cut(ev["traj"]["x0"]),
                                      U=[cut(u) if len(u) > L // 2 else u for u in ev["traj"]["U"]])
                cands.append(e2)
            for e2 in cands:
                c = dict(case)
                c["calls"] = [dict(cl, ev=e2) for cl in calls]
                out.append(c)
        for ci, call in enumerate(calls):
            for key in ("connections", "inplist", "outlist"):
                v = call.get(key)
                if isinstance(v, list) and len(v) > (0 if key == "connections" else 1):
                    for j in range(len(v)):
                        c2 = dict(call)
                        c2[key] = v[:j] + v[j + 1:]
                        if key == "connections" and not c2[key]:
                            c2[key] = False
                        c = dict(case)
                        c["calls"] = calls[:ci] + [c2] + calls[ci + 1:]
                        c.pop("base", None) if not call.get("add_unused") else None
                        out.append(c)
            for key in ("inputs", "outputs"):
                if call.get(key) is not None and call.get("inplist") is not None:
                    c2 = dict(call)
                    c2.pop(key)
                    if not call.get("add_unused"):
                        c = dict(case)
                        c["calls"] = calls[:ci] + [c2] + calls[ci + 1:]
                        out.append(c)
        # simplify numeric data
        for si, s in enumerate(case["sys"]):
            if "sj" in s or s["n"] == 0:
                continue
            s2 = dict(s)
            s2["n"] = 0
            s2["A"], s2["B"], s2["C"] = [], [], [[] for _ in s["out"]]
            c = dict(case)
            c["sys"] = case["sys"][:si] + [s2] + case["sys"][si + 1:]
            out.append(c)
        return out

    def search(self, rng, case, tier):
        return []


# >>> C07-spelling: spelling-pair stream + Props/C07Spell.lean as proof obligations (families/c07_spell.py)
from families.c07_spell import with_spelling  # noqa: E402
FAMILY = with_spelling(C07)
# <<< C07-spelling
