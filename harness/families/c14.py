"""C14 — discretisation (`sample_system` / `c2d` / `StateSpace.sample` / `TransferFunction.sample`
/ `_c2d_matched`) and `pade`: correspondence with the Lean model `CtrlVerif.Model.Discretize`
(driver family `c2d`).  The state-space formulas executed by the driver (`SS.gbt`, `SS.zoh`,
`DSS.sample`), the coefficient-list substitution (`tfGbt`), `c2dMatched` and `pade` are the
definitions the theorems of Props/C14.lean are about."""
import re
from fractions import Fraction

import numpy as np
import scipy.linalg
import control as ct

from core.runner import Family, Verdict, AGREE, VIOLATES, DIFFERS
from core import exact, exmat
from core.exact import fr, tok, Tokens

TOL = Fraction(1, 10 ** 9)
VTOL = Fraction(1, 10 ** 8)
POINTS = [Fraction(7, 3), Fraction(-11, 5), Fraction(13, 7), Fraction(-17, 4), Fraction(23, 6),
          Fraction(29, 9), Fraction(-31, 8), Fraction(37, 10), Fraction(-41, 12), Fraction(43, 5),
          Fraction(47, 11), Fraction(-53, 13), Fraction(59, 14), Fraction(61, 15), Fraction(-67, 16),
          Fraction(5, 7), Fraction(-3, 11), Fraction(2, 13), Fraction(-9, 17), Fraction(1, 19)]
GBT_METHODS = ("gbt", "bilinear", "tustin", "euler", "forward_diff", "backward_diff")
ALPHA = {"bilinear": Fraction(1, 2), "tustin": Fraction(1, 2), "euler": Fraction(0),
         "forward_diff": Fraction(0), "backward_diff": Fraction(1)}
TS_POOL = ["1/8", "1/4", "1/2", "1/2", "1", "1", "2", "3/4", "3/8", "5/4"]
W_POOL = ["1/2", "1", "2", "3", "5/4", "7/8"]
LABELS = ["u", "v", "w", "y1", "out", "in_a", "pos", "vel", "th", "x_1", "q", "r2", "s$", "z0"]
NAMES = ["plant", "P", "ctrl_1", "G_s", "sysA", "m$d"]


def F(x):
    return Fraction(x)


def toklist(v):
    return [tok(F(x)) for x in v]


def sys_norm(name):
    return re.sub(r"sys\[\d+\]", "*", name)


def classify_exc(e):
    msg = str(e)
    nm = type(e).__name__
    if nm == "ControlMIMONotImplemented":
        return "notImplemented"
    if nm == "LinAlgError" or "singular" in msg.lower():
        return "illPosed"
    if isinstance(e, ValueError):
        if "continuous" in msg:
            return "timebase"
        if "Improper" in msg:
            return "nonProper"
        return "badArg"
    if isinstance(e, TypeError):
        return "badArg"
    return nm


def twarp_of(case):
    """the exact step the model uses (None when the model rejects the prewarp)"""
    Ts = F(case["Ts"])
    pw = case.get("pw")
    if not pw:
        return Ts
    m, a = case["method"], case.get("alpha")
    if m in ("bilinear", "tustin") or (m == "gbt" and a is not None and F(a) == Fraction(1, 2)):
        if F(pw[0]) == 0:
            return Ts           # the limit; the code computes nan here (known finding)
        return 2 * F(pw[1]) / F(pw[0])
    return Ts


def alpha_of(case):
    m = case["method"]
    if m == "gbt":
        a = case.get("alpha")
        if a is None or not (0 <= F(a) <= 1):
            return None
        return F(a)
    return ALPHA.get(m)


def ts_value(case):
    q = F(case["Ts"])
    if case.get("ts_kind") == "true":       # Ts=True: case["Ts"] is "1", the number the formulas use
        return True
    if case.get("ts_kind") == "npf":
        return np.float64(float(q))
    if case.get("ts_int") and q.denominator == 1:
        return int(q)
    return float(q)


def dt_value(tokn):
    if tokn == "N":
        return None
    if tokn == "T":
        return True
    if tokn == "C":
        return 0
    return float(Fraction(tokn[1:]))


def sample_kwargs(case):
    kw = {}
    num = lambda q: int(F(q)) if (case.get("opt_int") and F(q).denominator == 1) else float(F(q))   # round 3
    if case.get("alpha") is not None:
        kw["alpha"] = num(case["alpha"])
    if case.get("pw"):
        kw["prewarp_frequency"] = num(case["pw"][0])
    nm = case.get("names")
    if nm:
        if nm.get("copy") is not None:
            kw["copy_names"] = bool(nm["copy"])
        if nm.get("name") is not None:
            kw["name"] = nm["name"]
        for k, key in (("oin", "inputs"), ("oout", "outputs"), ("ost", "states")):
            if nm.get(k) is not None:
                kw[key] = list(nm[k])
    return kw


# ==== strengthening after seeded changes (round 3): calling conventions (begin) ====
# the optional parameters after Ts of sys.sample / sample_system / c2d in the documented order, with the
# documented defaults; sample_system has the additional leading parameter `sysc`
ORDER = ("method", "alpha", "prewarp_frequency", "name", "copy_names")
DEFAULTS = {"method": "zoh", "alpha": None, "prewarp_frequency": None, "name": None, "copy_names": True}
SIG = {"S": ("Ts",) + ORDER, "F": ("sysc", "Ts") + ORDER}       # S: sys.sample, F: sample_system / c2d
NPOS_POOL = [0] * 7 + [1] * 4 + [2] * 3 + [3] * 3 + [4] + [5] * 2


def call_plan(case):
    """the call of a case with a `call` record: (positional arguments after sys / Ts, keyword arguments).
    `npos` optional parameters are passed positionally in the documented order (a parameter the case does
    not set gets its documented default explicitly; npos = 6: one argument too many), the others by
    keyword (`explicit`: also those left at their default), `dup`: a positional one once more by keyword,
    `omit_method`: method left to its default 'zoh'"""
    c = case["call"]
    kw = sample_kwargs(case)
    given = {}
    if not (c.get("omit_method") or case.get("via") == "default"):
        given["method"] = case["method"]
    for k in ORDER[1:]:
        if k in kw:
            given[k] = kw.pop(k)
    npos = c["npos"]
    pos = [given.pop(k) if k in given else DEFAULTS[k] for k in ORDER[:min(npos, 5)]]
    if npos > 5:
        pos.append(1.0)
    if c.get("explicit"):
        for k in ORDER[min(npos, 5):]:
            given.setdefault(k, DEFAULTS[k])
    if c.get("dup"):
        given[c["dup"]] = pos[ORDER.index(c["dup"])]
    kw.update(given)
    return pos, kw


def call_form(case):
    """(route S | F, all positional arguments as names, all keyword names in call order) -- the bind line"""
    c = case["call"]
    pos, kw = call_plan(case)
    route = "S" if case.get("via", "method") in ("method", "default") else "F"
    lead = [] if c.get("sys_kw") or route == "S" else ["sysc"]
    if not c.get("ts_kw"):
        lead.append("Ts")
    kws = (["sysc"] if (route == "F" and c.get("sys_kw")) else []) + (["Ts"] if c.get("ts_kw") else [])
    return route, len(lead) + len(pos), kws + list(kw)


def bind_line(case):
    route, npos, kws = call_form(case)
    return "c2d bind %s %d %d%s" % (route, npos, len(kws), "".join(" " + k for k in kws))


def expected_slots(case):
    """the harness's own reading of the call (cross-checked against the model's binding)"""
    route, npos, kws = call_form(case)
    return ["p%d" % i if i < npos else ("k%d" % kws.index(p) if p in kws else "d")
            for i, p in enumerate(SIG[route])]


def call_with_plan(sys, case):
    c = case["call"]
    pos, kw = call_plan(case)
    Ts = ts_value(case)
    via = case.get("via", "method")
    if via in ("method", "default"):
        if c.get("ts_kw"):
            return sys.sample(*pos, Ts=Ts, **kw)
        return sys.sample(Ts, *pos, **kw)
    f = ct.c2d if via == "c2d" else ct.sample_system
    if c.get("sys_kw"):
        return f(*pos, sysc=sys, Ts=Ts, **kw)
    if c.get("ts_kw"):
        return f(sys, *pos, Ts=Ts, **kw)
    return f(sys, Ts, *pos, **kw)
# ==== strengthening after seeded changes (round 3): calling conventions (end) ====


def call_sample(sys, case):
    if case.get("call"):
        return call_with_plan(sys, case)
    kw = sample_kwargs(case)
    Ts = ts_value(case)
    via = case.get("via", "method")
    if via == "default":          # method defaults to 'zoh'
        return sys.sample(Ts, **kw)
    if via == "func":
        return ct.sample_system(sys, Ts, case["method"], **kw)
    if via == "c2d":
        return ct.c2d(sys, Ts, method=case["method"], **kw)
    return sys.sample(Ts, method=case["method"], **kw)


def names_line(case, nin, nout, nst):
    nm = case.get("names") or {}
    src = nm.get("src")
    copy = nm.get("copy")
    strs = lambda l: "%d%s" % (len(l), "".join(" " + s for s in l))
    opt = lambda l: "-" if l is None else strs(l)
    ins = nm.get("in") or ["u[%d]" % i for i in range(nin)]
    outs = nm.get("out") or ["y[%d]" % i for i in range(nout)]
    sts = nm.get("st") or ["x[%d]" % i for i in range(nst)]
    return "c2d names %d %s %s %s %s %s %s %s %s" % (
        1 if (copy is None or copy) else 0, nm.get("name") or "-", src or "*",
        strs(ins), strs(outs), strs(sts), opt(nm.get("oin")), opt(nm.get("oout")), opt(nm.get("ost")))


def parse_names(out):
    if out.startswith("err "):
        return {"err": out.split()[1]}
    t = out.split()
    assert t[0] == "ok" and t[1] == "names"
    i = 3
    res = {"name": t[2]}
    for key in ("in", "out", "st"):
        k = int(t[i])
        res[key] = t[i + 1:i + 1 + k]
        i += 1 + k
    return res


def pval(p, x):
    return exact.pval([F(c) for c in p], x)


def trim(p):
    return exact.ptrim([F(c) for c in p])


def companion(num, den):
    """controller canonical realisation of num/den (lists of Fraction, highest power first)"""
    den = exact.ptrim(den)
    num = exact.ptrim(num)
    n = len(den) - 1
    a = [x / den[0] for x in den]
    b = [Fraction(0)] * (n + 1 - len(num)) + [x / den[0] for x in num]
    A = [[Fraction(0)] * n for _ in range(n)]
    for j in range(n):
        A[0][j] = -a[j + 1]
    for i in range(1, n):
        A[i][i - 1] = Fraction(1)
    B = [[Fraction(int(i == 0))] for i in range(n)]
    C = [[b[j + 1] - b[0] * a[j + 1] for j in range(n)]]
    D = [[b[0]]]
    return n, A, B, C, D


# ==== strengthening after seeded changes: period kinds, second step, tiny coefficients (begin) ====
EPS_FLOOR = {1: 43, 2: 43, 3: 39, 4: 39}     # coefficient tolerance 2^-floor * S by degree (see coef_mismatch)
JOIN_DT = ["N", "T", "D" + tok(fr(0.1)), "D1/4", "D1", "D1/2", "C", "same", "same"]   # 0.1: the float's exact value
SCALES = [(-40, 0), (0, -40), (-30, -15), (-45, 0), (0, -45), (-20, -20), (-43, -2), (30, 0), (0, 24)]


def ts_tok(case):
    """the period token of the driver line: `T` for the Python value True"""
    return "T" if case.get("ts_kind") == "true" else case["Ts"]


def join_tok(case):
    j = case.get("join")
    return " J %d %s" % (j["first"], j["dt"]) if j else ""


def split_join(out):
    """driver output 'ok ... J <dt>' / '... J err <e>' -> (main, join or None)"""
    if " J " in out:
        main, j = out.rsplit(" J ", 1)
        return main, ({"err": j.split()[1]} if j.startswith("err ") else {"dt": j.strip()})
    return out, None


def join_impl(r, j):
    """second step on the real code: the sampled system r in series / parallel with a system of
    timebase j['dt'] (same class, matching dimensions); returns the timebase of the result"""
    dt = dt_value(j["dt"])
    try:
        if isinstance(r, ct.StateSpace):
            p, m = r.noutputs, r.ninputs
            shp = {"mul": (m, m) if j["first"] else (p, p), "add": (p, m)}[j["op"]]
            o = ct.ss(np.zeros((0, 0)), np.zeros((0, shp[1])), np.zeros((shp[0], 0)), 2 * np.ones(shp), dt)
        else:
            o = ct.tf([1.0], [1.0, -0.5], dt)
        x, y = (r, o) if j["first"] else (o, r)
        res = x * y if j["op"] == "mul" else x + y
        return {"dt": exact.dt_canon(res.dt)}
    except Exception as e:  # noqa
        return {"err": classify_exc(e), "exc": "%s: %s" % (type(e).__name__, str(e)[:100])}


def siso_tf_exact(A, B, C, D):
    """exact transfer function (num, den highest power first, den monic) of a SISO state-space
    quadruple over Fractions (Faddeev-LeVerrier): den = det(zI-A), num = C adj(zI-A) B + D den"""
    n = len(A)
    den = [Fraction(1)]
    M = exmat.eye(n)
    num = []
    for k in range(1, n + 1):
        num.append(exmat.mul(exmat.mul(C, M, n), B, n)[0][0] if n else Fraction(0))
        AM = exmat.mul(A, M, n)
        c = -sum(AM[i][i] for i in range(n)) / k
        den.append(c)
        M = [[AM[i][j] + (c if i == j else 0) for j in range(n)] for i in range(n)]
    d = D[0][0]
    num = [Fraction(0)] + num
    return [x + d * y for x, y in zip(num, den)], den


def exact_gbt_num(al, h, num, den):
    """generator-side aid only (never used in a comparison): the exact numerator of the substituted
    transfer function, to aim the gain of a tiny-coefficient case at a magnitude band"""
    n = len(den) - 1
    num = [Fraction(0)] * (n + 1 - len(num)) + list(num)
    a, b = [Fraction(1), Fraction(-1)], [h * al, h * (1 - al)]

    def ppow(p, k):
        r = [Fraction(1)]
        for _ in range(k):
            r = exact.pmul(r, p)
        return r

    def sub(p):
        out = [Fraction(0)] * (n + 1)
        for k, c in enumerate(reversed(p)):
            t = exact.pmul(ppow(a, k), ppow(b, n - k))
            t = [Fraction(0)] * (n + 1 - len(t)) + t
            out = [x + c * y for x, y in zip(out, t)]
        return out
    nd, dd = sub(num), sub(den)
    return ([x / dd[0] for x in nd] if dd[0] != 0 else None), dd[0]


def log2f(x):
    """floor(log2 |x|) of a non-zero Fraction"""
    x = abs(Fraction(x))
    e = x.numerator.bit_length() - x.denominator.bit_length()
    return e if Fraction(2) ** e <= x else e - 1
# ==== strengthening after seeded changes (end) ====


class C14(Family):
    prop = "C14"
    # source-text tie (notes/NOTES-py2lean-arith.md): Generated/Pade.lean is rewritten from the text of
    # control/delay.py:pade of the tree under check on every run and proved equal to the model `pade`
    extra_modules = ["CtrlVerif.Props.C14Gen",
                     "CtrlVerif.Props.C14Exp"]       # zero-order hold over R: exp, ODE, sampling
    # source-text tie of the discretisation code (notes/NOTES-py2lean-sample.md): Generated/C2d*.lean are
    # rewritten from StateSpace.sample, TransferFunction.sample, _c2d_matched (and SciPy's cont2discrete)
    extra_modules = extra_modules + ["CtrlVerif.Props.C14GenSample", "CtrlVerif.Props.C14GenTF",
                                     "CtrlVerif.Props.C14GenScipy"]
    # source-text tie of the dispatchers and signatures (notes/NOTES-py2lean-disp.md): Generated/DispSig.lean,
    # DispCall.lean are rewritten from sample_system / c2d and the def lines of both sample methods and pade
    extra_modules = extra_modules + ["CtrlVerif.Props.C14GenDisp", "CtrlVerif.Props.C14GenDispRoute"]

    def pre_build(self):
        import os
        from core import py2lean_arith, leanproj
        repo = os.environ.get("VERIF_REPO") or "/repo"
        problems, self.gen_info = py2lean_arith.regenerate(repo, leanproj.LEAN, ("pade",))
        from core import py2lean_c2d
        problems2, self.gen_info_c2d = py2lean_c2d.regenerate(repo, leanproj.LEAN)
        from core import py2lean_disp
        problems3, self.gen_info_disp = py2lean_disp.regenerate(repo, leanproj.LEAN)
        return problems + problems2 + problems3
    externals = [
        "numpy.tan (its value tan(w*Ts/2) is an argument of the model)",
        "scipy.linalg.expm (zero-order hold: the blocks of expm(Ts*[[A,B],[0,0]]) are an argument of "
        "the model unless A is nilpotent, where the model computes the exponential exactly)",
        "scipy.linalg.solve (the model decides det(I - alpha*h*A) != 0 and uses det^-1 * adjugate)",
        "scipy.signal.tf2ss / ss2tf inside cont2discrete((num, den), ...) (the model contains the exact "
        "counterpart of the composition: the substitution on coefficient lists, monic denominator)",
        "scipy.signal.tf2zpk / zpk2tf, numpy.exp in _c2d_matched (roots and exp values are arguments "
        "of the model; the generated systems have known distinct real roots)"]
    assumptions = [
        "regime T: matrices / coefficients compared to 1e-9 relative (transfer-function values to 1e-8) "
        "on well-conditioned generated data: |det(I - alpha*h*A)| >= 1/16 or exactly 0 with A upper "
        "triangular, entries <= 3, Ts dyadic in [1/8, 2]",
        "foh and impulse (accepted by SciPy, not documented by python-control) are not modelled",
        "TransferFunction.sample(method='zoh') is compared with the model's zero-order hold of the "
        "controller-canonical realisation built by the harness (values at 2n+1 points)",
        "Ts <= 0 is outside the property (the code accepts Ts = 0 and returns a 'continuous' system)",
        # strengthening after seeded changes
        "tiny-coefficient stream (SISO TF, Ts = 2^-8 .. 2^-14 or the floats 1e-3 / 1e-4, gains 2^g): numerator and "
        "denominator coefficients compared one by one with the absolute tolerance 2^-43 * S (degree <= 2) / "
        "2^-39 * S (degree 3, 4), S = max(1, max|den| + max|num|); SciPy's ss2tf is accurate to a few eps * S "
        "in absolute terms only (observed <= 3 resp. 31 eps * S), so exact coefficients below that floor are not "
        "resolved (evidence keys tiny_max_coef_log2, tiny_tol_over_error_log2)",
        "scaled stream: B, C scaled by powers of two (D by the product); the float pipeline is exactly covariant, "
        "matrices and transfer-matrix values are compared after undoing the scaling",
        "period kinds: Python float / int, numpy.float64 and the Python value True (numbers of Ts = 1, stored "
        "timebase True); numpy integer / float32 / 0-dim array periods (rejected by the constructor's timebase "
        "validation) are not generated",
        # strengthening after seeded changes (round 3)
        "calling conventions: the expected result of a call is that of the values bound to the documented "
        "parameter order Ts, method, alpha, prewarp_frequency, name, copy_names (sample_system / c2d: sysc first) "
        "by the model's bindArgs; name / copy_names as 5th / 6th optional positional argument follow the common "
        "signature of the three entry points (the docstrings list them under 'Other Parameters')"]
    rule = ("state-space systems (0..3 states, quick; ..4 thorough; shapes {1,2,3}^2, integer/dyadic data), "
            "SISO transfer functions (degree 0..4), Ts dyadic, all method names incl. unknown ones, "
            "alpha in {0,1/4,1/2,3/4,1} and invalid, prewarp frequencies incl. 0, source timebases "
            "0/None/True/dt, called as sys.sample / sample_system / c2d, names and label keywords; "
            "zero-order hold on nilpotent and general A; matched on TFs with known real roots; pade for "
            "all (n, numdeg) with n <= 8 (10 thorough), T rational, invalid arguments; period kinds float / int / "
            "numpy.float64 / True; a second step (series / parallel with a system of timebase None / True / "
            "0 / another or the same period, either operand order); SISO TFs with tiny exact coefficients "
            "(small period x relative degree, small gain) incl. zero-order hold; B / C scaled by 2^-45 .. 2^30; "
            "calling conventions on each route (sys.sample / sample_system / c2d): any prefix of method, alpha, "
            "prewarp_frequency, name, copy_names passed positionally in the documented order (unset ones at their "
            "defaults), the rest by keyword (also explicitly at their defaults), method omitted, Ts= / sysc= by "
            "keyword, integer-valued alpha / prewarp_frequency as ints, calls Python rejects (too many positional "
            "arguments, a parameter given twice); pade by position and by keyword; "
            "a case is "
            "non-trivial when the system has states / degree >= 1 (pade: n >= 1) and the model returns a result")

    # ---- generation ---------------------------------------------------------------
    def gen_names(self, rng, nin, nout, nst, tf=False):
        if rng.random() < 0.35:
            return None
        nm = {"copy": rng.choice([None, True, True, False]),
              "name": rng.choice([None, None, "sampled_1", "zz"]),
              "src": rng.choice([None] + NAMES),
              "in": None, "out": None, "st": None, "oin": None, "oout": None, "ost": None}
        if rng.random() < 0.7:
            nm["in"] = rng.sample(LABELS, nin)
            nm["out"] = rng.sample(LABELS, nout)
            if not tf:
                nm["st"] = rng.sample(LABELS, nst)
        r = rng.random()
        if r < 0.15:
            nm["oin"] = ["n%d" % i for i in range(nin)]
        elif r < 0.3:
            nm["oout"] = ["o%d" % i for i in range(nout)]
        elif r < 0.4 and not tf and nst:
            nm["ost"] = ["s%d" % i for i in range(nst)]
        elif r < 0.44:
            nm["oin"] = ["n%d" % i for i in range(nin + 1)]      # wrong length: raises
        return nm

    def gen_method(self, rng, tf=False):
        """method, alpha, prewarp"""
        r = rng.random()
        alpha = None
        if r < 0.34:
            method = "gbt"
            alpha = rng.choice(["0", "1/4", "1/2", "1/2", "3/4", "1", "1/8", "7/8"])
            if rng.random() < 0.08:
                alpha = rng.choice([None, "-1/4", "5/4"])
        elif r < 0.78:
            method = rng.choice(["bilinear", "bilinear", "tustin", "euler", "forward_diff",
                                 "backward_diff", "backward_diff"])
            if rng.random() < 0.15:
                alpha = rng.choice(["1/4", "3/4", "1/2"])      # must be ignored
        elif r < 0.95:
            method = "zoh"
        else:
            method = rng.choice(["foo", "matched" if not tf else "foo", "Bilinear", ""]) or "none"
        pw = None
        if rng.random() < 0.35:
            pw = [rng.choice(W_POOL) if rng.random() < 0.93 else "0", None]
        return method, alpha, pw

    def set_tan(self, case):
        if case.get("pw"):
            w = sample_kwargs(case)["prewarp_frequency"]      # float, or int when `opt_int` (round 3)
            Ts = ts_value(case)
            case["pw"][1] = tok(fr(float(np.tan(w * Ts / 2))))

    def rmat(self, rng, r, c, lo=-3, hi=3, zero=0.0):
        if rng.random() < zero:
            return [Fraction(0)] * (r * c)
        v = [Fraction(rng.randint(lo, hi)) for _ in range(r * c)]
        if rng.random() < 0.15:
            v = [x / 2 for x in v]
        return v

    def gen_A(self, rng, n, kind):
        if kind == "upper":
            return [Fraction(rng.randint(-3, 3)) if j >= i else Fraction(0) for i in range(n) for j in range(n)]
        if kind == "nilp":
            if n == 2 and rng.random() < 0.4:
                a, b = rng.choice([1, 2, -1]), rng.choice([1, 2, -2])
                return [Fraction(a * b), Fraction(b * b), Fraction(-a * a), Fraction(-a * b)]
            up = rng.random() < 0.5
            return [Fraction(rng.randint(-3, 3)) if ((j > i) if up else (j < i)) else Fraction(0)
                    for i in range(n) for j in range(n)]
        return self.rmat(rng, n, n)

    def gen_ss(self, rng, tier):
        for _ in range(200):
            nmax = 3 if tier == "quick" else 4
            n = rng.choice([0, 1, 1, 2, 2, 2, 3, 3] + ([4] if nmax == 4 else []))
            p, m = rng.choice([1, 1, 2, 2, 3]), rng.choice([1, 1, 2, 2, 3])
            method, alpha, pw = self.gen_method(rng)
            kind = "any"
            if method == "zoh" and rng.random() < 0.5:
                kind = "nilp"
            elif rng.random() < 0.12:
                kind = "upper"
            case = {"k": "ss", "n": n, "p": p, "m": m,
                    "dt": rng.choice(["C"] * 12 + ["N", "N", "T", "D1/2", "D1/10"]),
                    "A": toklist(self.gen_A(rng, n, kind)), "B": toklist(self.rmat(rng, n, m)),
                    "C": toklist(self.rmat(rng, p, n)), "D": toklist(self.rmat(rng, p, m, zero=0.35)),
                    "Ts": rng.choice(TS_POOL), "ts_int": rng.random() < 0.3,
                    "method": method, "alpha": alpha, "pw": pw,
                    "via": rng.choice(["method", "method", "func", "c2d"]),
                    "names": self.gen_names(rng, m, p, n)}
            if rng.random() < 0.02:
                case["Ts"] = rng.choice(["-1/2", "-1"])
            self.add_period(rng, case)
            self.add_call(rng, case)
            self.set_tan(case)
            if not self.guard_ss(case):
                continue
            self.set_ext(case)
            return case
        raise RuntimeError("generator stuck")

    def guard_ss(self, case):
        """conditioning guard: I - alpha*h*A well conditioned, or exactly singular and triangular"""
        a, h = alpha_of(case), twarp_of(case)
        if a is None or h is None or case["method"] not in GBT_METHODS:
            return True
        n = case["n"]
        A = exmat.from_flat(case["A"], n, n)
        Fm = exmat.sub(exmat.eye(n), exmat.scale(a * h, A))
        d = exmat.det(Fm) if n else Fraction(1)
        if d == 0:
            return all(A[i][j] == 0 for i in range(n) for j in range(i))
        return abs(d) >= Fraction(1, 16)

    def set_ext(self, case):
        case["ext"] = None
        if case["method"] != "zoh" or F(case["Ts"]) <= 0:
            return
        n, m = case["n"], case["m"]
        A = np.array([float(F(x)) for x in case["A"]]).reshape(n, n)
        B = np.array([float(F(x)) for x in case["B"]]).reshape(n, m)
        em = np.vstack((np.hstack((A, B)), np.zeros((m, n + m))))
        E = scipy.linalg.expm(ts_value(case) * em)
        case["ext"] = [tok(fr(x)) for x in np.asarray(E).reshape(-1)]

    def gen_tf(self, rng, tier):
        for _ in range(200):
            dd = rng.choice([0, 1, 1, 2, 2, 3, 3, 4])
            den = [Fraction(rng.choice([1, 1, 2, -1]))] + [Fraction(rng.randint(-3, 3)) for _ in range(dd)]
            nd = rng.randint(0, dd) if rng.random() < 0.93 else dd + 1      # improper: raises
            num = [Fraction(rng.choice([1, 2, -1, 3]))] + [Fraction(rng.randint(-3, 3)) for _ in range(nd)]
            if rng.random() < 0.05:
                num, den, dd = [Fraction(0)], [Fraction(1)], 0     # the constructor's normal form of 0
            if rng.random() < 0.1:
                num = [x / 2 for x in num]
            method, alpha, pw = self.gen_method(rng, tf=True)
            if method == "zoh":
                method = rng.choice(["bilinear", "gbt"])
                alpha = "1/2" if method == "gbt" else alpha
            case = {"k": "tf", "num": toklist(num), "den": toklist(den),
                    "dt": rng.choice(["C"] * 12 + ["N", "N", "T", "D1/2"]),
                    "Ts": rng.choice(TS_POOL), "ts_int": rng.random() < 0.3,
                    "method": method, "alpha": alpha, "pw": pw,
                    "via": rng.choice(["method", "method", "func", "c2d"]),
                    "names": self.gen_names(rng, 1, 1, 0, tf=True)}
            self.add_period(rng, case)
            self.add_call(rng, case)
            self.set_tan(case)
            a, h = alpha_of(case), twarp_of(case)
            if a is not None and h is not None and method in GBT_METHODS and a * h != 0:
                # leading coefficient of the substituted denominator = (a h)^n den(1/(a h))
                lead = pval(den, 1 / (a * h)) * (a * h) ** dd
                if lead != 0 and abs(lead) < Fraction(1, 16):
                    continue
                if lead == 0 and dd > 1:      # exact singularity is only detected exactly for 1 state
                    continue
            return case
        raise RuntimeError("generator stuck")

    def gen_tfzoh(self, rng, tier):
        dd = rng.choice([0, 1, 1, 2, 2, 3])
        if rng.random() < 0.3:      # integrator chains: nilpotent companion matrix, exact exponential
            den = [Fraction(1)] + [Fraction(0)] * dd
        else:
            den = [Fraction(rng.choice([1, 1, 2, -1]))] + [Fraction(rng.randint(-3, 3)) for _ in range(dd)]
        nd = rng.randint(0, dd)
        num = [Fraction(rng.choice([1, 2, -1, 3]))] + [Fraction(rng.randint(-3, 3)) for _ in range(nd)]
        case = {"k": "tfzoh", "num": toklist(num), "den": toklist(den), "dt": rng.choice(["C", "C", "C", "N"]),
                "Ts": rng.choice(["1/8", "1/4", "1/2", "1", "3/4"]), "ts_int": rng.random() < 0.3,
                "method": "zoh", "alpha": None, "pw": None,
                "via": rng.choice(["method", "func", "c2d", "default"]),
                "names": self.gen_names(rng, 1, 1, 0, tf=True)}
        self.add_period(rng, case)
        self.add_call(rng, case)
        self.fill_tfzoh(case)
        return case

    def fill_tfzoh(self, case):
        n, A, B, C, D = companion([F(x) for x in case["num"]], [F(x) for x in case["den"]])
        flat = lambda M: [tok(x) for r in M for x in r]
        case.update({"n": n, "p": 1, "m": 1, "A": flat(A), "B": flat(B), "C": flat(C), "D": flat(D)})
        self.set_ext(case)

    def gen_matched(self, rng, tier):
        pool = [Fraction(x, 2) for x in range(-6, 5)]
        np_ = rng.choice([1, 2, 2, 3])
        nz = rng.randint(0, np_)
        roots = rng.sample(pool, np_ + nz)
        if rng.random() < 0.9:
            roots = [r for r in pool if r != 0]
            roots = rng.sample(roots, np_ + nz)
        poles, zeros = roots[:np_], roots[np_:]
        k = Fraction(rng.choice([1, 2, -1, 3, 1]), rng.choice([1, 1, 2]))
        num, den = [k], [Fraction(1)]
        for z in zeros:
            num = exact.pmul(num, [Fraction(1), -z])
        for p in poles:
            den = exact.pmul(den, [Fraction(1), -p])
        Ts = rng.choice(["1/4", "1/2", "1", "3/4"])
        case = {"k": "matched", "num": toklist(num), "den": toklist(den), "zeros": toklist(zeros),
                "poles": toklist(poles), "Ts": Ts, "ts_int": False, "method": "matched",
                "via": rng.choice(["method", "func", "c2d"]), "dt": "C",
                "names": self.gen_names(rng, 1, 1, 0, tf=True)}
        if case["names"]:
            case["names"]["oin"] = case["names"]["oout"] = None if rng.random() < 0.7 else ["q"]
        self.add_period(rng, case)
        self.add_call(rng, case)
        Ts = case["Ts"]
        T = float(F(Ts))
        case["ez"] = [tok(fr(float(np.exp(float(z) * T)))) for z in zeros]
        case["ep"] = [tok(fr(float(np.exp(float(p) * T)))) for p in poles]
        return case

    # ==== strengthening after seeded changes (round 3): calling conventions (begin) ====
    def add_call(self, rng, case):
        """how the arguments reach the function: the optional parameters (method, alpha, prewarp_frequency,
        name, copy_names) as positional arguments in the documented order -- any prefix of them, a
        parameter the case leaves unset filled with its documented default (e.g. `'bilinear', None, w0`)
        -- or by keyword (also: explicitly at their defaults), on each of the three routes sys.sample /
        sample_system / c2d; method omitted (default 'zoh') on each route; Ts and sysc by keyword;
        integer-valued alpha / prewarp_frequency as Python ints; and the calls Python itself rejects (one
        positional argument too many, a parameter given positionally and by keyword)"""
        c = {"npos": rng.choice(NPOS_POOL), "explicit": rng.random() < 0.2}
        if case["method"] == "zoh" and rng.random() < 0.45:
            c["omit_method"] = True                         # really omitted only when nothing is positional
            if rng.random() < 0.7:
                c["npos"] = 0
        r = rng.random()
        if r < 0.03:
            c["npos"] = 6                                   # too many positional arguments: TypeError
        elif r < 0.07 and c["npos"] >= 1:
            c["dup"] = ORDER[rng.randrange(c["npos"])]      # multiple values for a parameter: TypeError
        elif r < 0.19:
            c["ts_kw"] = True
            if rng.random() < 0.85:
                c["npos"] = 0                               # (else: the first option lands in Ts: TypeError)
            if case.get("via") in ("func", "c2d") and rng.random() < 0.5:
                c["sys_kw"] = True
        case["call"] = c
        if rng.random() < 0.25:
            case["opt_int"] = True
    # ==== strengthening after seeded changes (round 3): calling conventions (end) ====

    # ==== strengthening after seeded changes: generators (begin) ====
    def add_period(self, rng, case):
        """period kinds beside float / int: the Python value True ('period unspecified': the numbers
        are those of Ts = 1, the stored timebase is True) and numpy.float64; and a second step: the
        sampled system combined with a system of another timebase"""
        r = rng.random()
        if F(case["Ts"]) > 0:
            if r < 0.07:
                case["ts_kind"], case["Ts"] = "true", "1"
            elif r < 0.13:
                case["ts_kind"] = "npf"
        if rng.random() < 0.3:
            dt = rng.choice(JOIN_DT)
            if dt == "same":
                dt = "T" if case.get("ts_kind") == "true" else "D" + case["Ts"]
            if not dt.startswith("D-"):
                case["join"] = {"dt": dt, "first": rng.randint(0, 1), "op": rng.choice(["mul", "add"])}

    def gen_tftiny(self, rng, tier, zoh=False):
        """SISO transfer functions whose exact sampled numerator is tiny in absolute terms: small
        period x relative degree (c ~ Ts^r) and / or a small gain 2^g, aimed at magnitudes from 2^-12 down
        to just above what the float pipeline (tf2ss -> gbt/zoh -> ss2tf, absolute accuracy ~ eps * S)
        resolves; compared coefficient by coefficient (coef_mismatch)"""
        for _ in range(200):
            dd = rng.choice([1, 1, 2, 2, 2, 3] if zoh else [1, 1, 2, 2, 2, 3, 4])
            den = [Fraction(rng.choice([1, 1, 2, -1]))] + [Fraction(rng.randint(-3, 3)) for _ in range(dd)]
            if zoh and rng.random() < 0.3:
                den = [Fraction(1)] + [Fraction(0)] * dd
            r = rng.randint(1, dd)
            num = [Fraction(rng.choice([1, 2, -1, 3]))] + [Fraction(rng.randint(-3, 3)) for _ in range(dd - r)]
            k = rng.randint(8, 14)
            Ts = "1/%d" % 2 ** k
            if rng.random() < 0.12:
                Ts, k = rng.choice([(tok(fr(1e-3)), 10), (tok(fr(1e-4)), 13)])      # the floats' exact values
            floor = EPS_FLOOR[dd]
            e = rng.uniform(floor - 7, floor - 1.7) if rng.random() < 0.55 else rng.uniform(12, floor - 7)
            if zoh:
                method, alpha = "zoh", None
            else:
                method, alpha, _ = self.gen_method(rng, tf=True)
                if method not in GBT_METHODS or (method == "gbt" and (alpha is None or not 0 <= F(alpha) <= 1)):
                    continue
            case = {"k": "tfzoh" if zoh else "tf", "dt": rng.choice(["C", "C", "C", "N"]),
                    "Ts": Ts, "ts_int": False, "method": method, "alpha": alpha, "pw": None,
                    "via": rng.choice(["method", "func", "c2d"] + (["default"] if zoh else [])),
                    "names": None, "tiny": True}
            if not zoh and method in ("bilinear", "tustin") and rng.random() < 0.25:
                case["pw"] = [rng.choice(W_POOL), None]
            self.add_call(rng, case)
            self.set_tan(case)
            h = twarp_of(case)
            if zoh:
                m0 = abs(num[0]) * F(Ts) ** r
            else:
                nd, lead = exact_gbt_num(alpha_of(case), h, num, den)
                if nd is None or abs(lead) < Fraction(1, 16):
                    continue
                m0 = max(abs(x) for x in nd)
                if m0 == 0:
                    continue
            g = round(-e - (log2f(m0) + 0.5))
            num = [x * Fraction(2) ** g for x in num]
            case.update({"num": toklist(num), "den": toklist(den)})
            if zoh:
                self.fill_tfzoh(case)
            return case
        raise RuntimeError("generator stuck")

    def gen_ss_scaled(self, rng, tier):
        """state-space systems with B and / or C scaled by a power of two (D by the product): every
        step of the float pipeline is exactly covariant under such a scaling, so the result is compared
        after undoing it -- entries that are tiny in absolute terms are compared relative to their scale"""
        for _ in range(200):
            case = self.gen_ss(rng, tier)
            if case["n"] == 0:
                continue
            gB, gC = rng.choice(SCALES)
            case["scale"] = {"B": gB, "C": gC}
            for nm, g in (("B", gB), ("C", gC), ("D", gB + gC)):
                case[nm] = [tok(F(x) * Fraction(2) ** g) for x in case[nm]]
            self.set_ext(case)
            return case
        raise RuntimeError("generator stuck")
    # ==== strengthening after seeded changes: generators (end) ====

    def gen_pade(self, rng, tier, n=None, nd="x"):
        nmax = 8 if tier == "quick" else 10
        if n is None:
            n = rng.randint(0, nmax)
        if nd == "x":
            nd = rng.choice([None, rng.randint(-n, n), rng.randint(0, n)])
        T = rng.choice(["1", "2", "1/2", "1/4", "3", "3/2", "1/10", "5", "0"])
        if rng.random() < 0.05:
            T = "0"
        kind = rng.choice(["float", "float", "int"])
        # round 3: pade(T, n, numdeg) / pade(T, n=, numdeg=) / pade(T=, n=, numdeg=) / pade(T, n, numdeg=)
        return {"k": "pade", "T": T, "Tkind": kind, "n": n, "nd": nd, "kwform": rng.choice([0, 0, 1, 2, 3])}

    def generate(self, rng, tier):
        out = []
        nss, ntf, nma, npa = (400, 200, 100, 60) if tier == "quick" else (3500, 1800, 700, 500)
        for _ in range(nss):
            out.append(self.gen_ss(rng, tier))
        for _ in range(ntf):
            out.append(self.gen_tf(rng, tier))
        for _ in range(nma):
            out.append(self.gen_matched(rng, tier))
        for _ in range(nma // 2):
            out.append(self.gen_tfzoh(rng, tier))
        # strengthening after seeded changes: tiny-coefficient and scaled streams
        for i in range(nma):
            out.append(self.gen_tftiny(rng, tier, zoh=(i % 3 == 2)))
        for _ in range(nma // 2):
            out.append(self.gen_ss_scaled(rng, tier))
        # pade: every (n, numdeg) with n <= 8, one T each; plus random and invalid ones
        nmax = 8 if tier == "quick" else 10
        for n in range(nmax + 1):
            for nd in [None] + list(range(-n, n + 1)):
                out.append(self.gen_pade(rng, tier, n, nd))
        for T in ("1", "1/2", "0"):             # the defaults of the signature (case n=1, nd=None)
            out.append({"k": "pade", "T": T, "Tkind": "float", "n": 1, "nd": None, "dflt": 1})
        for _ in range(npa):
            c = self.gen_pade(rng, tier)
            r = rng.random()
            if r < 0.12:
                c["T"] = rng.choice(["-1", "-1/2"])
            elif r < 0.2:
                c["n"] = -rng.randint(1, 3)
            elif r < 0.32:
                c["nd"] = rng.choice([c["n"] + 1, -c["n"] - 1, c["n"] + 3])
            out.append(c)
        return out

    def corpus(self):
        base = {"k": "ss", "n": 2, "p": 1, "m": 1, "dt": "C", "A": ["0", "1", "-2", "-3"], "B": ["0", "1"],
                "C": ["1", "0"], "D": ["0"], "Ts": "1/2", "ts_int": False, "alpha": None, "pw": None,
                "via": "method", "names": None, "ext": None}
        c1 = dict(base, method="bilinear", pw=["2", None])
        self.set_tan(c1)
        c2 = dict(base, method="gbt", alpha="1/4")
        c3 = dict(base, method="bilinear",
                  names={"copy": False, "name": "zz", "src": "plant", "in": ["uu"], "out": ["yy"],
                         "st": ["a", "b"], "oin": None, "oout": None, "ost": None})
        c4 = dict(base, method="zoh", A=["0", "1", "0", "0"])
        self.set_ext(c4)
        c5 = {"k": "matched", "num": ["1", "2"], "den": ["1", "3", "2"], "zeros": ["-2"], "poles": ["-1", "-2"],
              "Ts": "1/2", "ts_int": False, "method": "matched", "via": "method", "dt": "C",
              "names": {"copy": True, "name": None, "src": "plant", "in": ["uu"], "out": ["yy"], "st": None,
                        "oin": None, "oout": None, "ost": None}}
        c5["ez"] = [tok(fr(float(np.exp(-2 * 0.5))))]
        c5["ep"] = [tok(fr(float(np.exp(-1 * 0.5)))), tok(fr(float(np.exp(-2 * 0.5))))]
        # strengthening after seeded changes: Ts=True with a second step; tiny exact coefficients
        c7 = dict(base, method="zoh", Ts="1", ts_kind="true",
                  join={"dt": "D" + tok(fr(0.1)), "first": 0, "op": "mul"})
        self.set_ext(c7)
        c8 = {"k": "tf", "num": [tok(Fraction(1, 2 ** 30))], "den": ["1", "1"], "dt": "C", "Ts": "1/1024",
              "ts_int": False, "method": "bilinear", "alpha": None, "pw": None, "via": "func", "names": None,
              "tiny": True}
        c9 = {"k": "tfzoh", "num": [tok(Fraction(1, 2 ** 29))], "den": ["1", "0"], "dt": "C", "Ts": "1/2048",
              "ts_int": False, "method": "zoh", "alpha": None, "pw": None, "via": "method", "names": None,
              "tiny": True}
        self.fill_tfzoh(c9)
        # round 3: calling conventions -- c2d(G, Ts, 'bilinear', None, w0), sample_system(G, Ts, 'gbt', 1/4),
        # G.sample(Ts, 'tustin', None, w0, 'zz', False), sample_system(sysc=G, Ts=Ts) (method omitted)
        c10 = dict(base, method="bilinear", pw=["2", None], via="c2d", call={"npos": 3})
        self.set_tan(c10)
        c11 = dict(base, method="gbt", alpha="1/4", via="func", call={"npos": 2})
        c12 = dict(base, method="tustin", pw=["1", None], via="method", call={"npos": 5}, opt_int=True,
                   names={"copy": False, "name": "zz", "src": "plant", "in": ["uu"], "out": ["yy"],
                          "st": ["a", "b"], "oin": None, "oout": None, "ost": None})
        self.set_tan(c12)
        c13 = dict(base, method="zoh", A=["0", "1", "0", "0"], via="func",
                   call={"npos": 0, "omit_method": True, "ts_kw": True, "sys_kw": True})
        self.set_ext(c13)
        return [c1, c2, c3, c4, c5, {"k": "pade", "T": "1", "Tkind": "int", "n": 3, "nd": -2}, c7, c8, c9,
                c10, c11, c12, c13, {"k": "pade", "T": "1/2", "Tkind": "float", "n": 3, "nd": 2, "kwform": 1}]

    # ---- execution ------------------------------------------------------------------
    def opt(self, x):
        return "-" if x is None else x

    def line(self, case):
        k = case["k"]
        if k == "pade":
            return "c2d pade %s %d %s" % (case["T"], case["n"], "-" if case["nd"] is None else case["nd"])
        pw = "P %s %s" % tuple(case["pw"]) if case.get("pw") else "-"
        method = case["method"] if re.fullmatch(r"[A-Za-z_]+", case["method"]) else "other"
        if k in ("ss", "tfzoh"):
            n, p, m = case["n"], case["p"], case["m"]
            ext = "E " + " ".join(case["ext"]) if case.get("ext") else "-"
            l1 = "c2d ss %d %d %d %s %s %s %s %s %s %s" % (
                n, p, m, case["dt"], " ".join(case["A"] + case["B"] + case["C"] + case["D"]),
                ts_tok(case), method, self.opt(case.get("alpha")), pw, ext)
            return [" ".join(l1.split()) + join_tok(case),
                    names_line(case, m, p, n if k == "ss" else 0)] + self.bind_lines(case)
        if k == "tf":
            l1 = "c2d tf %d %s %d %s %s %s %s %s %s" % (
                len(case["num"]), " ".join(case["num"]), len(case["den"]), " ".join(case["den"]),
                case["dt"], ts_tok(case), method, self.opt(case.get("alpha")), pw)
            return [l1 + join_tok(case), names_line(case, 1, 1, 0)] + self.bind_lines(case)
        if k == "matched":
            ls = lambda v: "%d%s" % (len(v), "".join(" " + x for x in v))
            l1 = "c2d matched %s %s %s %s %s %s %s" % (
                ls(case["num"]), ls(case["den"]), ls(case["zeros"]), ls(case["poles"]),
                ls(case["ez"]), ls(case["ep"]), ts_tok(case))
            return [l1 + join_tok(case), names_line(case, 1, 1, 0)] + self.bind_lines(case)
        raise ValueError(k)

    def bind_lines(self, case):
        """round 3: the call form, bound by the model (`bindArgs` on the documented signature)"""
        return [bind_line(case)] if case.get("call") else []

    def build(self, case):
        nm = case.get("names") or {}
        kw = {}
        if nm.get("src"):
            kw["name"] = nm["src"]
        if nm.get("in"):
            kw["inputs"] = list(nm["in"])
        if nm.get("out"):
            kw["outputs"] = list(nm["out"])
        if case["k"] == "ss":
            n, p, m = case["n"], case["p"], case["m"]
            f = lambda v, r, c: np.array([float(F(x)) for x in v], dtype=float).reshape(r, c)
            if nm.get("st"):
                kw["states"] = list(nm["st"])
            return ct.ss(f(case["A"], n, n), f(case["B"], n, m), f(case["C"], p, n), f(case["D"], p, m),
                         dt_value(case["dt"]), **kw)
        return ct.tf([float(F(x)) for x in case["num"]], [float(F(x)) for x in case["den"]],
                     dt_value(case["dt"]), **kw)

    def impl(self, case):
        k = case["k"]
        try:
            if k == "pade":
                T = F(case["T"])
                Tv = int(T) if (case["Tkind"] == "int" and T.denominator == 1) else float(T)
                args = (Tv, case["n"]) + (() if case["nd"] is None else (case["nd"],))
                if case.get("dflt"):            # pade(T): the default n=1, numdeg=None of the signature
                    args = (Tv,)
                names, kwform = ("T", "n", "numdeg"), case.get("kwform", 0)      # round 3: keyword forms
                npos = {0: 3, 1: 1, 2: 0, 3: 2}[kwform]
                num, den = ct.pade(*args[:npos], **dict(list(zip(names, args))[npos:]))
                return {"ok": {"num": [tok(fr(x)) for x in num], "den": [tok(fr(x)) for x in den]}}
            sys = self.build(case)
        except Exception as e:  # noqa
            return {"err": classify_exc(e), "exc": "%s: %s" % (type(e).__name__, str(e)[:160]), "stage": "build"}
        try:
            r = call_sample(sys, case)
        except Exception as e:  # noqa
            return {"err": classify_exc(e), "exc": "%s: %s" % (type(e).__name__, str(e)[:160])}
        jn = join_impl(r, case["join"]) if case.get("join") else None      # second step
        try:
            names = {"name": sys_norm(r.name), "in": list(r.input_labels), "out": list(r.output_labels),
                     "st": list(r.state_labels) if isinstance(r, ct.StateSpace) else []}
            if isinstance(r, ct.StateSpace):
                n, p, m = r.nstates, r.noutputs, r.ninputs
                return {"join": jn,
                        "ok": {"type": "ss", "n": n, "p": p, "m": m, "dt": exact.dt_canon(r.dt),
                               "A": exmat.flat_tokens(exmat.from_np(r.A, n, n)),
                               "B": exmat.flat_tokens(exmat.from_np(r.B, n, m)),
                               "C": exmat.flat_tokens(exmat.from_np(r.C, p, n)),
                               "D": exmat.flat_tokens(exmat.from_np(r.D, p, m))}, "names": names}
            if isinstance(r, ct.TransferFunction):
                num, den = np.asarray(r.num[0][0]), np.asarray(r.den[0][0])
                cplx = bool(np.iscomplexobj(num) or np.iscomplexobj(den))
                imag = float(max([0.0] + [abs(x.imag) for x in list(num) + list(den)])) if cplx else 0.0
                return {"join": jn,
                        "ok": {"type": "tf", "dt": exact.dt_canon(r.dt), "complex_dtype": cplx,
                               "imag": imag,
                               "num": [tok(fr(np.real(x))) for x in num],
                               "den": [tok(fr(np.real(x))) for x in den]}, "names": names}
            return {"ok": {"type": type(r).__name__}}
        except ValueError:
            return {"ok": {"type": "nonfinite", "dt": exact.dt_canon(r.dt)}}

    def parse_model(self, case, out):
        if case["k"] == "pade":
            if out.startswith("err "):
                return {"err": out.split()[1]}
            tk = Tokens(out)
            assert tk.next() == "ok" and tk.next() == "pade"
            num = [tok(x) for x in tk.rats()]
            den = [tok(x) for x in tk.rats()]
            return {"ok": {"num": num, "den": den}}
        o1, o2 = out[0], out[1]
        if case.get("call"):        # round 3: the model's binding of the call
            o3 = out[2]
            if o3.startswith("err "):
                return {"err": o3.split()[1], "bind": "rejected"}
            t = o3.split()
            assert t[:2] == ["ok", "bind"], o3
            if t[2:] != expected_slots(case):      # the harness built another call than the model bound
                raise AssertionError("bind: model %s, harness %s" % (t[2:], expected_slots(case)))
        o1, mjoin = split_join(o1)
        names = parse_names(o2)
        if o1.startswith("err "):
            return {"err": o1.split()[1]}
        tk = Tokens(o1)
        assert tk.next() == "ok"
        kind = tk.next()
        if kind == "ss":
            n, p, m, dt = tk.nat(), tk.nat(), tk.nat(), tk.next()
            o = {"type": "ss", "n": n, "p": p, "m": m, "dt": dt}
            for nm in "ABCD":
                r, c = tk.nat(), tk.nat()
                o[nm] = [tk.next() for _ in range(r * c)]
        else:
            dt = tk.next()
            o = {"type": "tf", "dt": dt, "num": [tok(x) for x in tk.rats()], "den": [tok(x) for x in tk.rats()]}
        if "err" in names:
            return {"err": names["err"], "numeric": o}
        return {"ok": o, "names": names, "join": mjoin}

    # ---- comparison -------------------------------------------------------------------
    def features(self, case, kind, impl=None, **extra):
        feat = {"kind": kind, "family": case["k"]}
        if case["k"] != "pade":
            feat["method"] = case["method"] if case["method"] in GBT_METHODS + ("zoh", "matched") else "other"
        if impl is not None and "err" in impl:
            feat["exc"] = impl["exc"].split(":")[0]
            feat["msg"] = re.sub(r"[0-9.]+", "#", impl["exc"].split(":", 1)[1].strip())[:50]
        if case.get("pw") and F(case["pw"][0]) == 0:
            feat["prewarp_zero"] = True
        if case.get("call"):        # round 3
            feat["args"] = "positional" if case["call"]["npos"] else "keyword"
        feat.update(extra)
        return feat

    def cont_value(self, case, s):
        """exact value of the continuous system at s (None at a pole)"""
        if case["k"] == "ss":
            n, p, m = case["n"], case["p"], case["m"]
            return exmat.ss_eval(exmat.from_flat(case["A"], n, n), exmat.from_flat(case["B"], n, m),
                                 exmat.from_flat(case["C"], p, n), exmat.from_flat(case["D"], p, m), s, p, m)
        d = pval(case["den"], s)
        if d == 0:
            return None
        return [[pval(case["num"], s) / d]]

    def disc_value(self, o, z):
        if o["type"] == "ss":
            n, p, m = o["n"], o["p"], o["m"]
            return exmat.ss_eval(exmat.from_flat(o["A"], n, n), exmat.from_flat(o["B"], n, m),
                                 exmat.from_flat(o["C"], p, n), exmat.from_flat(o["D"], p, m), z, p, m)
        d = pval(o["den"], z)
        if d == 0:
            return None
        return [[pval(o["num"], z) / d]]

    def well_inside(self, o, z):
        """z is not close to a pole of the (exact) model result"""
        if o["type"] == "ss":
            n = o["n"]
            if n == 0:
                return True
            A = exmat.from_flat(o["A"], n, n)
            zi = [[(z if i == j else Fraction(0)) - A[i][j] for j in range(n)] for i in range(n)]
            return abs(exmat.det(zi)) >= Fraction(1, 50)
        return abs(pval(o["den"], z)) >= Fraction(1, 50) * max(1, max(abs(F(c)) for c in o["den"]))

    def defining_relation_fails(self, case, a, b):
        """the property itself on the implementation's result: Gd(z) = Gc((z-1)/(h(alpha z+1-alpha)))
        for the gbt family (exact evaluation of the implementation's matrices / coefficients at
        rational points, compared with the exact continuous value); for the other methods the
        implementation's values are compared with the model's.  Returns a description or None."""
        alpha, h = alpha_of(case), twarp_of(case)
        gbt = case["method"] in GBT_METHODS and alpha is not None and h is not None
        order = b["n"] if b["type"] == "ss" else len(b["den"]) - 1
        used = 0
        vs = self.scales(case)["D"]      # exact scale of the transfer matrix (1 unless a scaled case)
        for z in POINTS:
            if not self.well_inside(b, z):
                continue
            if gbt:
                q = h * (alpha * z + 1 - alpha)
                if q == 0:
                    continue
                ref = self.cont_value(case, (z - 1) / q)
            else:
                ref = self.disc_value(b, z)
            got = self.disc_value(a, z)
            if ref is None:
                continue
            if got is None:
                return "Gd(%s) undefined" % z
            used += 1
            if vs != 1:
                got, ref = exmat.scale(1 / vs, got), exmat.scale(1 / vs, ref)
            if not exmat.close(got, ref, VTOL):
                return "Gd(%s) = %s, defining relation gives %s%s" % (
                    z, [float(x) for r in got for x in r], [float(x) for r in ref for x in r],
                    "" if vs == 1 else " (both divided by the scale %s of the system)" % vs)
            if used >= 2 * order + 1:
                break
        return None

    # ==== strengthening after seeded changes: comparison (begin) ====
    def scales(self, case):
        """exact scale of each matrix of a scaled case (powers of two); 1 otherwise"""
        sc = case.get("scale") or {"B": 0, "C": 0}
        sB, sC = Fraction(2) ** sc["B"], Fraction(2) ** sc["C"]
        return {"A": Fraction(1), "B": sB, "C": sC, "D": sB * sC}

    def coef_mismatch(self, case, a, b):
        """tiny-coefficient cases: the implementation's coefficient lists against the exact ones,
        entry by entry, with the absolute tolerance 2^-floor * S, S = max(1, max|den| + max|num|)
        (floor = 43 for degree <= 2, 39 for degree 3, 4).  SciPy's ss2tf forms the numerator as
        poly(A - BC) - poly(A): its accuracy is absolute (a few eps * S: at most 3 eps * S observed for
        degree <= 2, 31 eps * S for degree 3-4 over 10^5 systems), so a coefficient is resolved only
        above that floor; the tolerance is >= 190 x the observed error.  The zero system in the
        constructor's normal form 0/1 is read as 0/den.  Returns (description or None, margin)."""
        if b["type"] == "ss":      # zero-order hold: exact transfer function of the model's result
            n = b["n"]
            mn, md = siso_tf_exact(exmat.from_flat(b["A"], n, n), exmat.from_flat(b["B"], n, 1),
                                   exmat.from_flat(b["C"], 1, n), exmat.from_flat(b["D"], 1, 1))
        else:
            mn, md = [F(x) for x in b["num"]], [F(x) for x in b["den"]]
        an, ad = [F(x) for x in a["num"]], [F(x) for x in a["den"]]
        if all(x == 0 for x in an) and ad == [1]:
            ad = list(md)
        L = max(len(mn), len(md), len(an), len(ad))
        pad = lambda v: [Fraction(0)] * (L - len(v)) + list(v)
        mn, md, an, ad = pad(mn), pad(md), pad(an), pad(ad)
        deg = max(1, min(4, len(exact.ptrim(md)) - 1))
        S = max(Fraction(1), max(abs(x) for x in md) + max(abs(x) for x in mn))
        tol = S / 2 ** EPS_FLOOR[deg]
        worst = max(max(abs(x - y) for x, y in zip(an, mn)), max(abs(x - y) for x, y in zip(ad, md)))
        margin = 60 if worst == 0 else min(60, log2f(tol / worst))
        for nm, u, v in (("num", an, mn), ("den", ad, md)):
            for i, (x, y) in enumerate(zip(u, v)):
                if abs(x - y) > tol:
                    return ("%s[%d] = %.6g, exact %.6g (|difference| %.3g > %.3g = 2^-%d * %.3g)" % (
                        nm, i - L, float(x), float(y), float(abs(x - y)), float(tol), EPS_FLOOR[deg], float(S)),
                        margin)
        return None, margin

    def compare_join(self, case, impl, model):
        """second step: timebase of the sampled system combined with a system of another timebase"""
        a, b = impl.get("join"), model.get("join")
        if not case.get("join") or a is None or b is None:
            return None
        j = case["join"]
        feat = dict(other=j["dt"][0], period=case.get("ts_kind") or "number")
        if "err" in b:
            if "err" in a:
                return None
            return Verdict(VIOLATES, "second step (%s with a dt=%s system) returns timebase %s, the timebases "
                           "are incompatible" % (j["op"], j["dt"], a["dt"]),
                           self.features(case, "join-returns", None, **feat))
        if "err" in a:
            return Verdict(VIOLATES, "second step (%s with a dt=%s system) raises %s, expected timebase %s" % (
                j["op"], j["dt"], a["exc"], b["dt"]), self.features(case, "join-raises", None, **feat))
        if a["dt"] != b["dt"]:
            return Verdict(VIOLATES, "second step (%s with a dt=%s system) has timebase %s, expected %s" % (
                j["op"], j["dt"], a["dt"], b["dt"]), self.features(case, "join-dt", None, **feat))
        return None
    # ==== strengthening after seeded changes: comparison (end) ====

    def compare_names(self, case, impl, model):
        a, b = impl.get("names"), model.get("names")
        if a is None or b is None:
            return None
        diffs = [k for k in ("name", "in", "out", "st") if a[k] != b[k]]
        if not diffs:
            return None
        nm = case.get("names") or {}
        return Verdict(VIOLATES, "names/labels %s: implementation %s, expected %s" % (
            diffs, {k: a[k] for k in diffs}, {k: b[k] for k in diffs}),
            self.features(case, "names", None, which="+".join(diffs),
                          copy_names=nm.get("copy") is None or bool(nm.get("copy")),
                          name_given=nm.get("name") is not None))

    def compare(self, case, impl, model):
        if case["k"] == "pade":
            return self.compare_pade(case, impl, model)
        if "err" in model:
            if "err" in impl:
                return Verdict(AGREE)
            if model["err"] == "notImplemented":
                return Verdict(AGREE)       # not modelled (foh / impulse): nothing is claimed
            kind = "returns-" + model["err"]
            extra = {}
            if impl["ok"].get("type") == "nonfinite":
                extra["nonfinite"] = True
            return Verdict(VIOLATES, "a system was returned where the model raises %s" % model["err"],
                           self.features(case, kind, None, **extra))
        if "err" in impl:
            return Verdict(VIOLATES, "implementation raises %s where the result exists" % impl["exc"],
                           self.features(case, "raises", impl))
        a, b = impl["ok"], model["ok"]
        if a.get("type") == "nonfinite":
            return Verdict(VIOLATES, "non-finite result", self.features(case, "nonfinite"))
        if case["k"] == "tfzoh":
            if a["type"] != "tf":
                return Verdict(VIOLATES, "result type %s" % a["type"], self.features(case, "type"))
            b = dict(b, type="ss")
        elif a["type"] != b["type"]:
            return Verdict(VIOLATES, "result type %s vs %s" % (a["type"], b["type"]), self.features(case, "type"))
        if a["dt"] != b["dt"]:
            return Verdict(VIOLATES, "timebase of the sampled system %s, Ts is %s" % (a["dt"], b["dt"]),
                           self.features(case, "dt"))
        if a["type"] == "ss" and b["type"] == "ss":
            if (a["n"], a["p"], a["m"]) != (b["n"], b["p"], b["m"]):
                return Verdict(VIOLATES, "dimensions %s vs %s" % ((a["n"], a["p"], a["m"]), (b["n"], b["p"], b["m"])),
                               self.features(case, "shape"))
            sc = self.scales(case)      # all 1 unless a scaled case: compared after undoing the scaling
            same = all(exmat.close([[F(x) / sc[nm] for x in a[nm]]], [[F(x) / sc[nm] for x in b[nm]]], TOL)
                       for nm in "ABCD")
            if not same:
                d = self.defining_relation_fails(case, a, b)
                if d is not None:
                    return Verdict(VIOLATES, "transfer matrix: " + d, self.features(case, "value"))
                return Verdict(DIFFERS, "realisation differs from the model's, transfer matrix agrees",
                               self.features(case, "realisation"))
        else:
            d = self.defining_relation_fails(case, a, b)
            if d is not None:
                return Verdict(VIOLATES, "transfer function: " + d, self.features(case, "value"))
            if a.get("imag", 0.0) > 1e-12:
                return Verdict(VIOLATES, "complex coefficients (imag %g)" % a["imag"],
                               self.features(case, "complex"))
            if case.get("tiny"):
                d, _ = self.coef_mismatch(case, a, b)
                if d is not None:
                    return Verdict(VIOLATES, "transfer function coefficients: " + d,
                                   self.features(case, "coefficient"))
        v = self.compare_join(case, impl, model)
        if v is not None:
            return v
        v = self.compare_names(case, impl, model)
        if v is not None:
            return v
        return Verdict(AGREE)

    def compare_pade(self, case, impl, model):
        if "err" in model:
            if "err" in impl:
                return Verdict(AGREE)
            return Verdict(VIOLATES, "pade returned where the arguments are invalid (%s)" % model["err"],
                           self.features(case, "returns-" + model["err"]))
        if "err" in impl:
            return Verdict(VIOLATES, "pade raises %s on valid arguments" % impl["exc"],
                           self.features(case, "raises", impl))
        for nm in ("num", "den"):
            x, y = [F(v) for v in impl["ok"][nm]], [F(v) for v in model["ok"][nm]]
            if len(x) != len(y):
                return Verdict(VIOLATES, "%s has %d coefficients, expected %d" % (nm, len(x), len(y)),
                               self.features(case, "pade-length"))
            for i, (u, v) in enumerate(zip(x, y)):
                if abs(u - v) > TOL * max(1, abs(v)):
                    return Verdict(VIOLATES, "%s[%d] = %s, approximant has %s" % (nm, i, float(u), float(v)),
                                   self.features(case, "pade-value"))
        return Verdict(AGREE)

    def nontrivial(self, case, model):
        if "ok" not in model:
            return False
        if case["k"] == "pade":
            return case["n"] >= 1 and F(case["T"]) != 0
        if case["k"] in ("ss", "tfzoh"):
            return case["n"] >= 1
        return len(case["den"]) >= 2

    def stats(self, case, impl, model):
        st = {"family": case["k"], "outcome": ("err:" + model["err"]) if "err" in model else "ok"}
        if case["k"] == "pade":
            st["pade_n"] = case["n"]
            st["pade_call"] = {0: "positional", 1: "T,n=,numdeg=", 2: "T=,n=,numdeg=", 3: "T,n,numdeg="}[
                case.get("kwform", 0)]
            return st
        st["method"] = case["method"] if case["method"] in GBT_METHODS + ("zoh", "matched") else "other"
        st["via"] = case.get("via")
        if case.get("alpha") is not None and case["method"] == "gbt":
            st["alpha"] = case["alpha"]
        st["prewarp"] = bool(case.get("pw"))
        st["src_dt"] = case["dt"][0]
        if case["k"] == "ss":
            st["shape"] = "%dx%d" % (case["p"], case["m"])
            st["nstates"] = case["n"]
            if case["method"] == "zoh" and "ok" in model:
                st["zoh"] = "external-expm" if case.get("ext") and not self.nilpotent(case) else "exact-nilpotent"
        else:
            st["degree"] = len(case["den"]) - 1
            if "ok" in impl and impl["ok"].get("complex_dtype"):
                st["complex_dtype"] = True
        if "err" in model and "err" in impl:
            st["errkind_equal"] = impl["err"] == model["err"]
        if case.get("ext"):
            st["expm_contract"] = self.expm_contract(case)
        st["names"] = "given" if case.get("names") else "default"
        # strengthening after seeded changes: period kinds, second step, tiny / scaled streams
        st["period"] = case.get("ts_kind") or ("int" if isinstance(ts_value(case), int) else "float")
        if case.get("join"):
            mj = model.get("join") or {}
            st["second_step"] = "%s:%s->%s" % (st["period"] if st["period"] == "true" else "number",
                                               case["join"]["dt"][0], "err" if "err" in mj else mj.get("dt", "-")[0])
        if case.get("call"):        # round 3: calling conventions
            c = case["call"]
            st["call"] = "%s:pos%d%s%s%s%s" % (
                {"method": "sample", "default": "sample"}.get(case.get("via"), case.get("via")), c["npos"],
                "+explicit-defaults" if c.get("explicit") else "", "+Ts=" if c.get("ts_kw") else "",
                "+sysc=" if c.get("sys_kw") else "", "+dup" if c.get("dup") else "")
            st["method_omitted"] = bool((c.get("omit_method") or case.get("via") == "default") and c["npos"] == 0)
            st["call_rejected"] = model.get("bind") == "rejected"
            if case.get("opt_int"):
                st["int_options"] = True
        if case.get("scale"):
            st["scaled"] = "B2^%d,C2^%d" % (case["scale"]["B"], case["scale"]["C"])
        if case.get("tiny"):
            st["small_period"] = case["Ts"]
            if "ok" in model and "ok" in impl and impl["ok"].get("type") == "tf":
                b = dict(model["ok"], type="ss") if case["k"] == "tfzoh" else model["ok"]
                if b["type"] == "ss":
                    mn, _ = siso_tf_exact(exmat.from_flat(b["A"], b["n"], b["n"]), exmat.from_flat(b["B"], b["n"], 1),
                                          exmat.from_flat(b["C"], 1, b["n"]), exmat.from_flat(b["D"], 1, 1))
                else:
                    mn = [F(x) for x in b["num"]]
                mx = max(abs(x) for x in mn)
                st["tiny_max_coef_log2"] = (log2f(mx) // 4) * 4 if mx else "zero"
                st["tiny_tol_over_error_log2"] = (self.coef_mismatch(case, impl["ok"], b)[1] // 2) * 2
        return st

    def expm_contract(self, case):
        """numerical sanity check of the ExpFlow contract on the values SciPy returned (reported in
        the evidence, never used as a proof): input rows are exactly [0, I], Phi(h)^2 = Phi(2h)"""
        n, m = case["n"], case["m"]
        E = np.array([float(F(x)) for x in case["ext"]]).reshape(n + m, n + m)
        low = E[n:, :]
        ok = np.array_equal(low, np.hstack((np.zeros((m, n)), np.eye(m))))
        A = np.array([float(F(x)) for x in case["A"]]).reshape(n, n)
        B = np.array([float(F(x)) for x in case["B"]]).reshape(n, m)
        em = np.vstack((np.hstack((A, B)), np.zeros((m, n + m))))
        E2 = scipy.linalg.expm(2 * ts_value(case) * em)
        ok = ok and bool(np.allclose(E @ E, E2, rtol=1e-9, atol=1e-9))
        return "ok" if ok else "FAILS"

    def nilpotent(self, case):
        n = case["n"]
        A = exmat.from_flat(case["A"], n, n)
        P = exmat.eye(n)
        for _ in range(n):
            P = exmat.mul(P, A) if n else P
        return all(x == 0 for r in P for x in r)

    # ---- shrinking / search ---------------------------------------------------------
    def shrink(self, case):
        if case["k"] == "pade":
            if case["n"] > 0:
                c = dict(case, n=case["n"] - 1)
                if c["nd"] is not None:
                    c["nd"] = max(-c["n"], min(c["n"], c["nd"]))
                yield c
            return
        if case.get("names"):
            yield dict(case, names=None)
            nm = dict(case["names"])
            for k in ("oin", "oout", "ost"):
                if nm.get(k) is not None:
                    yield dict(case, names=dict(nm, **{k: None}))
        if case.get("pw"):
            yield dict(case, pw=None)
        if case.get("via") != "method":
            yield dict(case, via="method")
        if case.get("join"):
            yield dict(case, join=None)
        if case.get("call"):        # round 3: towards the plain keyword call
            c = case["call"]
            if c.get("explicit") or c.get("omit_method") or c.get("ts_kw") or c.get("sys_kw"):
                yield dict(case, call={"npos": c["npos"], **({"dup": c["dup"]} if c.get("dup") else {})})
            if c["npos"] and not c.get("dup"):
                yield dict(case, call=dict(c, npos=c["npos"] - 1))
            if case.get("opt_int"):
                yield dict(case, opt_int=False)
        if case["k"] == "ss":
            n, p, m = case["n"], case["p"], case["m"]
            if n > 1 and not case.get("names"):
                n2 = n - 1
                A, B, C = case["A"], case["B"], case["C"]
                c = dict(case, n=n2, A=[A[i * n + j] for i in range(n2) for j in range(n2)], B=B[:n2 * m],
                         C=[C[i * n + j] for i in range(p) for j in range(n2)])
                self.set_ext(c)
                yield c
            if p > 1 and not case.get("names"):
                yield dict(case, p=1, C=case["C"][:n], D=case["D"][:m])

    def search(self, rng, case, tier):
        out = []
        for _ in range(150):
            out.append(self.gen_tftiny(rng, "quick", zoh=case["k"] == "tfzoh") if case.get("tiny") else
                       self.gen_ss_scaled(rng, "quick") if case.get("scale") else
                       self.gen_ss(rng, "quick") if case["k"] == "ss" else
                       self.gen_tf(rng, "quick") if case["k"] == "tf" else
                       self.gen_matched(rng, "quick") if case["k"] == "matched" else
                       self.gen_tfzoh(rng, "quick") if case["k"] == "tfzoh" else
                       self.gen_pade(rng, "quick"))
        return out


FAMILY = C14
