"""Generator of C19 cases (histories over the public API, parameter-protocol histories)."""
import copy

from families import c19 as F

enc, dec = F.enc, F.dec


def ref(s):
    return {"s": s}


# candidate values for configuration keys (besides the import-time value)
KEYVALS = {
    "control.default_dt": [0, None, True, 0.1],
    "control.squeeze_frequency_response": [None, True, False],
    "control.squeeze_time_response": [None, True, False],
    "forced_response.return_x": [False, True],
    "statesp.remove_useless_states": [False, True],
    "xferfcn.display_format": ["poly", "zpk"],
    "xferfcn.floating_point_format": [".4g", ".3f"],
    "iosys.repr_format": ["eval", "info", "iosys"],
    "iosys.repr_show_count": [True, False],
    "iosys.state_name_delim": ["_", "."],
    "iosys.duplicate_system_name_suffix": ["$copy", "", "_dup"],
    "iosys.duplicate_system_name_prefix": ["", "copy of "],
    "iosys.converted_system_name_suffix": ["$converted", "_c"],
    "iosys.sampled_system_name_suffix": ["$sampled", "_d"],
    "iosys.linearized_system_name_suffix": ["$linearized", "_lin"],
    "iosys.indexed_system_name_suffix": ["$indexed", "_i"],
    "statesp.latex_repr_type": ["partitioned", "separate"],
    "statesp.latex_num_format": [".3g", ".2f"],
    "freqplot.dB": [False, True], "freqplot.deg": [True, False], "freqplot.Hz": [False, True],
    "freqplot.grid": [True, False], "freqplot.number_of_samples": [1000, 50],
    "freqplot.magnitude_label": ["Magnitude", "Gain"],
    "freqplot.wrap_phase": [False, True],
    "nyquist.mirror_style": [["--", ":"], "--", False],
    "nyquist.indent_radius": [1e-4, 0.1], "nyquist.indent_direction": ["right", "left"],
    "nyquist.max_curve_magnitude": [20, 10], "nyquist.arrows": [2, 3],
    "pzmap.grid": [False, True], "rlocus.grid": [True, False], "nichols.grid": [True, False],
    "sisotool.initial_gain": [1, 2],
    "timeplot.sharex": ["col", "row"], "timeplot.time_label": ["Time [s]", "t"],
    "phaseplot.arrows": [2, 3],
    "optimal.minimize_method": [None, "SLSQP"],
}
HOT = ["control.default_dt", "control.squeeze_time_response", "control.squeeze_frequency_response",
       "forced_response.return_x", "statesp.remove_useless_states", "xferfcn.display_format",
       "iosys.repr_format", "iosys.converted_system_name_suffix", "iosys.duplicate_system_name_suffix",
       "iosys.state_name_delim", "freqplot.dB", "freqplot.number_of_samples"]


class Gen:
    def __init__(self, rng, tier):
        self.rng = rng
        self.tier = tier
        self.steps = []
        self.desc = {}          # slot -> descriptor
        self.n = 0
        self.dirty = False      # configuration differs from import state (approximately)
        self.aliases = []       # deprecated aliases defined: (old, new)
        self.probes = []        # (step, dirty_at_first)
        self.ntag = 0
        self.spec_of = {}       # slot -> constructor spec
        self.frd_omega = {}     # FRD slot -> (argument expression, values) of its frequency vector

    # ---------------------------------------------------------------- pool
    def fresh(self, prefix):
        self.n += 1
        return "%s%d" % (prefix, self.n)

    def emit(self, st):
        self.cur.append(st)

    def slots(self, pred):
        return [s for s, d in self.desc.items() if pred(d)]

    def pick(self, pred):
        c = self.slots(pred)
        return self.rng.choice(c) if c else None

    def new(self, kind, spec, desc, prefix=None):
        s = self.fresh(prefix or kind[0])
        self.emit(["new", s, kind, spec])
        self.spec_of[s] = spec
        d = dict(desc)
        d["k"] = kind
        self.desc[s] = d
        return s

    def out(self, desc):
        s = self.fresh("r")
        self.desc[s] = desc
        return s

    # ---------------------------------------------------------------- constructors
    def mat(self, r, c, lo=-2, hi=2):
        return [[float(self.rng.randint(lo, hi)) for _ in range(c)] for _ in range(r)]

    def new_arr(self, shape, vals=None, dtype="float64", plain=False, layout=None):
        """a caller-owned ndarray with the given content: a plain array or (about one in five) a
        view of a larger pool array (slice with guard cells, every second element, reshaped,
        transposed), so that writes through the argument and writes next to it are both seen.
        `layout` forces the memory layout of a 2-D array: "F" = column-major copy
        (np.asfortranarray), "T" = the transpose of a row-major pool array (the way a dual
        system is written: A.T), "slice" = non-contiguous window of a larger array"""
        rng = self.rng
        shape = tuple(shape)
        if vals is None:
            if len(shape) == 1:
                vals = [float(rng.randint(-3, 3)) for _ in range(shape[0])]
            else:
                vals = self.mat(shape[0], shape[1])
        if layout in ("T", "slice") and len(shape) == 2 and 0 not in shape:
            return self.new_view(shape, vals, dtype, how=layout)
        if layout == "F" and len(shape) == 2:
            return self.new("arr", {"v": vals, "dtype": dtype, "order": "F"},
                            {"shape": list(shape), "dtype": dtype, "order": "F"}, "a")
        if plain or 0 in shape or rng.random() >= 0.2:
            spec = {"v": vals, "dtype": dtype}
            if len(shape) == 2 and min(shape) > 1 and rng.random() < 0.1:
                spec["order"] = "F"
            return self.new("arr", spec, {"shape": list(shape), "dtype": dtype}, "a")
        return self.new_view(shape, vals, dtype)

    def new_view(self, shape, vals, dtype="float64", how=None):
        rng = self.rng
        pad = 9.0
        if how is not None:
            r, c = shape
        elif len(shape) == 1:
            n = shape[0]
            how = rng.choice(["slice", "slice", "stride", "reshape"])
            if how == "slice":
                base, spec = [pad] + list(vals) + [pad], {"how": "slice", "off": [1]}
            elif how == "stride":
                base, spec = [x for v in vals for x in (v, pad)], {"how": "stride"}
            else:
                base = [[v] for v in vals] if rng.random() < 0.5 else [list(vals)]
                spec = {"how": "reshape"}
        else:
            r, c = shape
            how = rng.choice(["slice", "T", "reshape"])
        if len(shape) == 2:
            if how == "slice":
                base = [list(row) + [pad] for row in vals] + [[pad] * (c + 1)]
                spec = {"how": "slice", "off": [0, 0]}
            elif how == "T":
                base, spec = [[vals[i][j] for i in range(r)] for j in range(c)], {"how": "T"}
            else:
                base, spec = [x for row in vals for x in row], {"how": "reshape"}
        b = self.new("arr", {"v": base, "dtype": dtype}, {"shape": None, "dtype": dtype, "base": True}, "b")
        spec.update({"base": ref(b), "shape": list(shape)})
        return self.new("view", spec, {"shape": list(shape), "dtype": dtype, "view": spec["how"]}, "v")

    def new_list(self, vals):
        """a caller-owned list (labels, indices, numbers, nested lists)"""
        return self.new("list", {"v": vals}, {}, "l")

    def new_dict(self, d):
        return self.new("dict", {"v": d}, {}, "d")

    def vec(self, n, vals=None, listok=True, col=True):
        """an argument expression for a vector the caller owns: float ndarray (plain or view),
        integer ndarray, column array, pool list, or a literal list"""
        rng = self.rng
        if vals is None:
            vals = [float(rng.randint(-3, 3)) for _ in range(n)]
        r = rng.random()
        if r < 0.55:
            return ref(self.new_arr((n,), vals))
        if r < 0.65 and col:
            return ref(self.new_arr((n, 1), [[v] for v in vals]))
        if r < 0.75 and all(float(v).is_integer() for v in vals):
            return ref(self.new_arr((n,), vals, dtype="int64"))
        if r < 0.75:
            return ref(self.new_arr((n,), vals))
        if not listok:
            return ref(self.new_arr((n,), vals, plain=True))
        if r < 0.88:
            return ref(self.new_list(list(vals)))
        return list(vals)

    def idx_list(self, idx):
        """index lists (iu / iy / ix / idx, elim, keep ...) as the caller may hold them"""
        r = self.rng.random()
        if r < 0.45:
            return list(idx)
        if r < 0.75:
            return ref(self.new_list(list(idx)))
        return ref(self.new_arr((len(idx),), [float(i) for i in idx], dtype="int64", plain=r < 0.9))

    def labels(self, prefix, n):
        """signal label lists: literal or owned by the caller"""
        lab = ["%s%d" % (prefix, i) for i in range(n)]
        return ref(self.new_list(lab)) if self.rng.random() < 0.6 else lab

    def stable_A(self, n):
        A = [[0.0] * n for _ in range(n)]
        for i in range(n):
            A[i][i] = -float(self.rng.randint(1, 4))
            if i + 1 < n and self.rng.random() < 0.6:
                A[i][i + 1] = float(self.rng.randint(-2, 2))
        return A

    A_FORMS = ["upper", "upper", "lower", "full", "full", "companion", "rot", "hess"]

    def state_A(self, n, form=None):
        """a stable state matrix with small integer entries in one of several *structures*.  The
        bidiagonal upper-triangular form of `stable_A` is already a real Schur form (and
        balanced, and Hessenberg): every in-place LAPACK reduction (eigenvalues, Schur, Hessenberg,
        LU without pivoting ...) leaves it as it is, so a routine that overwrites the matrix it is
        given cannot be seen on it.  Forms: upper / lower bidiagonal, full (L U L^-1 with a unit
        lower triangular integer L: same real eigenvalues), companion (of a polynomial with
        negative integer roots), rot (2x2 blocks [[-a, b], [-b, -a]]: complex poles), hess
        (upper triangular plus a sub-diagonal, rows scaled apart: balancing changes it)"""
        rng = self.rng
        U = self.stable_A(n)
        form = form or rng.choice(self.A_FORMS)
        if n == 1 or form == "upper":
            return U
        if form == "lower":
            return [[U[j][i] for j in range(n)] for i in range(n)]
        if form == "full":
            L = [[1.0 if i == j else (float(rng.randint(-1, 1)) if j < i else 0.0) for j in range(n)] for i in range(n)]
            if all(L[i][j] == 0 for i in range(n) for j in range(i)):
                L[n - 1][0] = 1.0
            Li = [[1.0 if i == j else 0.0 for j in range(n)] for i in range(n)]      # L^-1 by forward substitution
            for i in range(n):
                for j in range(i):
                    Li[i][j] = -sum(L[i][k] * Li[k][j] for k in range(j, i))
            mul = lambda X, Y: [[sum(X[i][k] * Y[k][j] for k in range(n)) for j in range(n)] for i in range(n)]
            return mul(mul(L, U), Li)
        if form == "companion":
            c = [1.0]
            for _ in range(n):                      # prod (s + r), r = 1..3
                r = float(rng.randint(1, 3))
                c = [a + r * b for a, b in zip(c + [0.0], [0.0] + c)]
            A = [[1.0 if j == i + 1 else 0.0 for j in range(n)] for i in range(n)]
            A[n - 1] = [-c[n - j] for j in range(n)]
            return A if rng.random() < 0.5 else [[A[j][i] for j in range(n)] for i in range(n)]
        if form == "rot":
            A = [[0.0] * n for _ in range(n)]
            i = 0
            while i < n:
                a = float(rng.randint(1, 3))
                if i + 1 < n:
                    b = float(rng.randint(1, 3))
                    A[i][i], A[i][i + 1], A[i + 1][i], A[i + 1][i + 1] = -a, b, -b, -a
                    if i + 2 < n and rng.random() < 0.6:
                        A[i + 1][i + 2] = float(rng.randint(-2, 2))
                    i += 2
                else:
                    A[i][i] = -a
                    i += 1
            return A
        # hess
        A = [row[:] for row in U]
        for i in range(1, n):
            A[i][i - 1] = float(rng.choice([-1, 1]))
            A[i - 1][i] = float(rng.choice([-2, -1, 1, 2])) * 4.0
        A[0][n - 1] = 8.0
        for i in range(n):                           # keep it stable: diagonally dominant in the columns
            A[i][i] = -(abs(A[i][i]) + sum(abs(A[k][i]) for k in range(n) if k != i))
        return A

    def scaled(self, A):
        """a discrete-time version of a matrix produced by `state_A` (spectral radius <= 4.25,
        except form "hess": Gershgorin bound over the columns)"""
        n = len(A)
        g = max(sum(abs(A[k][i]) for k in range(n)) for i in range(n))
        hess = n > 1 and A[0][n - 1] == 8.0
        sc = 5.0 if not hess else float(max(5, int(g * 1.25) + 1))
        return [[x / sc for x in r] for r in A]

    def rnd_dt(self):
        return self.rng.choice(["C"] * 7 + ["N", "N", "T", 0.1, 0.1, 0.5])

    # how the caller holds the four matrices of a state-space system: literal lists, pool arrays
    # (row-major, sometimes a view), pool arrays all in column-major order (np.asfortranarray),
    # the transposes of row-major pool arrays (a dual system: ss(A.T, C.T, B.T, D)), non-contiguous
    # windows of larger arrays.  np.array(..., dtype=float) in the constructor keeps the memory
    # order of its argument, so "F" and "T" give a system whose own matrices are column-major
    SS_VIA = ["lit", "lit", "lit", "arr", "arr", "F", "T", "slice"]

    def new_ss(self, p=None, m=None, dt=None, via=None, name=None, n=None, form=None):
        rng = self.rng
        if p is None:
            p, m = rng.choice([(1, 1)] * 5 + [(2, 2)] * 3 + [(1, 2), (2, 1)])
        n = n or rng.choice([1, 2, 2, 3])
        dt = self.rnd_dt() if dt is None else dt
        A, B, C = self.state_A(n, form), self.mat(n, m), self.mat(p, n)
        Dm = self.mat(p, m, 0, 1) if rng.random() < 0.5 else [[0.0] * m for _ in range(p)]
        if dt not in ("C", "N"):   # discrete: keep it stable-ish
            A = self.scaled(A)
        via = via or rng.choice(self.SS_VIA)
        if via == "arr":
            abcd = [ref(self.new_arr((n, n), A)), ref(self.new_arr((n, m), B)),
                    ref(self.new_arr((p, n), C)), ref(self.new_arr((p, m), Dm))]
        elif via in ("F", "T", "slice"):
            abcd = [ref(self.new_arr((n, n), A, layout=via)), ref(self.new_arr((n, m), B, layout=via)),
                    ref(self.new_arr((p, n), C, layout=via)), ref(self.new_arr((p, m), Dm, layout=via))]
        else:
            abcd = [A, B, C, Dm]
        spec = {"abcd": abcd}
        if dt != "C" or rng.random() < 0.3:
            spec["dt"] = dt
        kw = {}
        if name or rng.random() < 0.2:
            kw["name"] = name or self.fresh("S")
        if rng.random() < 0.12:
            for key, pre, cnt in rng.sample([("inputs", "u_", m), ("outputs", "y_", p), ("states", "x_", n)],
                                            rng.choice([1, 2, 3])):
                kw[key] = self.labels(pre, cnt)
        if kw:
            spec["kw"] = kw
        return self.new("ss", spec, {"p": p, "m": m, "n": n, "dt": dt, "name": kw.get("name"), "via": via}, "s")

    def poly(self, deg, pos=False):
        rng = self.rng
        c = [float(rng.randint(1, 4) if pos else rng.randint(-3, 3)) for _ in range(deg + 1)]
        if c[0] == 0:
            c[0] = 1.0
        return c

    def new_tf(self, p=None, m=None, dt=None, name=None):
        rng = self.rng
        if p is None:
            p, m = rng.choice([(1, 1)] * 6 + [(2, 2)] * 2 + [(1, 2), (2, 1)])
        dt = self.rnd_dt() if dt is None else dt
        def ent():
            dd = rng.choice([1, 2, 2, 3])
            return self.poly(rng.randint(0, dd)), self.poly(dd, pos=True)
        if p == 1 and m == 1:
            num, den = ent()
            if rng.random() < 0.3:
                num, den = ref(self.new_arr((len(num),), num)), ref(self.new_arr((len(den),), den))
        else:
            es = [[ent() for _ in range(m)] for _ in range(p)]
            num = [[e[0] for e in r] for r in es]
            den = [[e[1] for e in r] for r in es]
        spec = {"num": num, "den": den}
        if dt != "C" or rng.random() < 0.3:
            spec["dt"] = dt
        kw = {}
        if name or rng.random() < 0.2:
            kw["name"] = name or self.fresh("G")
        if rng.random() < 0.1:
            kw["inputs"] = self.labels("u_", m)
        if rng.random() < 0.1:
            kw["outputs"] = self.labels("y_", p)
        if kw:
            spec["kw"] = kw
        return self.new("tf", spec, {"p": p, "m": m, "dt": dt, "name": kw.get("name")}, "g")

    def new_tf_objarr(self):
        """TransferFunction(num, den) with 2-D object arrays that live in the pool"""
        rng = self.rng
        p, m = rng.choice([(1, 1), (1, 1), (1, 2), (2, 2)])
        def coeffs(lead0, zero=False):
            c = self.poly(rng.randint(1, 2), pos=True)
            if zero:
                c = [0.0] * len(c)
            return ([0.0] * lead0) + c
        num = [[coeffs(rng.choice([0, 0, 1, 2]), rng.random() < 0.15) for _ in range(m)] for _ in range(p)]
        den = [[coeffs(rng.choice([0, 0, 1])) for _ in range(m)] for _ in range(p)]
        sn = self.new("oarr", {"v": num}, {"shape": [p, m]}, "o")
        sd = self.new("oarr", {"v": den}, {"shape": [p, m]}, "o")
        r = self.out({"k": "tf", "p": p, "m": m, "dt": "C"})
        self.emit(["op", r, "TransferFunction", [ref(sn), ref(sd)], {}])
        return r

    # frequency vectors as a caller may hold them.  The FRD constructor keeps the vector it is given
    # (measurements listed from high to low frequency, or in the order they were taken, are legal
    # FRD objects), and every function that takes `omega` accepts any order: an in-place sort /
    # unique / reversal of such a vector is a no-op on an increasing one, so increasing vectors
    # alone cannot show it
    FREQ_ORDERS = ["asc", "asc", "desc", "desc", "shuf"]
    FREQ_HOLD = ["lit", "lit", "arr", "arr", "view", "list", "int"]

    def freq_vals(self, n=None, order=None, ints=False):
        rng = self.rng
        n = n or rng.choice([3, 4, 5])
        grid = [1.0, 2.0, 3.0, 5.0, 10.0, 20.0, 50.0] if ints else [0.1, 0.5, 1.0, 2.0, 3.0, 5.0, 10.0]
        om = sorted(rng.sample(grid, n))
        order = order or rng.choice(self.FREQ_ORDERS)
        if order == "desc":
            om.reverse()
        elif order == "shuf":
            asc, desc = list(om), list(reversed(om))
            for _ in range(8):
                rng.shuffle(om)
                if om != asc and om != desc:
                    break
            else:
                om = [asc[1], asc[0]] + asc[2:]
        return om

    def freq_vec(self, n=None, order=None, hold=None, vals=None):
        """(argument expression, values) of a frequency vector: increasing, decreasing or in no
        order; a literal list, a float array, a view with guard cells on both sides, a caller-owned
        list or an integer array"""
        rng = self.rng
        hold = hold or rng.choice(self.FREQ_HOLD)
        om = list(vals) if vals is not None else self.freq_vals(n, order, ints=hold == "int")
        if hold == "int" and not all(float(v).is_integer() for v in om):
            hold = "arr"
        if hold == "lit":
            return list(om), om
        if hold == "list":
            return ref(self.new_list(list(om))), om
        if hold == "int":
            return ref(self.new_arr((len(om),), om, dtype="int64", plain=True)), om
        if hold == "view":
            return ref(self.new_view((len(om),), om)), om
        return ref(self.new_arr((len(om),), om, plain=True)), om

    def new_frd(self, order=None, hold=None, p=1, m=1, smooth=None, name=None, omega=None):
        """FRD from response data and a frequency vector (SISO: 1-D data, MIMO: p x m x n data,
        row- or column-major); the frequency vector in any order (see `freq_vec`), or (`omega`) an
        argument expression another FRD was built from (two systems on one caller-owned grid)"""
        rng = self.rng
        if omega is not None:
            om, vals = omega
        else:
            om, vals = self.freq_vec(order=order, hold=hold)
        n = len(vals)
        if (p, m) == (1, 1):
            data = [float(rng.randint(-3, 3)) or 1.0 for _ in range(n)]
            d = ref(self.new_arr((n,), data)) if rng.random() < 0.4 else data
        else:
            data = [[[float(rng.randint(-3, 3)) or 1.0 for _ in range(n)] for _ in range(m)] for _ in range(p)]
            if rng.random() < 0.5:
                spec = {"v": data, "dtype": "float64"}
                if rng.random() < 0.4:
                    spec["order"] = "F"
                d = ref(self.new("arr", spec, {"shape": [p, m, n], "dtype": "float64"}, "a"))
            else:
                d = data
        spec = {"data": d, "omega": om}
        kw = {}
        asc = vals == sorted(vals)
        if smooth is None:
            smooth = asc and rng.random() < 0.15
        if smooth:
            kw["smooth"] = True
        if name or rng.random() < 0.2:
            kw["name"] = name or self.fresh("F")
        if kw:
            spec["kw"] = kw
        s = self.new("frd", spec, {"p": p, "m": m, "dt": "C", "omega": list(vals), "sorted": asc,
                                   "name": kw.get("name")}, "f")
        self.frd_omega[s] = (om, list(vals))
        return s

    def new_nl(self, static, kind=None):
        rng = self.rng
        kind = kind or ("nls" if static else "nld")
        params = {k: float(rng.randint(1, 3)) for k in rng.sample(["a", "b", "c"], rng.randint(0, 2))}
        kw = {"name": self.fresh("N")} if rng.random() < 0.3 else {}
        spec = {"params": params}
        if rng.random() < 0.25:          # the caller keeps the parameter dictionary
            spec = {"pref": ref(self.new_dict(params))}
        n, m, p = {"nls": (0, 1, 1), "nld": (1, 1, 1), "nld2": (2, 1, 2)}[kind]
        if rng.random() < 0.15:
            kw["inputs"] = self.labels("u_", m)
        if rng.random() < 0.15:
            kw["outputs"] = self.labels("y_", p)
        if kw:
            spec["kw"] = kw
        return self.new(kind, spec, {"p": p, "m": m, "dt": "C", "n": n, "name": kw.get("name")}, "n")

    # ---------------------------------------------------------------- selection helpers
    def is_lti(self, d):
        return d["k"] in ("ss", "tf", "frd")

    def sys_any(self, kinds=("ss", "tf"), siso=None, make=True, dt=None):
        def pred(d):
            return d["k"] in kinds and (siso is None or ((d["p"], d["m"]) == (1, 1)) == siso) \
                and (dt is None or d["dt"] in dt)
        s = self.pick(pred)
        if s is None or (make and self.rng.random() < 0.15):
            k = self.rng.choice([x for x in kinds])
            shape = (1, 1) if siso else (None, None) if siso is None else (2, 2)
            ddt = None if dt is None else self.rng.choice(list(dt))
            if k == "ss":
                s = self.new_ss(shape[0], shape[1], dt=ddt)
            elif k == "tf":
                s = self.new_tf(shape[0], shape[1], dt=ddt)
            elif k == "frd":
                if siso is False or (siso is None and self.rng.random() < 0.15):
                    s = self.new_frd(p=2, m=2)
                else:
                    s = self.new_frd()
            else:
                s = self.new_nl(k == "nls", kind=k)
        return s

    def partner(self, a):
        """a system compatible with `a` for + - (same shape, compatible kind / timebase mostly).
        An FRD gets a TransferFunction / StateSpace partner half of the time (the FRD operators
        re-sample the other operand on their own frequency grid), another FRD on the *same*
        caller-owned grid, another FRD from the pool or itself otherwise; a TransferFunction /
        StateSpace gets an FRD partner now and then"""
        da = self.desc[a]
        rng = self.rng
        shape = (da["p"], da["m"])
        if da["k"] == "frd":
            r = rng.random()
            if r < 0.5:
                c = self.slots(lambda d: d["k"] in ("ss", "tf") and (d["p"], d["m"]) == shape
                               and d["dt"] in ("C", "N"))
                if c and rng.random() < 0.6:
                    return rng.choice(c)
                dt = rng.choice(["C", "C", "N"])
                return self.new_ss(shape[0], shape[1], dt=dt) if rng.random() < 0.5 else \
                    self.new_tf(shape[0], shape[1], dt=dt)
            if r < 0.7 and a in self.frd_omega:
                return self.new_frd(p=shape[0], m=shape[1], omega=self.frd_omega[a])
            c = self.slots(lambda d: d["k"] == "frd" and (d["p"], d["m"]) == shape)
            return rng.choice(c) if c and r < 0.9 else a
        if rng.random() < 0.12 and da["dt"] in ("C", "N"):
            c = self.slots(lambda d: d["k"] == "frd" and (d["p"], d["m"]) == shape)
            if c:
                return rng.choice(c)
            if shape == (1, 1) or rng.random() < 0.5:
                return self.new_frd(p=shape[0], m=shape[1])
        kinds = ("ss", "tf")
        c = self.slots(lambda d: d["k"] in kinds and (d["p"], d["m"]) == shape)
        if c and rng.random() < 0.8:
            return rng.choice(c)
        dt = da["dt"] if rng.random() < 0.7 else None
        return self.new_ss(da["p"], da["m"], dt=dt) if rng.random() < 0.5 else self.new_tf(da["p"], da["m"], dt=dt)

    def res_desc(self, a, b=None, p=None, m=None):
        da = self.desc[a]
        k = da["k"]
        if b is not None and b in self.desc and self.desc[b]["k"] == "ss" and k == "tf":
            k = "ss"
        d = {"k": k, "p": da["p"] if p is None else p, "m": da["m"] if m is None else m,
             "dt": da["dt"], "n": da.get("n", 1)}
        fr = da if k == "frd" else (self.desc[b] if b is not None and b in self.desc and self.desc[b]["k"] == "frd" else None)
        if fr is not None:
            d["k"] = "frd"
            d["omega"] = list(fr.get("omega") or [0.1, 1.0, 10.0])
        return d

    def time_vec(self, dt=None):
        n = self.rng.choice([3, 5, 6])
        h = 0.1 if dt in ("C", "N", "T", None) else dt
        if dt == "T":
            h = 1.0
        T = [round(i * h, 10) for i in range(n)]
        return self.new_arr((n,), T), n

    # ---------------------------------------------------------------- operation steps
    # scalar operands: the identity elements (0 for + -, 1 for * /) are where an operator can be
    # tempted to hand back its operand instead of a new system
    SCALARS = [0, 0, 0.0, 1, 1, 1.0, -1, 2, 2.0, 0.5, 3]

    def scalar(self):
        return self.rng.choice(self.SCALARS)

    def op_arith(self):
        rng = self.rng
        a = self.sys_any(("ss", "tf", "frd"))
        da = self.desc[a]
        r = rng.random()
        op = rng.choice(["add", "sub", "mul", "mul"])
        if r < 0.6:
            b = self.partner(a)
            if op == "mul" and da["p"] != da["m"]:
                op = "add"
            args = [ref(a), ref(b)]
            if rng.random() < 0.3:
                args.reverse()
            desc = self.res_desc(a, b)
        elif r < 0.8:
            c = self.scalar()
            if rng.random() < 0.5:      # the identity element of the operator
                op, c = rng.choice([("add", 0), ("add", 0.0), ("sub", 0), ("mul", 1), ("mul", 1.0)])
            args = [ref(a), c] if rng.random() < 0.5 else [c, ref(a)]
            desc = self.res_desc(a)
        else:
            shape = (da["p"], da["m"]) if op != "mul" else (da["m"], da["m"])
            arr = self.new_arr(shape)
            args = [ref(a), ref(arr)] if (rng.random() < 0.5 or op == "mul") else [ref(arr), ref(a)]
            desc = self.res_desc(a)
        self.emit(["op", self.out(desc), op, args, {}])

    def op_div(self):
        rng = self.rng
        if rng.random() < 0.3:             # a quotient with an FRD on either side
            a = self.sys_any(("frd",), siso=True)
            r = rng.random()
            if r < 0.7:
                b = self.partner(a)
                args = [ref(a), ref(b)] if rng.random() < 0.6 else [ref(b), ref(a)]
            else:
                c = rng.choice([2, 2.0, 0.5, 1, 1.0, -1])
                args = [ref(a), c] if rng.random() < 0.5 else [c, ref(a)]
            self.emit(["op", self.out(self.res_desc(a)), "div", args, {}])
            return
        a = self.sys_any(("tf", "ss"), siso=True)
        if self.rng.random() < 0.5:
            b = self.sys_any(("tf",), siso=True)
            self.emit(["op", self.out(self.res_desc(a)), "div", [ref(a), ref(b)], {}])
        else:
            self.emit(["op", self.out(self.res_desc(a)), "div", [ref(a), self.rng.choice([2, 2.0, 0.5, 1, 1.0, -1])], {}])

    def op_unary(self):
        rng = self.rng
        r = rng.random()
        if r < 0.4:
            a = self.sys_any(("ss", "tf", "frd"))
            self.emit(["op", self.out(self.res_desc(a)), "neg", [ref(a)], {}])
        elif r < 0.7:
            a = self.sys_any(("tf", "ss"), siso=True)
            self.emit(["op", self.out(self.res_desc(a)), "pow", [ref(a), rng.choice([-1, 0, 1, 2, 3])], {}])
        else:
            a = self.sys_any(("ss", "tf"), siso=False)
            da = self.desc[a]
            self.emit(["op", self.out(self.res_desc(a, p=1, m=1)), "getitem",
                       [ref(a), rng.randrange(da["p"]), rng.randrange(da["m"])], {}])

    def op_append(self):
        rng = self.rng
        # timebases chosen to differ often: None / True against a sampling time
        if rng.random() < 0.15:           # FRD.append / append(FRD, ...): the other operand is re-sampled
            a = self.sys_any(("frd",))
            da = self.desc[a]
            b = self.partner(a) if rng.random() < 0.6 else self.sys_any(("ss", "tf"), dt=("C", "N"))
            db = self.desc[b]
            self.emit(["op", self.out(self.res_desc(a, p=da["p"] + db["p"], m=da["m"] + db["m"])),
                       rng.choice(["m_append", "append"]), [ref(a), ref(b)], {}])
            return
        a = self.sys_any(("ss", "tf"), dt=rng.choice([None, None, ("N", "T"), ("N",), ("C",)]))
        da = self.desc[a]
        kinds = ("ss", "tf") if da["k"] == "ss" else ("tf",)
        dtb = rng.choice([None, (0.1,), (0.1, 0.5), (da["dt"],)])
        b = self.sys_any(kinds, dt=dtb)
        db = self.desc[b]
        self.emit(["op", self.out(self.res_desc(a, p=da["p"] + db["p"], m=da["m"] + db["m"])), "m_append",
                   [ref(a), ref(b)], {}])

    def op_feedback(self):
        rng = self.rng
        a = self.sys_any(("ss", "tf", "frd"), siso=True)
        da = self.desc[a]
        b = self.partner(a) if rng.random() < 0.7 else None
        sign = rng.choice([-1, -1, 1])
        kw = {}
        if rng.random() < 0.25:
            kw["name"] = self.fresh("FB")
        other = ref(b) if b else self.scalar()
        r = rng.random()
        if r < 0.12:                  # scalar (or 1x1 array) as the FIRST system
            first = self.scalar() if rng.random() < 0.7 else ref(self.new_arr((1, 1), [[float(rng.randint(1, 3))]]))
            if rng.random() < 0.4:
                for key, lab in rng.sample([("inputs", ["fi"]), ("outputs", ["fo"])], rng.choice([1, 2])):
                    kw[key] = lab
            self.emit(["op", self.out(self.res_desc(a)), "feedback", [first, ref(a), sign], kw])
        elif r < 0.55:
            args = [ref(a), other, sign]
            self.emit(["op", self.out(self.res_desc(a, b)), "feedback", args, kw])
        else:
            self.emit(["op", self.out(self.res_desc(a, b)), "m_feedback", [ref(a), other, sign], {}])

    def op_bdalg(self):
        rng = self.rng
        fn = rng.choice(["series", "parallel", "append", "negate", "series", "parallel", "append"])
        a = self.sys_any(("ss", "tf", "frd") if fn != "append" else ("ss", "tf"))
        da = self.desc[a]
        kw = {}
        if rng.random() < 0.6:
            kw["name"] = self.fresh("Q")
        if fn == "negate":
            self.emit(["op", self.out(self.res_desc(a)), "negate", [ref(a)], kw])
            return
        nsys = rng.choice([1, 1, 2, 2, 3])
        # operands of mixed kinds (the functions accept "scalar, array, or InputOutputSystem"), in
        # any order: a scalar or array may come first
        mixed = rng.random() < 0.35
        if mixed:
            nsys = rng.choice([2, 2, 2, 3])
        args = [ref(a)]
        p, m = da["p"], da["m"]
        for _ in range(nsys - 1):
            r = rng.random()
            if mixed and r < 0.65:
                ident = {"parallel": [0, 0, 0.0], "series": [1, 1, 1.0]}.get(fn)
                args.append(rng.choice(ident) if ident and rng.random() < 0.5 else self.scalar())
                if fn == "append":
                    p, m = p + 1, m + 1
                continue
            if mixed and r < 0.85 and fn != "append" and (fn == "parallel" or p == m):
                args.append(ref(self.new_arr((p, m))))
                continue
            if fn == "append":
                b = self.sys_any(("ss", "tf") if da["k"] == "ss" else ("tf",))
                p, m = p + self.desc[b]["p"], m + self.desc[b]["m"]
            else:
                b = self.partner(a)
                if fn == "series" and da["p"] != da["m"]:
                    fn = "parallel"
            args.append(ref(b))
        if mixed and rng.random() < 0.6:
            rng.shuffle(args)
        pl = 0.45 if mixed else 0.2
        if rng.random() < pl:
            kw["inputs"] = ["in%d" % i for i in range(m)]
        if rng.random() < pl:
            kw["outputs"] = ["out%d" % i for i in range(p)]
        if rng.random() < 0.08 and da["k"] == "ss" and len(args) == 2 and mixed:
            kw["states"] = ["st%d" % i for i in range(da.get("n") or 1)]
        self.emit(["op", self.out(self.res_desc(a, p=p, m=m)), fn, args, kw])

    def op_sum(self):
        """the builtin sum() over systems: starts with `0 + sys` (or with a given start value)"""
        rng = self.rng
        a = self.sys_any(("ss", "tf", "frd"))
        items = [ref(a)] + [ref(self.partner(a)) for _ in range(rng.choice([0, 1, 1, 2]))]
        lst = {"lst": items} if rng.random() < 0.6 else ref(self.new("list", {"v": items}, {}, "l"))
        args = [lst]
        if rng.random() < 0.3:
            args.append(rng.choice([0, 0.0, 1, ref(self.partner(a))]))
        self.emit(["op", self.out(self.res_desc(a)), "sum", args, {}])

    def op_nlarith(self):
        """operators and block-diagram functions with a nonlinear system among the operands
        (scalars, 1x1 arrays, linear and nonlinear partners, either order)"""
        rng = self.rng
        a = self.sys_any(("nls", "nld"))
        fn = rng.choice(["add", "sub", "mul", "mul", "neg", "series", "parallel", "negate", "feedback"])
        desc = {"k": "nlx", "p": 1, "m": 1, "dt": "C"}
        kw = {}
        if fn in ("neg", "negate"):
            if fn == "negate" and rng.random() < 0.5:
                kw["name"] = self.fresh("NQ")
            self.emit(["op", self.out(desc), fn, [ref(a)], kw])
            return
        r = rng.random()
        if r < 0.4:
            b = self.scalar()
        elif r < 0.5:
            b = ref(self.new_arr((1, 1), [[float(rng.randint(-2, 3))]]))
        elif r < 0.8:
            b = ref(self.sys_any(("ss", "tf"), siso=True, dt=("C",)))
        else:
            b = ref(self.sys_any(("nls", "nld")))
        args = [ref(a), b]
        if rng.random() < 0.5:
            args.reverse()
        if fn in ("series", "parallel", "feedback"):
            if rng.random() < 0.5:
                kw["name"] = self.fresh("NQ")
            if rng.random() < 0.3:
                kw["inputs"] = ["ni"]
            if rng.random() < 0.3:
                kw["outputs"] = ["no"]
        self.emit(["op", self.out(desc), fn, args, kw])

    def op_rename(self):
        """the caller renames / relabels a *result* with the documented in-place method
        `update_names`; no operand of the operation that produced the result may change with it
        (an operator that hands back its operand is seen here whatever keywords were used).  The
        result is used by nothing else: it is renamed straight away and then retired."""
        rng = self.rng
        producer = rng.choice(["op_arith"] * 4 + ["op_bdalg"] * 4 + ["op_unary"] * 3 + ["op_sum"] * 2 +
                              ["op_feedback", "op_div", "op_nlarith", "op_convert", "op_transform"])
        mark = len(self.cur)
        getattr(self, producer)()
        if len(self.cur) == mark:
            return
        st = self.cur[-1]
        if st[0] != "op" or st[1] is None or st[1] not in self.desc:
            return
        d = self.desc.pop(st[1])
        if d.get("k") not in ("ss", "tf", "frd", "nlx"):
            return
        kw = {"name": self.fresh("R")} if rng.random() < 0.8 else {}
        if rng.random() < 0.4 and "m" in d:
            kw["inputs"] = ["ri%d" % i for i in range(d["m"])]
        if rng.random() < 0.4 and "p" in d:
            kw["outputs"] = ["ro%d" % i for i in range(d["p"])]
        if not kw:
            kw["name"] = self.fresh("R")
        self.emit(["op", None, "update_names", [ref(st[1])], kw])

    def op_connect(self):
        a = self.sys_any(("ss",), siso=False)
        da = self.desc[a]
        if (da["p"], da["m"]) != (2, 2):
            a = self.new_ss(2, 2)
        Q = self.new_arr((1, 2), [[1.0, 2.0]], dtype="int64") if self.rng.random() < 0.5 else [[1, 2]]
        Q = ref(Q) if isinstance(Q, str) else Q
        self.emit(["op", self.out(self.res_desc(a, p=1, m=1)), "connect", [ref(a), Q, [2], [1]], {}])

    def op_convert(self):
        rng = self.rng
        fn = rng.choice(["ss2tf", "tf2ss", "ss", "tf", "frd", "nlsys_of", "c2d", "m_sample", "m_to_ss", "m_to_tf",
                         "m_copy", "combine_tf", "split_tf", "pade", "zpk"])
        kw = {}
        if rng.random() < 0.35:
            kw["name"] = self.fresh("K")
        if fn in ("ss2tf", "tf", "m_to_tf"):
            a = self.sys_any(("ss",) if fn == "ss2tf" else ("ss", "tf"))
            if fn == "tf" and rng.random() < 0.3:
                kw["inputs"] = ["w%d" % i for i in range(self.desc[a]["m"])]
            if fn == "m_to_tf":
                kw = {}
            d = self.res_desc(a); d["k"] = "tf"
            self.emit(["op", self.out(d), fn, [ref(a)], kw])
        elif fn in ("tf2ss", "ss", "m_to_ss"):
            a = self.sys_any(("tf",) if fn == "tf2ss" else ("ss", "tf"))
            if fn == "ss" and rng.random() < 0.3:
                kw["outputs"] = ["z%d" % i for i in range(self.desc[a]["p"])]
            if fn == "m_to_ss":
                kw = {}
            d = self.res_desc(a); d["k"] = "ss"; d["n"] = 2
            self.emit(["op", self.out(d), fn, [ref(a)], kw])
        elif fn == "frd":
            if rng.random() < 0.2:         # frd(F): the copy constructor (shares the arrays of F)
                a = self.sys_any(("frd",))
                self.emit(["op", self.out(dict(self.desc[a])), "frd", [ref(a)], {}])
                return
            a = self.sys_any(("ss", "tf"))
            om, omega = self.freq_vec()
            d = self.res_desc(a); d["k"] = "frd"; d["omega"] = sorted(omega)
            if rng.random() < 0.2:
                kw["smooth"] = True
            self.emit(["op", self.out(d), "frd", [ref(a), om], kw])
        elif fn == "nlsys_of":
            a = self.sys_any(("ss",))
            d = self.res_desc(a); d["k"] = "nlx"
            self.emit(["op", self.out(d), "nlsys_of", [ref(a)], kw])
        elif fn in ("c2d", "m_sample"):
            a = self.sys_any(("ss", "tf"), dt=("C",), siso=True if rng.random() < 0.7 else None)
            d = self.res_desc(a); d["dt"] = 0.1
            self.emit(["op", self.out(d), fn, [ref(a), 0.1, rng.choice(["zoh", "bilinear", "euler"])], {}])
        elif fn == "m_copy":
            a = self.sys_any(("ss", "tf", "frd", "nls", "nld"))
            self.emit(["op", self.out(dict(self.desc[a])), "m_copy", [ref(a)], kw])
        elif fn == "combine_tf":
            a = self.sys_any(("tf",), siso=True)
            b = self.sys_any(("tf",), siso=True)
            self.emit(["op", self.out(self.res_desc(a, m=2)), "combine_tf", [ref(a), ref(b)], {}])
        elif fn == "split_tf":
            a = self.sys_any(("tf",))
            self.emit(["op", None, "split_tf", [ref(a)], {}])
        elif fn == "pade":
            self.emit(["op", None, "pade", [rng.choice([0.1, 1.0]), rng.choice([1, 2, 3])], {}])
        else:
            z = ref(self.new_arr((1,), [-1.0])) if rng.random() < 0.5 else [-1.0]
            p = ref(self.new_arr((2,), [-2.0, -3.0])) if rng.random() < 0.5 else [-2.0, -3.0]
            self.emit(["op", self.out({"k": "tf", "p": 1, "m": 1, "dt": "C"}), "zpk", [z, p, 2.0], kw])

    def op_eval(self):
        rng = self.rng
        fn = rng.choice(["m_call", "evalfr", "m_freqresp", "frequency_response", "dcgain", "m_dcgain", "poles",
                         "m_poles", "zeros", "m_zeros", "damp", "m_damp", "isctime", "m_isctime", "issiso",
                         "m_issiso", "m_scipy", "str", "repr", "latex", "str", "repr"])
        if fn in ("m_call", "evalfr"):
            a = self.sys_any(("ss", "tf", "frd"))
            x = rng.choice([1.0, {"cplx": [0.0, 1.0]}, {"cplx": [0.5, 2.0]}, 0])
            if self.desc[a]["k"] == "frd":
                x = {"cplx": [0.0, rng.choice(self.desc[a].get("omega") or [1.0])]}
            self.emit(["op", None, fn, [ref(a), x], {}])
        elif fn in ("m_freqresp", "frequency_response"):
            a = self.sys_any(("ss", "tf", "frd"))
            da = self.desc[a]
            if da["k"] == "frd" and "omega" in da:      # an FRD is evaluated at (some of) its own frequencies
                omega = list(da["omega"])
                if rng.random() < 0.5:
                    omega = omega[:2]
                elif rng.random() < 0.5:
                    rng.shuffle(omega)
                om, omega = self.freq_vec(vals=omega)
            else:
                om, omega = self.freq_vec()
            kw = {"squeeze": rng.choice([True, False])} if fn == "frequency_response" and rng.random() < 0.3 else {}
            self.emit(["op", self.out({"k": "resp", "rk": "freq"}), fn, [ref(a), om], kw])
        elif fn in ("str", "repr", "latex"):
            a = self.sys_any(("ss", "tf", "frd", "nls", "nld") if fn != "latex" else ("ss", "tf"))
            self.emit(["op", None, fn, [ref(a)], {}])
        elif fn == "m_scipy":
            a = self.sys_any(("ss", "tf"))
            self.emit(["op", None, fn, [ref(a)], {}])
        else:
            a = self.sys_any(("ss", "tf"))
            self.emit(["op", None, fn, [ref(a)], {}])

    def op_margins(self):
        rng = self.rng
        fn = rng.choice(["stability_margins", "margin", "phase_crossover_frequencies", "bandwidth", "norm", "norm",
                         "step_info"])
        if fn == "norm":
            a = self.sys_any(("ss", "tf"), dt=("C",))
            self.emit(["op", None, "norm", [ref(a), rng.choice([2, "inf"])], {}])
        elif fn == "step_info":
            a = self.sys_any(("ss", "tf"), siso=True, dt=("C",))
            self.emit(["op", None, "step_info", [ref(a)], {}])
        else:
            a = self.sys_any(("tf", "ss") if fn != "phase_crossover_frequencies" else ("tf",), siso=True)
            self.emit(["op", None, fn, [ref(a)], {}])

    def op_matrix(self):
        rng = self.rng
        n = rng.choice([2, 2, 3])
        lay = rng.choice([None, None, None, "F", "T"])       # the caller's matrix may be column-major
        A = self.new_arr((n, n), self.state_A(n), layout=lay)
        B = self.new_arr((n, 1), [[1.0]] + [[0.0]] * (n - 1)) if rng.random() < 0.5 else self.new_arr((n, 1))
        eye = [[1.0 if i == j else 0.0 for j in range(n)] for i in range(n)]
        fn = rng.choice(["ctrb", "obsv", "lyap", "dlyap", "lqr_abqr", "place", "acker", "lqr", "dlqr", "lqe",
                         "care", "dare"])
        if fn in ("dlqr", "lqe", "care", "dare"):
            if fn in ("dlqr", "dare"):
                A = self.new_arr((n, n), self.scaled(self.state_A(n)), layout=lay)
            Q = self.new_arr((n, n), eye)
            R = self.new_arr((1, 1), [[1.0]])
            if fn == "lqe":
                C = self.new_arr((1, n), [[1.0] + [0.0] * (n - 1)])
                self.emit(["op", None, fn, [ref(A), ref(B), ref(C), ref(R), ref(self.new_arr((1, 1), [[2.0]]))], {}])
            else:
                self.emit(["op", None, fn, [ref(A), ref(B), ref(Q), ref(R)], {}])
            return
        if fn == "ctrb":
            self.emit(["op", None, "ctrb", [ref(A), ref(B)], {}])
        elif fn == "obsv":
            C = self.new_arr((1, n))
            self.emit(["op", None, "obsv", [ref(A), ref(C)], {}])
        elif fn in ("lyap", "dlyap"):
            Q = self.new_arr((n, n), eye)
            if fn == "dlyap":
                A = self.new_arr((n, n), self.scaled(self.state_A(n)), layout=lay)
            self.emit(["op", None, fn, [ref(A), ref(Q)], {}])
        elif fn == "lqr_abqr":
            Q = self.new_arr((n, n), eye)
            R = self.new_arr((1, 1), [[1.0]])
            self.emit(["op", None, fn, [ref(A), ref(B), ref(Q), ref(R)], {}])
        elif fn == "lqr":
            s = self.sys_any(("ss",), siso=True, dt=("C",))
            ns = self.desc[s].get("n")
            if ns is None:
                return
            Q = self.new_arr((ns, ns), [[1.0 if i == j else 0.0 for j in range(ns)] for i in range(ns)])
            R = self.new_arr((1, 1), [[1.0]])
            self.emit(["op", None, "lqr", [ref(s), ref(Q), ref(R)], {}])
        else:
            poles = [-1.0 - i for i in range(n)]
            pl = ref(self.new_arr((n,), poles)) if rng.random() < 0.5 else poles
            self.emit(["op", None, fn, [ref(A), ref(B), pl], {}])

    def transform_T(self, n):
        """an invertible transformation matrix: unit upper bidiagonal (keeps a triangular A
        triangular) or the product of a unit lower and a unit upper triangular matrix (det 1,
        fills A in)"""
        rng = self.rng
        T = [[1.0 if i == j else (0.5 if j == i + 1 else 0.0) for j in range(n)] for i in range(n)]
        if n > 1 and rng.random() < 0.6:
            L = [[1.0 if i == j else (float(rng.choice([-1, 1, 1, 0])) if j < i else 0.0) for j in range(n)]
                 for i in range(n)]
            L[n - 1][0] = L[n - 1][0] or 1.0
            T = [[sum(L[i][k] * T[k][j] for k in range(n)) for j in range(n)] for i in range(n)]
        return T

    def op_transform(self):
        rng = self.rng
        a = self.pick(lambda d: d["k"] == "ss" and d.get("n") is not None and "abcd" not in d) or self.new_ss()
        da = self.desc[a]
        n = da.get("n") or 2
        fn = rng.choice(["similarity_transform", "canonical_form", "minreal", "m_minreal", "modred"])
        if fn == "similarity_transform":
            self.emit(["op", self.out(self.res_desc(a)), fn, [ref(a), ref(self.new_arr((n, n), self.transform_T(n)))], {}])
        elif fn == "canonical_form":
            self.emit(["op", None, fn, [ref(a), rng.choice(["reachable", "observable", "modal"])], {}])
        elif fn == "modred":
            el = [n - 1]
            self.emit(["op", self.out(self.res_desc(a)), fn,
                       [ref(a), ref(self.new_arr((1,), el, dtype="int64")) if rng.random() < 0.5 else el,
                        rng.choice(["truncate", "matchdc"])], {}])
        else:
            b = self.sys_any(("ss", "tf"))
            self.emit(["op", self.out(self.res_desc(b)), fn, [ref(b)], {}])

    def time_arg(self, dt=None):
        """time vector as a caller-owned array (plain / view) or list"""
        n = self.rng.choice([3, 5, 6])
        h = 0.1 if dt in ("C", "N", "T", None) else dt
        if dt == "T":
            h = 1.0
        T = [round(i * h, 10) for i in range(n)]
        if self.rng.random() < 0.12:
            return ref(self.new_list(T)), n
        return ref(self.new_arr((n,), T)), n

    def op_time(self):
        rng = self.rng
        fn = rng.choice(["step_response", "impulse_response", "initial_response", "forced_response",
                         "forced_response", "input_output_response"])
        kinds = ("ss", "tf") if fn not in ("initial_response", "input_output_response") else ("ss",)
        a = self.sys_any(kinds)
        da = self.desc[a]
        T, nt = self.time_arg(da["dt"])
        kw = {}
        if rng.random() < 0.25:
            kw["squeeze"] = rng.choice([True, False])
        if rng.random() < 0.2 and fn == "forced_response":
            kw["return_x"] = rng.choice([True, False])
        if rng.random() < 0.15:
            kw["transpose"] = True
        if fn in ("step_response", "impulse_response"):
            args = [ref(a), T] if rng.random() < 0.7 else [ref(a)]
            if fn == "step_response" and da["k"] == "ss" and da.get("n") and "name" in da and rng.random() < 0.3:
                args = [ref(a), T, self.vec(da["n"])]
            if rng.random() < 0.25:
                which = rng.choice(["in", "out"])
                key = "input_indices" if which == "in" else "output_indices"
                # by number, or by signal label (lists the caller may keep)
                kw[key] = self.idx_list([0]) if rng.random() < 0.5 else self.own([self.sig(a, which)])
        elif fn == "initial_response":
            n = da.get("n") or 1
            args = [ref(a), T, self.vec(n)]
        else:
            m = da["m"]
            if m == 1 and rng.random() < 0.6:
                U = self.vec(nt, listok=rng.random() < 0.3, col=False)
            else:
                U = ref(self.new_arr((m, nt)))
            args = [ref(a), T, U]
            if da["k"] == "ss" and da.get("n") and rng.random() < 0.5:
                args.append(self.vec(da["n"]))
            if fn == "input_output_response" and rng.random() < 0.2:
                kw["solve_ivp_kwargs"] = ref(self.new_dict({"rtol": 1e-6})) if rng.random() < 0.7 else {"rtol": 1e-6}
            if fn == "input_output_response" and rng.random() < 0.15:
                kw["solve_ivp_method"] = rng.choice(["RK45", "LSODA"])
        self.emit(["op", self.out({"k": "resp", "rk": "time", "m": da["m"], "p": da["p"]}), fn, args, kw])

    def params_arg(self, keys=("a", "b", "c")):
        pd = {self.rng.choice(keys): float(self.rng.randint(4, 9))}
        return ref(self.new_dict(pd)) if self.rng.random() < 0.5 else pd

    def op_nl(self):
        rng = self.rng
        r = rng.random()
        if r < 0.35:
            a = self.sys_any(("nls",))
            kw = {}
            if rng.random() < 0.5:
                kw["params"] = self.params_arg(("a", "b"))
            u = rng.choice([1.0, 2.0, [3.0]]) if rng.random() < 0.7 else self.vec(1)
            self.emit(["op", None, "nl_call", [ref(a), u], kw])
        elif r < 0.8:
            a = self.sys_any(("nld", "nld", "nld2"))
            n, m = self.desc[a]["n"], self.desc[a]["m"]
            kw = {}
            if rng.random() < 0.5:
                kw["params"] = self.params_arg(("a", "c"))
            fn = rng.choice(["nl_output", "nl_dynamics", "linearize", "m_linearize", "input_output_response"])
            u = [1.0] if rng.random() < 0.4 else self.vec(m)
            if fn in ("nl_output", "nl_dynamics"):
                self.emit(["op", None, fn, [ref(a), 0, self.vec(n), u], kw])
            elif fn in ("linearize", "m_linearize"):
                if rng.random() < 0.2:
                    kw["name"] = self.fresh("L")
                self.emit(["op", self.out({"k": "ss", "p": self.desc[a]["p"], "m": m, "dt": "C", "n": n}), fn,
                           [ref(a), self.vec(n), u], kw])
            else:
                T, nt = self.time_arg("C")
                if rng.random() < 0.2:
                    kw["solve_ivp_kwargs"] = ref(self.new_dict({"rtol": 1e-6, "atol": 1e-8}))
                self.emit(["op", self.out({"k": "resp", "rk": "time", "m": m, "p": self.desc[a]["p"]}), fn,
                           [ref(a), T, self.vec(nt, listok=False, col=False), self.vec(n)], kw])
        else:
            self.op_interconnect()

    def own(self, lst):
        """a (possibly nested) list argument: literal, or a list the caller keeps"""
        return ref(self.new_list(lst)) if self.rng.random() < 0.5 else lst

    def op_interconnect(self):
        # interconnect of two named systems; the specification lists may be caller-owned
        rng = self.rng
        wide = rng.random() < 0.35         # plant with a second input / output that stays unconnected
        P = self.new_ss(2, 2, dt="C", name=self.fresh("P")) if wide else self.new_ss(1, 1, dt="C", name=self.fresh("P"))
        C = self.new_tf(1, 1, dt="C", name=self.fresh("C")) if rng.random() < 0.5 else self.new_nl(False)
        pn = self.desc[P]["name"]
        cn = self.steps_name(C)
        if cn is None:
            return
        pin, pout, cin, cout = self.sig(P, "in"), self.sig(P, "out"), self.sig(C, "in"), self.sig(C, "out")
        kw = {"connections": self.own([["%s.%s" % (pn, pin), "%s.%s" % (cn, cout)],
                                       ["%s.%s" % (cn, cin), "-%s.%s" % (pn, pout)]]),
              "inplist": self.own(["%s.%s" % (cn, cin)]), "outlist": self.own(["%s.%s" % (pn, pout)])}
        if rng.random() < 0.5:
            kw["name"] = self.fresh("IC")
        if rng.random() < 0.4:
            kw["inputs"] = self.own(["r"])
        if rng.random() < 0.4:
            kw["outputs"] = self.own(["y"])
        if rng.random() < 0.2:
            kw["params"] = self.params_arg()
        if wide:
            r = rng.random()
            if r < 0.4:
                kw["add_unused"] = True
                if rng.random() < 0.5:
                    kw.setdefault("inputs", self.own(["r"]))
                    kw.setdefault("outputs", self.own(["y"]))
            elif r < 0.75:
                kw["ignore_inputs"] = self.own(["%s.%s" % (pn, self.sig(P, "in", 1))])
                kw["ignore_outputs"] = self.own(["%s.%s" % (pn, self.sig(P, "out", 1))])
            else:
                kw["check_unused"] = False
        syslist = {"lst": [ref(P), ref(C)]}
        if rng.random() < 0.4:
            syslist = ref(self.new("list", {"v": [ref(P), ref(C)]}, {}, "l"))
        self.emit(["op", self.out({"k": "nlx", "p": 1, "m": 1, "dt": "C"}), "interconnect", [syslist], kw])

    def sig(self, slot, which, j=0):
        """j-th input / output signal name of a constructed system (labels may be given)"""
        dflt = ("u[%d]" if which == "in" else "y[%d]") % j
        for st in self.all_steps():
            if st[0] == "new" and st[1] == slot:
                lab = st[3].get("kw", {}).get("inputs" if which == "in" else "outputs")
                if lab is None:
                    return dflt
                if isinstance(lab, dict):
                    for s2 in self.all_steps():
                        if s2[0] == "new" and s2[1] == lab["s"]:
                            return s2[3]["v"][j]
                return lab[j]
        return dflt

    # ---------------------------------------------------------------- operating points
    def op_findop(self):
        """find_operating_point in all its constraint forms; the initial guess / targets / index
        lists / root_kwargs are objects the caller owns (float and integer ndarrays, views,
        column arrays, lists)"""
        rng = self.rng
        r = rng.random()
        if r < 0.3:
            a = self.sys_any(("nld",))
        elif r < 0.75:
            a = self.sys_any(("nld2",))
        else:
            a = self.pick(lambda d: d["k"] == "ss" and "name" in d and d["dt"] == "C" and d.get("n")) \
                or self.new_ss(dt="C")
        da = self.desc[a]
        n, m, p = da["n"], da["m"], da["p"]
        x0, u0 = self.vec(n), self.vec(m)
        y0 = self.vec(p)
        forms = ["x0u0", "x0u0y0", "iu", "iu", "iy", "iy", "ix", "idx", "mixed"]
        form = rng.choice(forms)
        args, kw = [ref(a), x0, u0], {}
        if form == "x0u0y0":
            args.append(y0)
        elif form == "iu":
            kw["iu"] = self.idx_list(list(range(m)))
        elif form == "iy":
            args.append(y0)
            kw["iy"] = self.idx_list(sorted(rng.sample(range(p), min(p, m))))
        elif form == "ix":
            j = rng.randrange(n)
            kw["ix"] = self.idx_list([j])           # state j held, the input is free
            if n > 1 and rng.random() < 0.5:        # ... or input held too, one derivative constrained
                kw["idx"] = self.idx_list([i for i in range(n) if i != j])
                kw["iu"] = self.idx_list(list(range(m)))
        elif form == "idx":
            kw["idx"] = self.idx_list(list(range(n)))
            kw["dx0"] = self.vec(n, [0.0] * n if rng.random() < 0.6 else None, col=False)
            kw["iu"] = self.idx_list(list(range(m)))
        elif form == "mixed":
            for key, size in rng.sample([("iu", m), ("iy", p), ("ix", n), ("idx", n)], rng.choice([1, 2, 3])):
                kw[key] = self.idx_list(sorted(rng.sample(range(size), rng.randint(0 if key == "iu" else 1, size))))
            if "iy" in kw or rng.random() < 0.3:
                args.append(y0)
        if rng.random() < 0.15:          # keyword form of the same call
            names = ["initial_state", "inputs", "outputs"]
            for nm, val in zip(names, args[1:]):
                kw[nm] = val
            args = args[:1]
        if rng.random() < 0.25:
            kw["root_method"] = rng.choice(["lm", "hybr"])
        if rng.random() < 0.2:
            rk = rng.choice([{"tol": 1e-10}, {"options": {"xtol": 1e-10}}, {}])
            kw["root_kwargs"] = ref(self.new_dict(rk)) if rng.random() < 0.7 else rk
        if rng.random() < 0.2:
            kw["return_result"] = True
        if da["k"] != "ss" and rng.random() < 0.25:
            kw["params"] = self.params_arg()
        self.emit(["op", self.out({"k": "oppt"}), "find_operating_point", args, kw])

    def steps_name(self, slot):
        for st in self.all_steps():
            if st[0] == "new" and st[1] == slot:
                return st[3].get("kw", {}).get("name")
        return None

    def all_steps(self):
        return F.flat_steps(self.steps)

    def op_util(self):
        rng = self.rng
        fn = rng.choice(["unwrap", "unwrap", "db2mag", "mag2db"])
        n = rng.choice([4, 5, 6])
        if fn == "unwrap":
            vals = [round(rng.uniform(-7, 7), 3) for _ in range(n)]
            a = self.new_arr((n,), vals)
            args = [ref(a)] if rng.random() < 0.7 else [ref(a), 360.0]
        else:
            a = self.new_arr((n,), [float(rng.randint(1, 5)) for _ in range(n)])
            args = [ref(a)]
        self.emit(["op", None, fn, args, {}])

    # ---------------------------------------------------------------- plotting
    def style_kw(self, kw, p=0.45):
        """matplotlib line keywords passed through by the plotting functions"""
        rng = self.rng
        if rng.random() < p:
            for key, vals in rng.sample([("color", ["k", "tab:green", "m"]), ("linewidth", [3, 0.5]),
                                         ("linestyle", [":", "-."])], rng.choice([1, 1, 2, 3])):
                kw[key] = rng.choice(vals)
        return kw

    def time_resp(self):
        """a time response in the pool (with its inputs recorded), made on the spot when missing"""
        r = self.pick(lambda d: d["k"] == "resp" and d.get("rk") == "time")
        if r is None or self.rng.random() < 0.4:
            mark = len(self.cur)
            self.op_time()
            st = self.cur[-1] if len(self.cur) > mark else None
            if st is not None and st[0] == "op" and st[1] is not None:
                r = st[1]
        return r

    def plot_time(self):
        rng = self.rng
        kw = {}
        r = rng.random()
        if r < 0.15:      # response computed and plotted in one go
            a = self.sys_any(("ss", "tf"), dt=("C",))
            if rng.random() < 0.7:
                kw["plot_inputs"] = rng.choice([True, "overlay"])
            self.emit(["op", None, "resp_plot", [ref(a)], self.style_kw(kw)])
            return
        resp = self.time_resp()
        if resp is None:
            return
        if r < 0.27:      # several responses combined into one
            other = self.pick(lambda d: d["k"] == "resp" and d.get("rk") == "time"
                              and (d["m"], d["p"]) == (self.desc[resp]["m"], self.desc[resp]["p"]))
            lst = [ref(resp), ref(other or resp)]
            lst = ref(self.new("list", {"v": lst}, {}, "l")) if rng.random() < 0.5 else {"lst": lst}
            ckw = {"trace_labels": self.own(["one", "two"])} if rng.random() < 0.4 else {}
            out = self.out(dict(self.desc[resp]))
            self.emit(["op", out, "combine_time_responses", [lst], ckw])
            resp = out
        if rng.random() < 0.65:
            kw["plot_inputs"] = rng.choice([True, True, "overlay", False, None])
        for key, pr in (("overlay_signals", 0.25), ("overlay_traces", 0.15), ("transpose", 0.12)):
            if rng.random() < pr:
                kw[key] = True
        if rng.random() < 0.1:
            kw["title"] = "response"
        if rng.random() < 0.1:
            kw["legend_loc"] = rng.choice(["upper left", False])
        if rng.random() < 0.1:
            kw["sharey"] = rng.choice(["row", "all", False])
        args = [ref(resp)]
        if rng.random() < 0.1:
            args.append(rng.choice(["r--", "k"]))
        else:
            self.style_kw(kw)
        self.emit(["op", None, rng.choice(["m_plot", "m_plot", "time_response_plot"]), args, kw])

    def omega_arg(self):
        r = self.rng.random()
        if r < 0.35:
            return self.freq_vec()[0]      # any order, any holder
        om = [0.1, 1.0, 10.0] if r < 0.75 else [0.05, 0.2, 0.8, 3.0, 12.0]
        return ref(self.new_arr((len(om),), om)) if self.rng.random() < 0.7 else om

    def plot_freq(self):
        rng = self.rng
        kind = rng.choice(["bode"] * 4 + ["nyquist"] * 3 + ["nichols", "sv", "sv", "fresp", "nyqresp"]
                          + (["gangof4"] if self.tier != "quick" else []))
        a = self.sys_any(("ss", "tf"), siso=True, dt=("C",) if rng.random() < 0.8 else None)
        kw = {}
        if kind == "bode":
            data = ref(a)
            if rng.random() < 0.3:
                b = self.sys_any(("ss", "tf"), siso=True, dt=(self.desc[a]["dt"],))
                data = {"lst": [ref(a), ref(b)]} if rng.random() < 0.5 else \
                    ref(self.new("list", {"v": [ref(a), ref(b)]}, {}, "l"))
            args = [data] + ([self.omega_arg()] if rng.random() < 0.4 else [])
            for key, vals, pr in (("dB", [True, False], 0.2), ("Hz", [True], 0.15), ("deg", [False], 0.15),
                                  ("plot_phase", [False], 0.15), ("display_margins", [True, "overlay"], 0.15),
                                  ("wrap_phase", [True], 0.1), ("initial_phase", [0], 0.1), ("title", ["T"], 0.1),
                                  ("omega_num", [20], 0.15)):
                if rng.random() < pr:
                    kw[key] = rng.choice(vals)
            if len(args) == 1 and rng.random() < 0.25:
                kw["omega_limits"] = self.own([0.1, 100.0])
            self.emit(["op", None, "bode_plot", args, self.style_kw(kw, 0.3)])
        elif kind == "nyquist":
            args = [ref(a)] + ([self.omega_arg()] if rng.random() < 0.3 else [])
            if rng.random() < 0.35:
                kw["mirror_style"] = rng.choice([self.own(["-.", ":"]), False, ":"])
            if rng.random() < 0.25:
                kw["primary_style"] = rng.choice([self.own(["-", ":"]), "-"])
            if rng.random() < 0.3:
                kw["arrows"] = rng.choice([3, self.own([0.3, 0.6])])
            for key, vals, pr in (("indent_direction", ["left"], 0.1), ("unit_circle", [True], 0.1),
                                  ("color", ["k"], 0.2), ("label_freq", [2], 0.1), ("title", ["N"], 0.1)):
                if rng.random() < pr:
                    kw[key] = rng.choice(vals)
            if rng.random() < 0.1:
                kw["mt_circles"] = self.own([1.5, 2.0])
            self.emit(["op", None, "nyquist_plot", args, kw])
        elif kind == "nichols":
            args = [ref(a)] + ([self.omega_arg()] if rng.random() < 0.4 else [])
            if rng.random() < 0.3:
                kw["grid"] = False
            self.emit(["op", None, "nichols_plot", args, self.style_kw(kw, 0.3)])
        elif kind == "sv":
            b = self.sys_any(("ss", "tf"), dt=("C",))
            args = [ref(b)] + ([self.omega_arg()] if rng.random() < 0.5 else [])
            if rng.random() < 0.5:
                out = self.out({"k": "resp", "rk": "sv"})
                self.emit(["op", out, "singular_values_response", args, {}])
                self.emit(["op", None, "m_plot", [ref(out)], self.style_kw(kw, 0.3)])
            else:
                self.emit(["op", None, "singular_values_plot", args, self.style_kw(kw, 0.3)])
        elif kind == "fresp":
            r = self.pick(lambda d: d["k"] == "resp" and d.get("rk") == "freq")
            if r is None:
                r = self.out({"k": "resp", "rk": "freq"})
                self.emit(["op", r, "frequency_response", [ref(a), self.omega_arg()], {}])
            self.emit(["op", None, "m_plot", [ref(r)], self.style_kw(kw, 0.3)])
        elif kind == "nyqresp":
            out = self.out({"k": "resp", "rk": "nyq"})
            args = [ref(a)] + ([self.omega_arg()] if rng.random() < 0.5 else [])
            self.emit(["op", out, "nyquist_response", args, {}])
            if rng.random() < 0.7:
                self.emit(["op", None, "m_plot", [ref(out)], kw])
        else:
            b = self.sys_any(("tf",), siso=True, dt=("C",))
            args = [ref(a), ref(b)] + ([self.omega_arg()] if rng.random() < 0.5 else [])
            self.emit(["op", None, "gangof4_plot", args, {}])

    def plot_pz(self):
        rng = self.rng
        kind = rng.choice(["pz", "pz", "pzmap", "rlocus", "rlocus", "rlmap", "df"]
                          + (["phase"] if self.tier != "quick" else []))
        a = self.sys_any(("ss", "tf"), siso=True, dt=("C",))
        kw = {}
        if kind == "pz":
            for key, vals, pr in (("grid", [True, False], 0.3), ("color", ["k"], 0.2), ("marker_size", [4], 0.15),
                                  ("title", ["PZ"], 0.1)):
                if rng.random() < pr:
                    kw[key] = rng.choice(vals)
            if rng.random() < 0.2:
                kw["xlim"] = self.own([-5, 1])
            self.emit(["op", None, "pzmap_plot", [ref(a)], kw])
        elif kind == "pzmap":
            out = self.out({"k": "resp", "rk": "pz"})
            self.emit(["op", out, "pole_zero_map", [ref(a)], {}])
            self.emit(["op", None, "m_plot", [ref(out)], kw])
        elif kind in ("rlocus", "rlmap"):
            g = [0.1, 1.0, 5.0, 20.0]
            if rng.random() < 0.3:
                g = rng.choice([[20.0, 5.0, 1.0, 0.1], [1.0, 20.0, 0.1, 5.0]])
            args = [ref(a)] + ([ref(self.new_arr((4,), g)) if rng.random() < 0.7 else g] if rng.random() < 0.6 else [])
            if kind == "rlocus":
                if rng.random() < 0.3:
                    kw["grid"] = rng.choice([True, False])
                self.emit(["op", None, "root_locus_plot", args, kw])
            else:
                out = self.out({"k": "resp", "rk": "rl"})
                self.emit(["op", out, "root_locus_map", args, {}])
                self.emit(["op", None, "m_plot", [ref(out)], kw])
        elif kind == "df":
            A = [0.5, 1.0, 2.0, 4.0]
            H = self.new_tf(1, 1, dt="C") if rng.random() < 0.5 else a
            self.emit(["op", None, "describing_function_plot",
                       [ref(H), rng.choice(["sat", "relay"]), 1.0, ref(self.new_arr((4,), A))] +
                       ([self.omega_arg()] if rng.random() < 0.3 else []), {}])
        else:
            n2 = self.sys_any(("nld2",))
            self.emit(["op", None, "phase_plane_plot", [ref(n2), self.own([-2, 2, -2, 2]), 1],
                       {"plot_separatrices": False, "gridspec": self.own([3, 3])}])

    def op_plot(self):
        r = self.rng.random()
        if r < 0.55:
            self.plot_time()
        elif r < 0.85:
            self.plot_freq()
        else:
            self.plot_pz()

    # ---------------------------------------------------------------- more caller-owned arguments
    def op_statefbk(self):
        rng = self.rng
        n = rng.choice([1, 2, 2, 3])
        m = rng.choice([1, 1, 2])
        dt = rng.choice(["C", "C", 0.1])
        A = self.state_A(n)
        if dt != "C":
            A = self.scaled(A)
        eye = [[1.0 if i == j else 0.0 for j in range(n)] for i in range(n)]
        spec = {"abcd": [A, self.mat(n, m), eye, [[0.0] * m for _ in range(n)]]}
        if rng.random() < 0.25:       # the system's own matrices column-major
            spec["abcd"] = [ref(self.new_arr((len(M), len(M[0])), M, layout=rng.choice(["F", "T"]))) for M in spec["abcd"]]
        if dt != "C":
            spec["dt"] = dt
        if rng.random() < 0.5:
            spec["kw"] = {"name": self.fresh("S")}
        sysn = self.new("ss", spec, {"p": n, "m": m, "n": n, "dt": dt, "name": None}, "s")
        kw = {}
        if rng.random() < 0.5:
            K = ref(self.new_arr((m, n)))
            args = [ref(sysn), K]
            if rng.random() < 0.3:
                args = [ref(sysn), ref(self.new_arr((m, n + 1)))]
                kw["integral_action"] = ref(self.new_arr((1, n), [[1.0] + [0.0] * (n - 1)]))
            if rng.random() < 0.3:
                kw["xd_labels"] = self.labels("xd", n)
            if rng.random() < 0.3:
                kw["ud_labels"] = self.labels("ud", m)
            if rng.random() < 0.3:
                kw["controller_type"] = rng.choice(["linear", "nonlinear"])
            if rng.random() < 0.2:
                kw["name"] = self.fresh("CT")
            if rng.random() < 0.15:      # gain scheduling: list of gains and array of points
                pts = ref(self.new_arr((2, 1), [[0.0], [1.0]]))
                gains = [ref(self.new_arr((m, n))), ref(self.new_arr((m, n)))]
                gains = ref(self.new("list", {"v": gains}, {}, "l")) if rng.random() < 0.5 else {"lst": gains}
                args = [ref(sysn), {"tup": [gains, pts]}]
                kw = {"gainsched_indices": self.idx_list([0])}
            self.emit(["op", self.out({"k": "pair"}), "create_statefbk_iosystem", args, kw])
        else:
            C = self.mat(1, n)
            spec2 = dict(spec, abcd=[A, spec["abcd"][1], C, [[0.0] * m]])
            spec2.pop("kw", None)
            s2 = self.new("ss", spec2, {"p": 1, "m": m, "n": n, "dt": dt, "name": None}, "s")
            QN = ref(self.new_arr((m, m), [[1.0 if i == j else 0.0 for j in range(m)] for i in range(m)]))
            RN = ref(self.new_arr((1, 1), [[1.0]]))
            if rng.random() < 0.3:
                kw["P0"] = ref(self.new_arr((n, n), eye))
            if rng.random() < 0.3:
                kw["control_labels" if rng.random() < 0.5 else "measurement_labels"] = \
                    self.labels("w", m if "control_labels" not in kw else 1)
            self.emit(["op", self.out({"k": "nlx", "p": n, "m": 1 + m, "dt": dt}), "create_estimator_iosystem",
                       [ref(s2), QN, RN], kw])

    def op_ident(self):
        """functions that take measured data / gain arrays"""
        rng = self.rng
        fn = rng.choice(["markov", "eigensys_realization", "correlation", "step_info_arrays", "describing_function",
                         "margin_arrays", "stability_margins_arrays", "lti_dynamics", "lti_output", "tfdata",
                         "ssdata", "sample_system", "model_reduction"])
        if fn == "markov":
            N = rng.choice([6, 8])
            Y = [round(0.5 ** i, 6) for i in range(N)]
            U = [1.0] + [0.0] * (N - 1)
            if rng.random() < 0.5:
                Y, U = self.new_arr((1, N), [Y]), self.new_arr((1, N), [U])
            else:
                Y, U = self.new_arr((N,), Y), self.new_arr((N,), U)
            self.emit(["op", None, "markov", [ref(Y), ref(U), rng.choice([2, 3])],
                       {"truncate": True} if rng.random() < 0.3 else {}])
        elif fn == "eigensys_realization":
            N = 9
            Y = self.new_arr((N,), [0.0] + [round(0.5 ** i, 6) for i in range(N - 1)])
            self.emit(["op", None, fn, [ref(Y), rng.choice([1, 2])], {"dt": 0.1} if rng.random() < 0.3 else {}])
        elif fn == "correlation":
            N = rng.choice([4, 6])
            T = self.new_arr((N,), [round(0.1 * i, 10) for i in range(N)])
            args = [ref(T), ref(self.new_arr((N,)))] + ([ref(self.new_arr((N,)))] if rng.random() < 0.4 else [])
            self.emit(["op", None, fn, args, {}])
        elif fn == "step_info_arrays":
            y = [0.0, 0.5, 0.8, 0.95, 1.05, 1.0, 1.0]
            T = self.new_arr((7,), [float(i) for i in range(7)])
            kw = {"RiseTimeLimits": self.own([0.2, 0.8])} if rng.random() < 0.3 else {}
            self.emit(["op", None, fn, [ref(self.new_arr((7,), y)), ref(T)], kw])
        elif fn == "describing_function":
            A = [0.5, 1.0, 1.5, 2.0, 4.0][:rng.choice([2, 3, 5])]
            if rng.random() < 0.3:
                A = A[1:]
            if rng.random() < 0.3:        # amplitudes from large to small / in no order
                A = list(reversed(A)) if rng.random() < 0.6 else A[1:] + A[:1]
            arg = ref(self.new_arr((len(A),), A)) if rng.random() < 0.8 else A
            self.emit(["op", None, fn, [rng.choice(["sat", "relay", "backlash"]), rng.choice([1.0, 0.5]), arg],
                       {"num_points": 50} if rng.random() < 0.3 else {}])
        elif fn in ("margin_arrays", "stability_margins_arrays"):
            w = [0.1, 0.5, 1.0, 2.0, 5.0, 10.0]
            mag = [round(4.0 / (1 + x * x), 6) for x in w]
            ph = [round(-1.5 * x, 6) for x in w]
            if rng.random() < 0.3:        # measurements listed from high to low frequency
                w, mag, ph = w[::-1], mag[::-1], ph[::-1]
            self.emit(["op", None, fn, [ref(self.new_arr((6,), mag)), ref(self.new_arr((6,), ph)),
                                        ref(self.new_arr((6,), w))], {}])
        elif fn in ("lti_dynamics", "lti_output"):
            a = self.pick(lambda d: d["k"] == "ss" and "name" in d and d.get("n")) or self.new_ss()
            da = self.desc[a]
            self.emit(["op", None, fn, [ref(a), 0, self.vec(da["n"]), self.vec(da["m"])], {}])
        elif fn in ("tfdata", "ssdata"):
            a = self.sys_any(("ss", "tf"))
            self.emit(["op", self.out({"k": "data"}), fn, [ref(a)], {}])
        elif fn == "sample_system":
            a = self.sys_any(("ss", "tf"), dt=("C",), siso=True)
            kw = {"method": rng.choice(["zoh", "bilinear", "gbt", "matched" if self.desc[a]["k"] == "tf" else "foh"])}
            if kw["method"] == "gbt":
                kw["alpha"] = 0.5
            if kw["method"] == "bilinear" and rng.random() < 0.5:
                kw["prewarp_frequency"] = 1.0
            if rng.random() < 0.3:
                kw["name"] = self.fresh("SD")
            d = self.res_desc(a); d["dt"] = 0.1
            self.emit(["op", self.out(d), fn, [ref(a), 0.1], kw])
        else:
            a = self.pick(lambda d: d["k"] == "ss" and "name" in d and (d.get("n") or 0) >= 2 and d["dt"] == "C") \
                or self.new_ss(2, 2, dt="C")
            da = self.desc[a]
            kw = {}
            r = rng.random()
            if r < 0.35 and da["n"] >= 2:
                kw["elim_states"] = self.idx_list([da["n"] - 1])
            elif r < 0.6 and da["n"] >= 2:
                kw["keep_states"] = self.idx_list(list(range(da["n"] - 1)))
            elif r < 0.8 and da["m"] > 1:
                kw["keep_inputs"] = self.idx_list([0])
            elif da["p"] > 1:
                kw["elim_outputs"] = self.idx_list([0])
            else:
                kw["elim_states"] = self.idx_list([0])
            kw["method"] = rng.choice(["truncate", "matchdc"])
            kw["warn_unstable"] = False
            self.emit(["op", self.out({"k": "ssx"}), "model_reduction", [ref(a)], kw])

    def op_objarr(self):
        self.new_tf_objarr()

    # ---------------------------------------------------------------- optimal control / estimation
    OPT_DISC = [([[1.0, 1.0], [0.0, 1.0]], [[0.5], [1.0]]), ([[0.9, 0.2], [0.0, 0.8]], [[0.0], [1.0]]),
                ([[0.5, 1.0], [-0.5, 0.5]], [[1.0], [1.0]]), ([[1.0]], [[1.0]]), ([[0.5]], [[2.0]])]
    OPT_CONT = [([[0.0, 1.0], [-1.0, -1.0]], [[0.0], [1.0]]), ([[0.0, 1.0], [0.0, 0.0]], [[0.0], [1.0]]),
                ([[-1.0]], [[1.0]])]

    def mat_arg(self, M):
        """a matrix argument: caller-owned array (plain / view) or literal"""
        return ref(self.new_arr((len(M), len(M[0])), M)) if self.rng.random() < 0.6 else M

    def diag(self, n, lo=1, hi=10):
        return [[float(self.rng.randint(lo, hi)) if i == j else 0.0 for j in range(n)] for i in range(n)]

    def opt_sys(self):
        rng = self.rng
        cont = rng.random() < 0.15
        tab = self.OPT_CONT if cont else self.OPT_DISC
        one = [ab for ab in tab if len(ab[0]) == 1]
        A, B = rng.choice(one) if rng.random() < 0.12 else rng.choice([ab for ab in tab if len(ab[0]) > 1])
        n = len(A)
        dt = "C" if cont else rng.choice([1, 1, 0.5, "T"])
        spec = {"abcd": [A, B, [[1.0 if i == j else 0.0 for j in range(n)] for i in range(n)],
                         [[0.0] for _ in range(n)]]}
        if dt != "C":
            spec["dt"] = dt
        if rng.random() < 0.4:
            spec["kw"] = {"name": self.fresh("S")}
        return self.new("ss", spec, {"p": n, "m": 1, "n": n, "dt": dt, "name": None, "abcd": True}, "s")

    def new_cost(self, sysn, terminal=False):
        rng = self.rng
        d = self.desc[sysn]
        n, m = d["n"], d["m"]
        Q = self.mat_arg(self.diag(n, 1, 10 if terminal else 4))
        R = None if terminal and rng.random() < 0.6 else self.mat_arg(self.diag(m, 1, 3))
        kw = {}
        if rng.random() < 0.25:
            kw["x0"] = self.vec(n, col=False)
        if rng.random() < 0.15 and R is not None:
            kw["u0"] = self.vec(m, col=False)
        spec = {"sys": ref(sysn), "args": [Q, R]}
        if kw:
            spec["kw"] = kw
        return self.new("cost", spec, {"sys": sysn}, "c")

    def new_constr(self, sysn):
        rng = self.rng
        d = self.desc[sysn]
        n, m = d["n"], d["m"]
        fn = rng.choice(["input_range", "input_range", "state_range", "output_range", "input_poly", "state_poly"])
        if fn == "input_range":
            c = float(rng.randint(1, 3))
            args = [self.vec(m, [-c] * m, col=False), self.vec(m, [c] * m, col=False)]
        elif fn in ("state_range", "output_range"):
            c = float(rng.randint(5, 9))
            args = [self.vec(n, [-c] * n, col=False), self.vec(n, [c] * n, col=False)]
        elif fn == "input_poly":
            c = float(rng.randint(1, 3))
            args = [self.mat_arg([[1.0] * m, [-1.0] * m]), self.vec(2, [c, c], col=False)]
        else:
            c = float(rng.randint(6, 9))
            args = [self.mat_arg([[1.0] + [0.0] * (n - 1), [-1.0] + [0.0] * (n - 1)]), self.vec(2, [c, c], col=False)]
        return self.new("constr", {"fn": fn, "sys": ref(sysn), "args": args}, {"sys": sysn}, "k")

    def constr_list(self, sysn):
        rng = self.rng
        cs = [ref(self.new_constr(sysn)) for _ in range(rng.choice([1, 1, 2]))]
        r = rng.random()
        if r < 0.5:
            return {"lst": cs}
        if r < 0.8:
            return ref(self.new("list", {"v": cs}, {}, "l"))
        return cs[0]                  # a single constraint (not in a list) is accepted too

    def time_grid(self, sysn, N):
        dt = self.desc[sysn]["dt"]
        h = 1.0 if dt in ("T", "C") else float(dt)
        if dt == "C":
            h = 0.5
        T = [round(i * h, 10) for i in range(N)]
        return ref(self.new_list(T)) if self.rng.random() < 0.06 else ref(self.new_arr((N,), T))

    def new_ocp(self, sysn=None):
        """an OptimalControlProblem the caller keeps and calls several times; cost functions,
        constraints, time points and the initial guess are objects of the caller"""
        rng = self.rng
        sysn = sysn or self.opt_sys()
        d = self.desc[sysn]
        N = rng.choice([3, 4, 5])
        cost = self.pick(lambda c: c.get("k") == "cost" and c.get("sys") == sysn and not c.get("lik")) \
            if rng.random() < 0.5 else None
        cost = cost or self.new_cost(sysn)
        kw = {}
        if rng.random() < 0.6:
            kw["terminal_cost"] = ref(self.new_cost(sysn, terminal=True)) if rng.random() < 0.7 else ref(cost)
        if rng.random() < 0.35:
            kw["trajectory_constraints"] = self.constr_list(sysn)
        if rng.random() < 0.12:
            kw["terminal_constraints"] = self.constr_list(sysn)
        if rng.random() < 0.2:
            kw["initial_guess"] = ref(self.new_arr((d["m"], N))) if rng.random() < 0.6 else self.vec(d["m"], col=False)
        if rng.random() < 0.15:
            kw["trajectory_method"] = "collocation" if d["dt"] == "C" else "shooting"
        if rng.random() < 0.1:
            kw["minimize_method"] = "SLSQP"
        if rng.random() < 0.08:
            kw["minimize_options"] = ref(self.new_dict({"maxiter": 50})) if rng.random() < 0.6 else {"maxiter": 50}
        spec = {"sys": ref(sysn), "timepts": self.time_grid(sysn, N), "cost": ref(cost), "kw": kw}
        return self.new("ocp", spec, {"sys": sysn, "n": d["n"], "m": d["m"], "N": N, "dt": d["dt"], "cost": cost,
                                      "results": [], "okw": kw}, "q")

    def state_arg(self, n):
        return self.vec(n, [float(self.rng.randint(-3, 3)) for _ in range(n)], col=False)

    def op_optimal(self):
        """calls on a problem object with a history: compute_trajectory from several initial
        states, warm-started with the inputs an earlier call returned / a caller-owned array / not
        at all, compute_mpc, MPC controllers built from it, and the function forms on the same
        cost / constraint objects"""
        rng = self.rng
        o = self.pick(lambda d: d.get("k") == "ocp")
        if o is None or rng.random() < 0.07:
            o = self.new_ocp()
        d = self.desc[o]
        n, m, N = d["n"], d["m"], d["N"]
        r = rng.random()
        if r < 0.64:
            kw = {}
            g = rng.random()
            if d["results"] and g < 0.55:
                kw["initial_guess"] = {"item": [rng.choice(d["results"][-2:]), "inputs"]}
            elif g < 0.68:
                kw["initial_guess"] = ref(self.new_arr((m, N))) if rng.random() < 0.7 else self.vec(m, col=False)
            for key, vals, pr in (("squeeze", [True, False], 0.12), ("transpose", [True], 0.06),
                                  ("return_states", [False], 0.06), ("print_summary", [False], 0.3)):
                if rng.random() < pr:
                    kw[key] = rng.choice(vals)
            # initial state: a new one, or (to hit whatever is kept from the call before) the previous one
            x = self.state_arg(n) if not d.get("lastx") or rng.random() < 0.75 else d["lastx"]
            d["lastx"] = x
            out = self.out({"k": "ocpres", "ocp": o})
            if not any(k2 in kw for k2 in ("squeeze", "transpose", "return_states")):
                d["results"].append(out)
            self.emit(["op", out, "ocp_compute_trajectory", [ref(o), x], kw])
        elif r < 0.74:
            kw = {"squeeze": rng.choice([True, False])} if rng.random() < 0.2 else {}
            self.emit(["op", None, "ocp_compute_mpc", [ref(o), self.state_arg(n)], kw])
        elif r < 0.82:
            kw = {}
            if rng.random() < 0.5:
                kw["name"] = self.fresh("MPC")
            if rng.random() < 0.3:
                kw["inputs"] = self.labels("xm", n)
            if rng.random() < 0.3:
                kw["outputs"] = self.labels("um", m)
            self.emit(["op", self.out({"k": "mpc", "ocp": o, "n": n, "m": m, "N": N}), "ocp_create_mpc_iosystem",
                       [ref(o)], kw])
        elif r < 0.92:
            # function forms with the caller's system, time points, cost and constraint objects
            spec = self.spec_of[o]
            kw = {k2: v for k2, v in spec["kw"].items() if k2 in ("terminal_cost", "trajectory_constraints",
                                                                   "terminal_constraints", "initial_guess")}
            if rng.random() < 0.5:
                self.emit(["op", self.out({"k": "ocpres"}), "solve_optimal_trajectory",
                           [spec["sys"], spec["timepts"], self.state_arg(n), spec["cost"]], kw])
            else:
                kw.pop("initial_guess", None)
                if rng.random() < 0.4:
                    kw["name"] = self.fresh("MPC")
                self.emit(["op", self.out({"k": "mpc", "n": n, "m": m, "N": N}), "create_mpc_iosystem",
                           [spec["sys"], spec["timepts"], spec["cost"]], kw])
        else:
            c = self.pick(lambda c: c.get("k") == "cost" and not c.get("lik")) or d["cost"]
            dc = self.desc[self.desc[c]["sys"]]
            self.emit(["op", None, "cost_eval", [ref(c), ref(self.new_arr((dc["n"],))), ref(self.new_arr((dc["m"],)))], {}])

    def op_estim(self):
        """optimal (moving horizon) estimation problems called several times"""
        rng = self.rng
        o = self.pick(lambda d: d.get("k") == "oep")
        if o is None or rng.random() < 0.15:
            o = self.new_oep()
        self.estim_call(o)

    def new_oep(self, prior=0.5):
        rng = self.rng
        if True:
            A, _ = rng.choice(self.OPT_DISC[:3])
            spec = {"abcd": [A, [[0.5, 1.0], [1.0, 0.0]], [[1.0, 0.0]], [[0.0, 0.0]]], "dt": rng.choice([1, 1, 0.5])}
            sysn = self.new("ss", spec, {"p": 1, "m": 2, "n": 2, "dt": spec["dt"], "name": None, "abcd": True}, "s")
            N = rng.choice([3, 4])
            args = [self.mat_arg([[float(rng.randint(1, 3))]])] + \
                ([self.mat_arg([[float(rng.randint(1, 3))]])] if rng.random() < 0.6 else [])
            cost = self.new("cost", {"fn": "likelihood", "sys": ref(sysn), "args": args}, {"sys": sysn, "lik": True}, "c")
            kw = {}
            if rng.random() < prior:       # prior on the initial state: used when the call gives initial_state
                kw["terminal_cost"] = ref(self.new("cost", {"fn": "prior", "sys": ref(sysn),
                                                            "args": [self.diag(2, 1, 4)]}, {"sys": sysn, "lik": True}, "c"))
            if rng.random() < 0.3:
                kw["control_indices"] = self.idx_list([0])
            if rng.random() < 0.15:
                kw["disturbance_indices"] = self.idx_list([1])
            if rng.random() < 0.2:
                kw["trajectory_constraints"] = {"lst": [ref(self.new(
                    "constr", {"fn": "disturbance_range", "sys": ref(sysn),
                               "args": [self.vec(1, [-5.0], col=False), self.vec(1, [5.0], col=False)]},
                    {"sys": sysn}, "k"))]}
            return self.new("oep", {"sys": ref(sysn), "timepts": self.time_grid(sysn, N), "cost": ref(cost), "kw": kw},
                            {"sys": sysn, "N": N, "cost": cost, "results": [], "okw": kw}, "e")

    def estim_call(self, o, px0=0.4, pfn=0.2):
        rng = self.rng
        d = self.desc[o]
        N = d["N"]
        Y = ref(self.new_arr((1, N), [[float(rng.randint(-2, 3)) for _ in range(N)]]))
        U = ref(self.new_arr((1, N), [[float(rng.randint(-1, 1)) for _ in range(N)]]))
        kw = {}
        if rng.random() < px0:
            kw[rng.choice(["initial_state", "X0"])] = self.state_arg(2)
        if d["results"] and rng.random() < 0.45:
            rs = rng.choice(d["results"][-2:])
            kw["initial_guess"] = {"tup": [{"item": [rs, "states"]}, {"item": [rs, "inputs"]}]}
        if rng.random() < 0.1:
            kw["squeeze"] = rng.choice([True, False])
        if rng.random() >= pfn:
            out = self.out({"k": "oepres", "oep": o})
            if "squeeze" not in kw:
                d["results"].append(out)
            self.emit(["op", out, "oep_compute_estimate", [ref(o), Y, U], kw])
        else:
            spec = self.spec_of[o]
            kw2 = {k2: v for k2, v in kw.items() if k2 != "initial_guess"}
            kw2.update({k2: v for k2, v in spec["kw"].items()})
            self.emit(["op", self.out({"k": "oepres"}), "solve_optimal_estimate",
                       [spec["sys"], spec["timepts"], Y, U, spec["cost"]], kw2])

    def op_mpc_eval(self):
        """evaluation of an MPC controller built from a problem object the caller still holds"""
        rng = self.rng
        c = self.pick(lambda d: d.get("k") == "mpc")
        if c is None:
            self.op_optimal()
            return
        d = self.desc[c]
        xs = self.vec(d["m"] * d["N"], [float(rng.randint(-1, 1)) for _ in range(d["m"] * d["N"])], col=False)
        self.emit(["op", None, rng.choice(["nl_output", "nl_dynamics"]), [ref(c), 0, xs, self.state_arg(d["n"])], {}])

    # ---------------------------------------------------------------- differentially flat systems
    def op_flat(self):
        rng = self.rng
        f = self.pick(lambda d: d.get("k") == "flat")
        if f is None or rng.random() < 0.15:
            a, b = float(rng.randint(0, 3)), float(rng.randint(0, 3))
            spec = {"abcd": [[[0.0, 1.0], [-a, -b]], [[0.0], [float(rng.randint(1, 2))]], [[1.0, 0.0]], [[0.0]]]}
            if rng.random() < 0.4:
                spec["kw"] = {"name": self.fresh("FS")}
            f = self.new("flat", spec, {"n": 2, "m": 1, "p": 1, "dt": "C"}, "f")
        r = rng.random()
        tr = self.pick(lambda d: d.get("k") == "traj")
        if r < 0.45 or tr is None:
            Tf = float(rng.choice([1, 2, 4]))
            nt = rng.choice([3, 4, 6])
            T = Tf if rng.random() < 0.4 else ref(self.new_arr((nt,), [round(Tf * i / (nt - 1), 10) for i in range(nt)]))
            args = [ref(f), T, self.state_arg(2), self.vec(1, col=False), self.state_arg(2), self.vec(1, col=False)]
            kw = {}
            if rng.random() < 0.5:
                fam = rng.choice(["poly", "bezier", "bspline"])
                bargs = {"poly": [rng.choice([6, 8]), Tf], "bezier": [rng.choice([6, 8]), Tf],
                         "bspline": [self.own([0.0, Tf / 2, Tf]), rng.choice([4, 5])]}[fam]
                kw["basis"] = ref(self.new("basis", {"fn": fam, "args": bargs}, {}, "w"))
            if rng.random() < 0.15:             # keyword spelling of the end conditions
                for nm, val in zip(["initial_state", "initial_input", "final_state", "final_input"], args[2:]):
                    kw[nm] = val
                args = args[:2]
            tr = self.out({"k": "traj", "Tf": Tf})
            self.emit(["op", tr, "point_to_point", args, kw])
            if rng.random() < 0.6:
                self.traj_use(tr)
        elif r < 0.85:
            self.traj_use(tr)
        elif r < 0.93:
            self.emit(["op", None, "flat_forward", [ref(f), self.state_arg(2), self.vec(1, col=False)], {}])
        else:
            z = [ref(self.new_arr((3,), [float(rng.randint(-2, 2)) for _ in range(3)]))]
            self.emit(["op", None, "flat_reverse", [ref(f), {"lst": z} if rng.random() < 0.5 else
                                                    ref(self.new("list", {"v": z}, {}, "l"))], {}])

    def traj_use(self, tr):
        rng = self.rng
        Tf = self.desc[tr]["Tf"]
        nt = rng.choice([2, 3, 5])
        T = ref(self.new_arr((nt,), [round(Tf * i / (nt - 1), 10) for i in range(nt)]))
        fn = rng.choice(["traj_eval", "traj_eval", "traj_response"])
        kw = {"squeeze": rng.choice([True, False])} if fn == "traj_response" and rng.random() < 0.3 else {}
        self.emit(["op", None, fn, [ref(tr), T], kw])

    # ---------------------------------------------------------------- configuration steps
    def rnd_key(self):
        rng = self.rng
        if rng.random() < 0.6:
            return rng.choice(HOT)
        return rng.choice(sorted(KEYVALS))

    def rnd_val(self, key):
        return enc(self.rng.choice(KEYVALS[key]))

    def cfg_step(self, inner=False):
        rng = self.rng
        r = rng.random()
        if r < 0.22:
            key = self.rnd_key()
            if rng.random() < 0.08:
                key = rng.choice(["config.test1", "mymodule.option"])
                val = enc(rng.choice([1, None, "x"]))
            elif self.aliases and rng.random() < 0.3:
                old, new = rng.choice(self.aliases)
                key, val = old, self.rnd_val(new) if new in KEYVALS else enc(1)
            else:
                val = self.rnd_val(key)
            if not inner:
                self.dirty = True
            return ["set", key, val]
        if r < 0.30:
            keys = list(F.IMP_KEYS) + [o for o, _ in self.aliases] + ["bogus.key", "config.test1"]
            return ["get", rng.choice(keys) if rng.random() < 0.7 else self.rnd_key()]
        if r < 0.45:
            key = self.rnd_key()
            mod, _, par = key.partition(".")
            kvs = [[par, self.rnd_val(key)]]
            for k2 in sorted(KEYVALS):
                if k2.startswith(mod + ".") and k2 != key and rng.random() < 0.3 and len(kvs) < 3:
                    kvs.append([k2.partition(".")[2], self.rnd_val(k2)])
            if rng.random() < 0.1:
                kvs.insert(rng.randrange(len(kvs) + 1), ["bogus", enc(1)])
            if self.aliases and rng.random() < 0.3:
                old, new = rng.choice(self.aliases)
                mod, _, par = old.partition(".")
                kvs = [[par, self.rnd_val(new) if new in KEYVALS else enc(2)]]
            if not inner:
                self.dirty = True
            return ["sd", mod, kvs]
        if r < 0.50:
            # define a deprecated alias
            new = self.rnd_key() if rng.random() < 0.8 else "config.newmiss"
            old = rng.choice(["config.oldkey", "bode.dB", "control.old_dt"])
            if rng.random() < 0.12:
                old = rng.choice(HOT)            # alias that shadows an import-time key
            self.aliases.append((old, new))
            if not inner:
                self.dirty = True
            return ["set", "deprecated." + old, enc(new)]
        if r < 0.62:
            if not inner:
                self.dirty = False
            return ["reset"]
        if r < 0.70:
            if not inner:
                self.dirty = True
            return [rng.choice(["matlab", "fbs"])]
        if r < 0.76:
            if not inner:
                self.dirty = True
            return ["legacy", rng.choice(sorted(F.LEGACY))]
        return None   # with-block, produced by the caller

    def with_step(self, depth=0):
        rng = self.rng
        keys = rng.sample(HOT, rng.choice([1, 1, 2, 3]))
        mapping = [[k, self.rnd_val(k)] for k in keys]
        if rng.random() < 0.08:
            mapping.insert(rng.randrange(len(mapping) + 1), ["bogus.key", enc(1)])
        saved = self.cur
        body = []
        self.cur = body
        nbody = rng.choice([0, 1, 2, 2, 3, 4])
        for _ in range(nbody):
            r = rng.random()
            if r < 0.22 and depth < 2:
                self.with_step(depth + 1)
            elif r < 0.32:
                st = self.cfg_step(inner=True)
                if st is not None:
                    self.emit(st)
            elif r < 0.45 and self.probes:
                self.reprobe(inner=True)
            else:
                self.lib_step()
        self.cur = saved
        # constructors emitted inside the body stay inside the body
        self.emit(["with", mapping, body])

    # ---------------------------------------------------------------- probes
    PROBE_OPS = ("add", "mul", "sub", "neg", "m_call", "evalfr", "frequency_response", "dcgain", "poles", "zeros",
                 "step_response", "forced_response", "ss2tf", "tf2ss", "series", "parallel", "feedback", "str",
                 "repr", "nl_call", "nl_output", "stability_margins", "m_freqresp", "c2d", "ss", "tf",
                 "initial_response", "linearize", "input_output_response", "m_append", "append", "negate", "frd",
                 "unwrap", "connect", "minreal", "norm", "damp", "m_copy", "impulse_response", "interconnect",
                 "find_operating_point", "m_linearize", "nl_dynamics", "m_plot", "time_response_plot", "resp_plot",
                 "bode_plot", "nyquist_plot", "pzmap_plot", "nichols_plot", "root_locus_plot",
                 "singular_values_plot", "create_statefbk_iosystem", "create_estimator_iosystem",
                 "describing_function", "markov", "margin_arrays", "sample_system", "model_reduction",
                 "lti_dynamics", "lti_output", "nyquist_response", "combine_time_responses", "sum", "cost_eval",
                 "traj_eval", "traj_response", "flat_forward", "flat_reverse")

    def add_probe(self):
        """turn a freshly generated library step into a probe (constructors stay as they are)"""
        mark = len(self.cur)
        self.lib_step()
        new = self.cur[mark:]
        if not new:
            return
        st = new[-1]
        if st[0] != "op" or st[2] not in self.PROBE_OPS:
            return
        if "params" in st[4] and st[2] == "nl_call":
            return
        self.ntag += 1
        pr = ["probe", "p%d" % self.ntag, st[2], st[3], st[4]]
        if st[1] is not None:
            self.desc.pop(st[1], None)
        self.cur[-1] = pr
        self.probes.append((pr, self.dirty))

    def reprobe(self, inner=False):
        pr, dirty0 = self.rng.choice(self.probes)
        if not inner and self.dirty and not dirty0:
            self.emit(["reset"])
            self.dirty = False
        self.emit(copy.deepcopy(pr))

    # ---------------------------------------------------------------- driver
    LIB = [("op_arith", 10), ("op_div", 2), ("op_unary", 4), ("op_append", 5), ("op_feedback", 4),
           ("op_bdalg", 9), ("op_connect", 1), ("op_convert", 9), ("op_eval", 9), ("op_margins", 3),
           ("op_matrix", 3), ("op_transform", 3), ("op_time", 8), ("op_nl", 7), ("op_util", 4),
           ("op_plot", 1.5), ("op_objarr", 2), ("op_findop", 4), ("op_statefbk", 2), ("op_ident", 4),
           ("op_interconnect", 2), ("op_sum", 2), ("op_nlarith", 3), ("op_rename", 4), ("op_optimal", 1.2),
           ("op_estim", 0.3), ("op_flat", 0.8)]

    def lib_step(self):
        names = [n for n, _ in self.LIB]
        weights = [w for _, w in self.LIB]
        getattr(self, self.rng.choices(names, weights)[0])()

    def history(self, nsteps, cfg_share):
        rng = self.rng
        self.cur = self.steps
        while len(list(self.all_steps())) < nsteps:
            r = rng.random()
            if r < cfg_share:
                st = self.cfg_step()
                if st is None:
                    self.with_step()
                else:
                    self.emit(st)
            elif r < cfg_share + 0.12:
                self.add_probe()
            elif r < cfg_share + 0.27 and self.probes:
                self.reprobe()
            else:
                self.lib_step()
        # re-run every probe at the end
        for pr, dirty0 in self.probes:
            if rng.random() < 0.7:
                if self.dirty and not dirty0:
                    self.emit(["reset"])
                    self.dirty = False
                self.emit(copy.deepcopy(pr))
        return self.steps


def gen_hist(rng, tier):
    g = Gen(rng, tier)
    n = rng.choice([5, 8, 12, 16, 20]) if tier == "quick" else rng.choice([8, 15, 25, 40])
    share = rng.choice([0.0, 0.1, 0.25, 0.25, 0.6])
    return {"type": "hist", "hist": g.history(n, share)}


def gen_cfg_only(rng, tier):
    """configuration machine only: long histories of configuration calls"""
    g = Gen(rng, tier)
    g.LIB = [("op_eval", 1), ("op_arith", 1)]
    n = rng.choice([6, 10, 20, 30])
    return {"type": "hist", "hist": g.history(n, 0.85)}


def gen_nl(rng, tier):
    n = rng.choice([1, 2, 2, 3])
    def params():
        return [[k, enc(rng.randint(1, 9))] for k in sorted(rng.sample(["a", "b", "c"], rng.randint(0, 3)))]
    static = [rng.random() < 0.6 for _ in range(n)]
    subs = [params() for _ in range(n)]
    top = params() if rng.random() < 0.6 else []
    calls = []
    for _ in range(rng.randint(3, 10 if tier == "quick" else 16)):
        ov = None if rng.random() < 0.45 else [[k, enc(rng.randint(10, 19))] for k in
                                               sorted(rng.sample(["a", "b", "c", "d"], rng.randint(0, 2)))]
        r = rng.random()
        st = [j for j in range(n) if static[j]]
        if r < 0.4 and st:
            calls.append(["call", rng.choice(st), ov, ""])
        elif r < 0.65:
            calls.append(["eval", rng.randrange(n), ov, rng.choice(["output", "dynamics"])])
        else:
            calls.append(["ics", 0, ov, rng.choice(["output", "dynamics", "response", "linearize"])])
    return {"type": "nl", "subs": subs, "static": static, "top": top, "calls": calls}


def gen_plot(rng, tier):
    """short histories made of plotting calls (time responses with their inputs, frequency
    plots, pole/zero plots; line-style keywords), repeated as probes, with configuration calls in
    between"""
    g = Gen(rng, tier)
    g.LIB = [("op_plot", 7), ("op_time", 2), ("op_eval", 1)]
    return {"type": "hist", "hist": g.history(rng.choice([3, 4, 6]), rng.choice([0.0, 0.15, 0.3]))}


def gen_args(rng, tier):
    """histories concentrated on functions that take caller-owned arrays / lists / dictionaries"""
    g = Gen(rng, tier)
    g.LIB = [("op_findop", 6), ("op_nl", 4), ("op_time", 3), ("op_statefbk", 2), ("op_ident", 3),
             ("op_matrix", 2), ("op_transform", 1), ("op_convert", 1), ("op_interconnect", 3)]
    return {"type": "hist", "hist": g.history(rng.choice([5, 8, 12]), rng.choice([0.0, 0.1, 0.25]))}


def gen_opt(rng, tier):
    """histories on problem objects of control.optimal (several compute_trajectory /
    compute_estimate calls on one object, warm starts taken from earlier results, MPC controllers),
    flat-system trajectories"""
    g = Gen(rng, tier)
    g.LIB = [("op_optimal", 8), ("op_estim", 1.5), ("op_mpc_eval", 1), ("op_flat", 2), ("op_eval", 1)]
    return {"type": "hist", "hist": g.history(rng.choice([12, 18, 26]), rng.choice([0.0, 0.0, 0.1, 0.2]))}


def gen_mixed(rng, tier):
    """operators and block-diagram functions on operands of mixed kinds (scalars incl. 0 and 1,
    arrays, linear and nonlinear systems) in either order, sum(), results renamed by the caller"""
    g = Gen(rng, tier)
    g.LIB = [("op_arith", 4), ("op_bdalg", 6), ("op_feedback", 2), ("op_sum", 2), ("op_nlarith", 3),
             ("op_rename", 5), ("op_unary", 2), ("op_div", 1), ("op_eval", 1)]
    return {"type": "hist", "hist": g.history(rng.choice([4, 6, 10]), rng.choice([0.0, 0.0, 0.1, 0.25]))}


def gen_case(rng, tier):
    r = rng.random()
    if r < 0.50:
        return gen_hist(rng, tier)
    if r < 0.61:
        return gen_cfg_only(rng, tier)
    if r < 0.71:
        return gen_nl(rng, tier)
    if r < 0.80:
        return gen_args(rng, tier)
    if r < 0.87:
        return gen_plot(rng, tier)
    if r < 0.92:
        return gen_opt(rng, tier)
    return gen_mixed(rng, tier)


# ---------------------------------------------------------------------------------------------
# sweeps: input classes that are enumerated on every run (on randomly drawn systems) instead of
# being left to chance
# ---------------------------------------------------------------------------------------------
def identity_forms(S, p, m, kind, g):
    """operations whose mathematical result equals the operand S (an identity element on either
    side, a single-system block-diagram call, a conversion to the type S already has, the identity
    transformation): the place where an implementation may hand back S itself instead of a new
    system.  Entries: (opname, args, accepts name / inputs / outputs keywords)"""
    zeros = lambda: ref(g.new_arr((p, m), [[0.0] * m for _ in range(p)], plain=True))
    eye = lambda k: ref(g.new_arr((k, k), [[1.0 if i == j else 0.0 for j in range(k)] for i in range(k)], plain=True))
    forms = [("add", [0, S], False), ("add", [0.0, S], False), ("add", [S, 0], False), ("add", [S, 0.0], False),
             ("sub", [S, 0], False), ("mul", [1, S], False), ("mul", [S, 1], False), ("mul", [1.0, S], False),
             ("div", [S, 1], False), ("add", [zeros(), S], False), ("add", [S, zeros()], False),
             ("mul", [S, eye(m)], False), ("mul", [eye(p), S], False),
             ("sum", [{"lst": [S]}], False), ("sum", [{"lst": [S]}, 0], False), ("sum", [{"lst": [S]}, 0.0], False),
             ("parallel", [0, S], True), ("parallel", [0.0, S], True), ("parallel", [S, 0], True),
             ("parallel", [S], True), ("parallel", [zeros(), S], True),
             ("series", [1, S], True), ("series", [S, 1], True), ("series", [1.0, S], True), ("series", [S], True),
             ("series", [S, eye(p)], True),
             ("append", [S], True), ("feedback", [S, 0], True), ("feedback", [S, 0.0], True),
             ("m_feedback", [S, 0], False), ("m_copy", [S], False)]
    if kind in ("ss", "tf"):
        forms += [(kind, [S], True), ("m_to_" + kind, [S], False)]
        if kind == "tf" or p == m:
            forms += [("minreal", [S], False), ("m_minreal", [S], False)]
    if kind == "ss":
        forms += [("StateSpace", [S], False)]
    if kind == "tf":
        forms += [("TransferFunction", [S], False)]
    if kind in ("nls", "nld"):
        forms += [("nlsys_of", [S], True)]
    if p == m and kind in ("ss", "tf", "frd"):
        forms += [("pow", [S, 1], False)]          # last: `StateSpace ** 1` is a listed finding
    return forms


def sweep_identity(rng, tier):
    """every identity form on every kind of system (SISO / MIMO StateSpace, TransferFunction, FRD,
    static and dynamic nonlinear systems), once with the naming keywords in the call and once with
    the *caller* renaming the result afterwards (`update_names`); the operand must stay as it was"""
    cases = []
    kinds = [("ss", 1, 1), ("ss", 2, 2), ("tf", 1, 1), ("tf", 2, 2), ("frd", 1, 1), ("nls", 1, 1), ("nld", 1, 1)]
    if tier != "quick":
        kinds = kinds * 4 + [("ss", 1, 2), ("ss", 2, 1), ("tf", 1, 2)]
    for kind, p, m in kinds:
        g = Gen(rng, tier)
        g.cur = g.steps
        if kind == "ss":
            S = g.new_ss(p, m, name=g.fresh("S") if rng.random() < 0.5 else None)
        elif kind == "tf":
            S = g.new_tf(p, m, name=g.fresh("G") if rng.random() < 0.5 else None)
        elif kind == "frd":
            S = g.new_frd(order="asc", smooth=False)
        else:
            S = g.new_nl(kind == "nls", kind=kind)
        head = list(g.steps)
        forms = identity_forms(ref(S), p, m, kind, g)
        consts = g.steps[len(head):]            # the arrays used by the forms
        chunk = 5
        for i in range(0, len(forms), chunk):
            need = set(F.slots_in([a for _, a, _ in forms[i:i + chunk]], []))
            g.steps = list(head) + [st for st in consts if st[1] in need]
            g.cur = g.steps
            for opname, args, named in forms[i:i + chunk]:
                kw = {}
                if named and rng.random() < 0.5:
                    kw["name"] = g.fresh("Q")
                    if rng.random() < 0.6:
                        kw["inputs"] = ["in%d" % j for j in range(m)]
                    if rng.random() < 0.6:
                        kw["outputs"] = ["out%d" % j for j in range(p)]
                out = g.out({"k": "res"})
                g.emit(["op", out, opname, copy.deepcopy(args), kw])
                if "name" not in kw:
                    kw2 = {"name": g.fresh("R")}
                    if rng.random() < 0.5:
                        kw2["inputs"] = ["ri%d" % j for j in range(m)]
                    if rng.random() < 0.5:
                        kw2["outputs"] = ["ro%d" % j for j in range(p)]
                    g.emit(["op", None, "update_names", [ref(out)], kw2])
            cases.append({"type": "hist", "hist": g.steps})
    return cases


def sweep_problem_history(rng, tier):
    """chains of calls on one problem object of control.optimal: each compute_trajectory starts
    from a new (or, one time in four, the same) initial state and is warm-started with the inputs
    the previous call returned, a caller-owned array, or not at all"""
    cases = []
    for _ in range(5 if tier == "quick" else 40):
        g = Gen(rng, tier)
        g.cur = g.steps
        o = g.new_ocp()
        d = g.desc[o]
        prev, x = None, None
        for _ in range(rng.choice([3, 4, 5])):
            kw = {}
            r = rng.random()
            if prev is not None and r < 0.7:
                kw["initial_guess"] = {"item": [prev, "inputs"]}
            elif r < 0.8:
                kw["initial_guess"] = ref(g.new_arr((d["m"], d["N"])))
            if rng.random() < 0.3:
                kw["print_summary"] = False
            x = g.state_arg(d["n"]) if x is None or rng.random() < 0.75 else x
            prev = g.out({"k": "ocpres", "ocp": o})
            g.emit(["op", prev, "ocp_compute_trajectory", [ref(o), x], kw])
            if rng.random() < 0.15:
                g.emit(["op", None, "ocp_compute_mpc", [ref(o), g.state_arg(d["n"])], {}])
        cases.append({"type": "hist", "hist": g.steps})
    # estimation problems: measurements, inputs, the expected initial state (given / not given) and
    # the warm start change from call to call
    for _ in range(3 if tier == "quick" else 20):
        g = Gen(rng, tier)
        g.cur = g.steps
        o = g.new_oep(prior=0.8)
        for _ in range(rng.choice([3, 4])):
            g.estim_call(o, px0=0.5, pfn=0.0)
        cases.append({"type": "hist", "hist": g.steps})
    return cases


def system_queries(g, S, d, tier, plots=True):
    """operations that *read* a state-space system (p x m, n >= 2 states): queries, evaluations,
    responses, conversions, transformations, matrix functions applied to the system's own
    matrices (as `ssdata` hands them out), binary operations with the system on both sides.  None
    of them may change the system.  Entries: (opname, args, kw, keep-result-slot-or-None)"""
    rng = g.rng
    p, m, n, dt = d["p"], d["m"], d["n"], d["dt"]
    siso, cont, square = (p, m) == (1, 1), dt == "C", p == m
    R = ref(S)
    eye = lambda k: [[1.0 if i == j else 0.0 for j in range(k)] for i in range(k)]
    h = 0.1 if dt in ("C", "N", "T") else dt
    h = 1.0 if dt == "T" else h
    nt = 5
    T = [round(i * h, 10) for i in range(nt)]
    omega = [0.1, 1.0, 10.0] if cont else [0.1, 1.0, 3.0]
    x0 = [float(rng.randint(-2, 2)) for _ in range(n)]
    u0 = [float(rng.randint(-2, 2)) for _ in range(m)]
    U = [[float(rng.randint(-2, 2)) for _ in range(nt)] for _ in range(m)]
    Q = []

    def add(op, args, kw=None, out=None):
        Q.append((op, args, kw or {}, out))

    for fn in ("poles", "m_poles", "damp", "m_damp", "zeros", "m_zeros", "dcgain", "m_dcgain", "pole_zero_map",
               "tfdata", "str", "repr", "latex", "m_scipy", "isctime", "m_isctime", "issiso", "m_issiso"):
        add(fn, [R])
    z = rng.choice([{"cplx": [0.0, 1.0]}, {"cplx": [0.5, 2.0]}, 1.0, 0])
    add("m_call", [R, z]); add("evalfr", [R, z])
    add("m_freqresp", [R, omega]); add("frequency_response", [R, omega])
    add("frequency_response", [R, None])            # default frequency range: from the poles and zeros
    add("frd", [R, omega], out="res")
    add("singular_values_response", [R])
    add("norm", [R, 2]); add("norm", [R, "inf"])
    add("step_info", [R])
    add("step_response", [R]); add("impulse_response", [R])      # default time vector: from the poles
    add("step_response", [R, T]); add("initial_response", [R, T, x0])
    add("forced_response", [R, T, U if m > 1 else U[0]]); add("forced_response", [R, T, U if m > 1 else U[0], x0])
    add("input_output_response", [R, T, U if m > 1 else U[0], x0])
    add("lti_dynamics", [R, 0, x0, u0]); add("lti_output", [R, 0, x0, u0])
    add("linearize", [R, x0, u0], out="res"); add("m_linearize", [R, x0, u0])
    add("find_operating_point", [R, x0, u0])
    # conversions / copies / transformations of the system
    for fn in ("m_copy", "neg", "ss", "StateSpace", "nlsys_of", "ss2tf", "m_to_tf", "tf", "m_to_ss", "minreal",
               "m_minreal"):
        add(fn, [R], out="res")
    add("canonical_form", [R, "reachable"]); add("canonical_form", [R, "observable"]); add("canonical_form", [R, "modal"])
    add("similarity_transform", [R, ref(g.new_arr((n, n), g.transform_T(n), plain=True))], out="res")
    add("modred", [R, [n - 1], "truncate"], out="res"); add("modred", [R, [n - 1], "matchdc"], out="res")
    add("model_reduction", [R], {"keep_states": list(range(n - 1)), "method": "matchdc", "warn_unstable": False}, out="res")
    if cont:
        for meth in ("zoh", "bilinear", "euler"):
            add("c2d", [R, 0.1, meth], out="res")
        add("m_sample", [R, 0.1, "zoh"], out="res")
        add("sample_system", [R, 0.1], {"method": "foh"}, out="res")
        add("sample_system", [R, 0.1], {"method": "gbt", "alpha": 0.5}, out="res")
        add("lqr", [R, eye(n), eye(m)])
    else:
        add("dlqr", [R, eye(n), eye(m)])
    add("lqe", [R, eye(m), eye(p)])
    add("create_estimator_iosystem", [R, eye(m), eye(p)], out="res")
    if siso:
        for fn in ("stability_margins", "margin", "bandwidth", "nyquist_response") + \
                (("root_locus_map",) if tier != "quick" else ()):          # 1 s per call
            add(fn, [R])
        add("gangof4_response", [R, R])
        add("pow", [R, 2], out="res"); add("pow", [R, -1], out="res"); add("div", [R, R], out="res")
        add("div", [1, R], out="res")
    # the system as both operands / next to scalars and arrays
    add("add", [R, R], out="res"); add("sub", [R, R], out="res"); add("parallel", [R, R], out="res")
    add("append", [R, R], out="res"); add("m_append", [R, R], out="res")
    add("mul", [2.0, R], out="res"); add("mul", [R, ref(g.new_arr((m, m), plain=True))], out="res")
    add("add", [R, ref(g.new_arr((p, m), plain=True))], out="res")
    add("getitem", [R, 0, 0], out="res")
    if square:
        add("mul", [R, R], out="res"); add("series", [R, R], out="res")
        add("feedback", [R, 1], out="res"); add("feedback", [R, R], out="res"); add("m_feedback", [R, R], out="res")
    # matrix functions on the system's own matrices, as `ssdata` (or attribute access) hands them out
    sd = g.fresh("r")
    A, B, C = {"item": [sd, 0]}, {"item": [sd, 1]}, {"item": [sd, 2]}
    add("ssdata", [R], out=sd)
    add("ctrb", [A, B]); add("obsv", [A, C])
    add("lyap" if cont else "dlyap", [A, eye(n)])
    add("lqr_abqr", [A, B, eye(n), eye(m)])
    add("care" if cont else "dare", [A, B, eye(n), eye(m)])
    add("place", [A, B, [-1.0 - i for i in range(n)] if cont else [0.1 * (i + 1) for i in range(n)]])
    if m == 1:
        add("acker", [A, B, [-1.0 - i for i in range(n)] if cont else [0.1 * (i + 1) for i in range(n)]])
    add("StateSpace", [A, B, C, {"item": [sd, 3]}] + ([] if cont else [dt_arg(dt)]), out="res")
    # plots (default frequency ranges / pole-zero maps read the poles)
    add("pzmap_plot", [R])
    if plots:
        add("bode_plot", [R])                        # 0.3 s per call
    if tier != "quick":
        add("singular_values_plot", [R]); add("resp_plot", [R])
        if siso:
            add("nyquist_plot", [R]); add("nichols_plot", [R]); add("root_locus_plot", [R])
    return Q, sd


def dt_arg(dt):
    return {"N": None, "T": True, "C": 0}.get(dt, dt) if isinstance(dt, str) else dt


LAYOUT_SOURCES = ["F", "T", "sim", "derived", "slice", "lit"]


def sweep_layout(rng, tier):
    """query-then-use on state-space systems whose own matrices are *not* the row-major, already
    triangular arrays of the other streams: A with a general structure (never upper triangular
    here) and >= 2 states, held column-major (built from np.asfortranarray data; a dual system built
    from transposed arrays; the result of similarity_transform; a copy / negation / rescaling /
    sampling of such a system), in a non-contiguous window, or row-major as a control.  Every
    reading operation of `system_queries` is applied (in shuffled chunks, each between two
    evaluations of the same probe); the system, every array it was built from and every earlier
    result must stay as they were."""
    cases = []
    reps = 1 if tier == "quick" else 3
    forms = [f for f in Gen.A_FORMS if f != "upper"]
    mimo = [(2, 2), (2, 2), (1, 2), (2, 1)]
    for rep in range(reps):
        plot_src = rng.choice(LAYOUT_SOURCES[:4])
        # among the four column-major sources of every repetition: continuous and discrete time,
        # SISO (margins, root locus ...) and MIMO, at least two different structures of A
        dts = ["C", "C", rng.choice([0.1, 0.5, "T"]), rng.choice(["C", 0.1])]
        shapes = [(1, 1), (1, 1), rng.choice(mimo), rng.choice([(1, 1)] + mimo)]
        rng.shuffle(dts)
        rng.shuffle(shapes)
        fs = rng.sample(forms, 4)
        for k, src in enumerate(LAYOUT_SOURCES):
            g = Gen(rng, tier)
            g.cur = g.steps
            p, m = shapes[k] if k < 4 else rng.choice([(1, 1), (1, 1)] + mimo)
            n = rng.choice([2, 3, 3, 4])
            dt = dts[k] if k < 4 else rng.choice(["C", "C", "C", 0.1, "T"])
            form = fs[k] if k < 4 else rng.choice(forms)
            name = g.fresh("S") if rng.random() < 0.5 else None
            if src in ("F", "T", "slice", "lit"):
                S = g.new_ss(p, m, dt=dt, via=src, n=n, form=form, name=name)
            else:
                S0 = g.new_ss(p, m, dt=dt, via=rng.choice(["lit", "arr", "F", "T"]) if src == "sim" else rng.choice(["F", "T"]),
                              n=n, form=form, name=name)
                S = g.out(dict(g.desc[S0]))
                if src == "sim":
                    g.emit(["op", S, "similarity_transform", [ref(S0), ref(g.new_arr((n, n), g.transform_T(n), layout=rng.choice([None, "F"])))], {}])
                else:
                    op, args = rng.choice([("m_copy", [ref(S0)]), ("neg", [ref(S0)]), ("ss", [ref(S0)]),
                                           ("StateSpace", [ref(S0)]), ("mul", [2.0, ref(S0)]), ("mul", [ref(S0), 2.0]),
                                           ("add", [ref(S0), 0.0]),
                                           ("similarity_transform", [ref(S0), ref(g.new_arr((n, n), g.transform_T(n)))])])
                    g.emit(["op", S, op, args, {}])
            d = dict(g.desc[S], p=p, m=m, n=n, dt=dt)
            head = list(g.steps)
            Q, sd = system_queries(g, S, d, tier, plots=tier != "quick" or src == plot_src)
            consts = g.steps[len(head):]            # arrays used by some of the queries
            first, rest = Q[:4], Q[4:]              # poles / damp both as function and as method in every run
            sdq = [q for q in rest if sd in F.slots_in(q[1], []) or q[3] == sd]
            rest = [q for q in rest if q not in sdq]
            rng.shuffle(rest)
            rest = first + rest
            chunks = [rest[i:i + 9] for i in range(0, len(rest), 9)] + [sdq]
            z = {"cplx": [0.5, 2.0]}
            for ch in chunks:
                need = set(F.slots_in([q[1] for q in ch], []))
                g.steps = list(head) + [st for st in consts if st[1] in need]
                g.cur = g.steps
                g.emit(["probe", "p1", "m_call", [ref(S), z], {}])
                g.emit(["probe", "p2", "ssdata", [ref(S)], {}])
                for op, args, kw, out in ch:
                    slot = None if out is None else (g.out({"k": "res"}) if out == "res" else out)
                    g.emit(["op", slot, op, copy.deepcopy(args), dict(kw)])
                g.emit(["probe", "p1", "m_call", [ref(S), z], {}])
                g.emit(["probe", "p2", "ssdata", [ref(S)], {}])
                cases.append({"type": "hist", "hist": g.steps})
    return cases


# (order of the frequency vector, how the caller holds it, outputs, inputs, how the FRD is obtained)
FRD_SOURCES = [("desc", "arr", 1, 1, "new"), ("shuf", "lit", 1, 1, "new"), ("desc", "view", 1, 1, "new"),
               ("shuf", "int", 1, 1, "new"), ("desc", "arr", 2, 2, "new"), ("shuf", "list", 2, 2, "new"),
               ("desc", "arr", 1, 1, "copy"), ("shuf", "arr", 1, 1, "result"), ("asc", "arr", 1, 1, "new"),
               ("asc", "view", 1, 1, "smooth")]


def frd_operations(g, S, d, tier):
    """operations that *read* an FRD S (p x m) given on the frequency vector `d["omega"]`: every
    binary operator / block-diagram function with a TransferFunction, a StateSpace system, a
    second FRD built on the same caller-owned frequency vector, S itself, scalars and arrays as the
    other operand, in both orders; evaluations at its own frequencies; conversions, copies, powers,
    indexing, responses, margins, printing.  None of them may change S, the arrays it was built
    from, its partners or an earlier result.  Entries: (opname, args, kw, keep result?)"""
    rng = g.rng
    p, m, om, w_arg = d["p"], d["m"], d["omega"], d["w_arg"]
    siso = (p, m) == (1, 1)
    R = ref(S)
    Q = []

    def add(op, args, kw=None, out=None):
        Q.append((op, args, kw or {}, out))

    G = ref(g.new_tf(p, m, dt="C", name=g.fresh("G") if rng.random() < 0.5 else None))
    P = ref(g.new_ss(p, m, dt=rng.choice(["C", "N"])))
    F2 = ref(g.new_frd(p=p, m=m, omega=(w_arg, om), smooth=False))
    lti = []            # the class the FRD operators re-sample on their own grid
    for b in (G, P):
        for op in ("add", "sub", "mul", "div", "feedback", "m_feedback", "series", "parallel", "append", "m_append"):
            lti.append((op, [R, b], {}, "res"))
            lti.append((op, [b, R], {}, "res"))
        lti.append(("sum", [{"lst": [b, R]}], {}, "res"))
        lti.append(("sum", [{"lst": [R, b]}, b], {}, "res"))
    lti.append(("gangof4_response", [R, G], {}, None))
    lti.append(("gangof4_response", [G, R], {}, None))
    lti.append(("feedback", [R, G, 1], {"name": g.fresh("FB")}, "res"))
    lti.append(("series", [G, R, P], {}, "res"))
    lti.append(("parallel", [R, G, P], {"name": g.fresh("Q")}, "res"))
    for b in (F2, R):
        for op in ("add", "sub", "mul", "div", "feedback", "series", "parallel", "m_append"):
            add(op, [R, b], out="res")
        add("add", [b, R], out="res"); add("mul", [b, R], out="res")
    for c in (2, 1, 0.5):
        for op in ("add", "mul", "div", "feedback", "parallel", "series"):
            add(op, [R, c], out="res"); add(op, [c, R], out="res")
    add("add", [R, ref(g.new_arr((p, m), plain=True))], out="res")
    add("mul", [ref(g.new_arr((p, p), plain=True)), R], out="res")
    add("mul", [R, ref(g.new_arr((m, m), plain=True))], out="res")
    for fn in ("neg", "m_copy", "frd"):
        add(fn, [R], out="res")
    for fn in ("str", "repr", "m_isctime", "m_issiso", "isctime", "singular_values_response"):
        add(fn, [R])
    for w in om[:2]:
        add("evalfr", [R, {"cplx": [0.0, w]}]); add("m_call", [R, {"cplx": [0.0, w]}])
    add("m_freqresp", [R, copy.deepcopy(w_arg)])        # at its own frequencies: the very vector it was built from
    add("frequency_response", [R, list(reversed(om))])
    add("frequency_response", [R, None])
    add("m_freqresp", [R, g.freq_vec(vals=om[1:] + om[:1], hold=rng.choice(["arr", "list", "view"]))[0]])
    add("frequency_response", [{"lst": [R, G]}, copy.deepcopy(w_arg)])
    add("pow", [R, 2], out="res"); add("pow", [R, -1], out="res"); add("pow", [R, 0], out="res")
    if siso:
        for fn in ("stability_margins", "margin", "nyquist_response", "bandwidth"):
            add(fn, [R])
    else:
        add("getitem", [R, 0, 1], out="res"); add("getitem", [R, 1, 0], out="res")
    plots = [("bode_plot", [{"lst": [R, G]}], {}, None), ("bode_plot", [R], {}, None)]
    if siso:
        plots += [("nyquist_plot", [R], {}, None), ("nichols_plot", [R], {}, None)]
    else:
        plots += [("singular_values_plot", [R], {}, None)]
    return lti, Q, plots


def omega_functions(g, w, om, tier):
    """every function that takes a frequency vector (or another vector with a natural order),
    applied to the one caller-owned vector `w`"""
    rng = g.rng
    G = ref(g.new_tf(1, 1, dt="C"))
    P = ref(g.new_ss(1, 1, dt="C"))
    M = ref(g.new_ss(2, 2, dt=rng.choice(["C", 0.1])))
    n = len(om)
    mag = ref(g.new_arr((n,), [round(4.0 / (1 + x * x), 6) for x in om], plain=True))
    ph = ref(g.new_arr((n,), [round(-1.5 * x, 6) for x in om], plain=True))
    W = lambda: copy.deepcopy(w)
    Q = [("m_freqresp", [G, W()], {}, None), ("m_freqresp", [M, W()], {}, None),
         ("frequency_response", [P, W()], {}, None), ("frequency_response", [{"lst": [G, P]}, W()], {}, None),
         ("frequency_response", [M, W()], {"squeeze": False}, None),
         ("frd", [G, W()], {}, "res"), ("frd", [M, W()], {}, "res"), ("frd", [P, W()], {"smooth": True}, "res"),
         ("singular_values_response", [M, W()], {}, None), ("nyquist_response", [G, W()], {}, None),
         ("gangof4_response", [G, P, W()], {}, None), ("describing_function", ["sat", 0.5, W()], {}, None),
         ("root_locus_map", [G, W()], {}, None), ("margin_arrays", [mag, ph, W()], {}, None),
         ("stability_margins_arrays", [mag, ph, W()], {}, None), ("unwrap", [W()], {}, None),
         ("mag2db", [W()], {}, None), ("bode_plot", [rng.choice([G, P]), W()], {}, None)]
    if tier != "quick":
        Q += [("nyquist_plot", [G, W()], {}, None), ("nichols_plot", [P, W()], {}, None),
              ("singular_values_plot", [M, W()], {}, None), ("bode_plot", [{"lst": [G, P]}], {"omega": W()}, None),
              ("describing_function_plot", [G, "sat", 1.0, ref(g.new_arr((3,), [2.0, 1.0, 4.0], plain=True)), W()], {}, None)]
    return Q


def sweep_frd(rng, tier):
    """frequency response data on frequency vectors that are *not* increasing (decreasing: measurements
    listed from high to low frequency; no order at all), held by the caller as a literal list, a float
    array, a view with guard cells, a list object or an integer array; SISO and 2x2 (3-D data); an FRD
    obtained by the copy constructor (which shares the arrays of its source) or as the result of an
    earlier operation; an increasing vector and an interpolating FRD as controls.  On each: every
    binary operation with a partner of another kind (TransferFunction, StateSpace: the FRD operators
    re-sample it on the FRD's own frequency vector) in both orders, with FRD partners on the same
    vector, scalars and arrays, and every reading operation (`frd_operations`), in shuffled chunks,
    each between two evaluations of two probes (value at a listed frequency; the printed table).
    Second part: every function that takes a frequency vector, called with one caller-owned
    vector in each order / holder (`omega_functions`)."""
    cases = []
    reps = 1 if tier == "quick" else 3
    for rep in range(reps):
        for order, hold, p, m, how in FRD_SOURCES:
            g = Gen(rng, tier)
            g.cur = g.steps
            name = g.fresh("F") if rng.random() < 0.5 else None
            if how in ("new", "smooth"):
                S = g.new_frd(order=order, hold=hold, p=p, m=m, smooth=how == "smooth", name=name)
                w_arg, om = g.frd_omega[S]
            else:
                S0 = g.new_frd(order=order, hold=hold, p=p, m=m, smooth=False, name=name)
                w_arg, om = g.frd_omega[S0]
                S = g.out(dict(g.desc[S0]))
                if how == "copy":
                    g.emit(["op", S, "frd", [ref(S0)], {}])
                else:
                    op, args = rng.choice([("neg", [ref(S0)]), ("mul", [ref(S0), 2.0]), ("mul", [2.0, ref(S0)]),
                                           ("m_copy", [ref(S0)]), ("mul", [ref(S0), ref(S0)])])
                    g.emit(["op", S, op, args, {}])
            d = {"p": p, "m": m, "omega": list(om), "w_arg": w_arg}
            head = list(g.steps)
            lti, Q, plots = frd_operations(g, S, d, tier)
            consts = g.steps[len(head):]
            if tier == "quick":         # the mixed-kind operations always; a sample of the others
                Q = rng.sample(Q, min(len(Q), 30))
                plots = rng.sample(plots, 1) if rep == 0 and rng.random() < 0.5 else []
            rest = lti + Q + plots
            rng.shuffle(rest)
            z = {"cplx": [0.0, om[0]]}
            for i in range(0, len(rest), 10):
                ch = rest[i:i + 10]
                need = set(F.slots_in([q[1] for q in ch], []))
                # constants and the slots they are built from (views: their base arrays)
                keep, todo = set(), list(need)
                while todo:
                    x = todo.pop()
                    if x in keep:
                        continue
                    keep.add(x)
                    for st in consts:
                        if st[1] == x:
                            todo += F.slots_in(st[3], [])
                g.steps = list(head) + [st for st in consts if st[1] in keep]
                g.cur = g.steps
                g.emit(["probe", "p1", "evalfr", [ref(S), z], {}])
                g.emit(["probe", "p2", "str", [ref(S)], {}])
                for op, args, kw, out in ch:
                    g.emit(["op", None if out is None else g.out({"k": "res"}), op, copy.deepcopy(args), dict(kw)])
                g.emit(["probe", "p1", "evalfr", [ref(S), z], {}])
                g.emit(["probe", "p2", "str", [ref(S)], {}])
                cases.append({"type": "hist", "hist": g.steps})
        # functions that take a frequency vector
        for order in ("desc", "shuf"):
            for hold in ("arr", "view", "list", "int"):
                g = Gen(rng, tier)
                g.cur = g.steps
                w, om = g.freq_vec(order=order, hold=hold)
                Q = omega_functions(g, w, om, tier)
                rng.shuffle(Q)
                for op, args, kw, out in Q:
                    g.emit(["op", None if out is None else g.out({"k": "res"}), op, args, dict(kw)])
                cases.append({"type": "hist", "hist": g.steps})
    return cases


def generate(rng, tier):
    n = 700 if tier == "quick" else 6000
    return [gen_case(rng, tier) for _ in range(n)] + sweep_identity(rng, tier) + sweep_problem_history(rng, tier) \
        + sweep_layout(rng, tier) + sweep_frd(rng, tier)


def corpus():
    """minimised past disagreements"""
    H = lambda *s: {"type": "hist", "hist": list(s)}
    ss = lambda slot, a, dt=None, **kw: ["new", slot, "ss", dict(
        {"abcd": [[[a]], [[1.0]], [[1.0]], [[0.0]]]}, **(dict(dt=dt) if dt is not None else {}), **({"kw": kw} if kw else {}))]
    tf = lambda slot, num, den, **kw: ["new", slot, "tf", dict({"num": num, "den": den}, **({"kw": kw} if kw else {}))]
    return [
        # a.append(b) assigns a.dt
        H(ss("a", -1.0, "N"), ss("b", -2.0, 0.1), ["op", "r", "m_append", [ref("a"), ref("b")], {}]),
        # unwrap overwrites its argument
        H(["new", "x", "arr", {"v": [0.0, 6.0, 0.5, 7.0]}], ["op", None, "unwrap", [ref("x")], {}]),
        # static nonlinear system keeps the override of the previous call
        {"type": "nl", "subs": [[["a", "~i1"]]], "static": [True], "top": [],
         "calls": [["call", 0, None, ""], ["call", 0, [["a", "~i5"]], ""], ["call", 0, None, ""]]},
        H(["new", "n", "nls", {"params": {"a": 1.0}}],
          ["probe", "p1", "nl_call", [ref("n"), 2.0], {}],
          ["op", None, "nl_call", [ref("n"), 2.0], {"params": {"a": 5.0}}],
          ["probe", "p1", "nl_call", [ref("n"), 2.0], {}]),
        # TransferFunction(num, den) with 2-D object arrays rewrites the caller's arrays
        H(["new", "n", "oarr", {"v": [[[0.0, 1.0, 2.0]]]}], ["new", "d", "oarr", {"v": [[[1.0, 2.0, 3.0]]]}],
          ["op", "g", "TransferFunction", [ref("n"), ref("d")], {}]),
        H(["new", "n", "oarr", {"v": [[[0.0, 0.0]]]}], ["new", "d", "oarr", {"v": [[[1.0, 2.0, 3.0]]]}],
          ["op", "g", "TransferFunction", [ref("n"), ref("d")], {}]),
        # series / parallel / append with a single system rename the operand
        H(tf("P", [1.0], [1.0, 1.0], name="P"), ["op", "q", "series", [ref("P")], {"name": "Q"}]),
        H(tf("P", [1.0], [1.0, 1.0], name="P"), ["op", "q", "parallel", [ref("P")], {"name": "Q"}]),
        H(ss("P", -1.0, name="P"), ["op", "q", "append", [ref("P")], {"name": "Q"}]),
        # nested with-blocks
        H(["with", [["control.default_dt", "~i1"]], [["with", [["freqplot.dB", "~b1"]], []]]]),
        # unknown key behind a valid one
        H(["with", [["control.default_dt", "~i1"], ["bogus.key", "~i2"]], []]),
        # reset_defaults through an alias of an import-time key
        H(["set", "deprecated.control.squeeze_time_response", "control.default_dt"], ["reset"]),
        # find_operating_point(root_method=..., root_kwargs=d) writes 'method' into the caller's d
        H(["new", "n", "nld", {"params": {"a": 2.0}}], ["new", "d", "dict", {"v": {"tol": 1e-10}}],
          ["op", "r", "find_operating_point", [ref("n"), [1.0], [2.0]], {"root_method": "lm", "root_kwargs": ref("d")}]),
        # interconnect(..., inputs=ins, outputs=outs, add_unused=True) appends to the caller's lists
        H(["new", "P", "ss", {"abcd": [[[-1.0]], [[1.0, 1.0]], [[1.0], [2.0]], [[0.0, 0.0], [0.0, 0.0]]],
                              "kw": {"name": "P", "inputs": ["u", "d"], "outputs": ["y", "z"]}}],
          tf("C", [1.0], [1.0, 1.0], name="C", inputs="e", outputs="u"),
          ["new", "ins", "list", {"v": ["r"]}], ["new", "outs", "list", {"v": ["y"]}],
          ["op", "ic", "interconnect", [{"lst": [ref("P"), ref("C")]}],
           {"connections": [["P.u", "C.u"]], "inplist": ["C.e"], "outlist": ["P.y"], "inputs": ref("ins"),
            "outputs": ref("outs"), "add_unused": True}]),
        # classes added after the seeded changes (agree on the unchanged code):
        # - a time response plotted with its inputs and line keywords, the same default plot before
        #   and after, reset in between (input-trace properties are built from a configuration entry)
        H(tf("G", [1.0], [1.0, 2.0, 1.0], name="G"),
          ["new", "T", "arr", {"v": [0.0, 0.5, 1.0, 1.5, 2.0]}], ["new", "U", "arr", {"v": [0.0, 1.0, 1.0, 0.0, -1.0]}],
          ["op", "resp", "forced_response", [ref("G"), ref("T"), ref("U")], {}],
          ["probe", "p1", "m_plot", [ref("resp")], {"plot_inputs": True}],
          ["op", None, "m_plot", [ref("resp")], {"plot_inputs": True, "color": "k", "linewidth": 4, "linestyle": ":"}],
          ["probe", "p1", "m_plot", [ref("resp")], {"plot_inputs": True}],
          ["reset"],
          ["op", None, "time_response_plot", [ref("resp")], {"plot_inputs": "overlay", "linestyle": "-."}],
          ["reset"],
          ["probe", "p1", "m_plot", [ref("resp")], {"plot_inputs": True}]),
        # - find_operating_point, index-constrained form, float arrays / a reshaped view / a list as
        #   initial guess and target (the root-finding callback works on copies)
        H(["new", "n", "nld2", {"params": {"a": 2.0}}],
          ["new", "x0", "arr", {"v": [0.1, 0.0]}], ["new", "ub", "arr", {"v": [[0.0]]}],
          ["new", "u0", "view", {"base": ref("ub"), "how": "reshape", "shape": [1]}],
          ["new", "y0", "list", {"v": [0.3, 0.0]}],
          ["probe", "p1", "find_operating_point", [ref("n"), ref("x0"), ref("u0"), ref("y0")], {"iy": [0]}],
          ["op", "r2", "find_operating_point", [ref("n"), ref("x0"), ref("u0")], {"iu": [0]}],
          ["op", "r3", "find_operating_point", [ref("n"), ref("x0"), ref("u0")], {"ix": [0], "idx": [1], "iu": [0]}],
          ["probe", "p1", "find_operating_point", [ref("n"), ref("x0"), ref("u0"), ref("y0")], {"iy": [0]}]),
        # classes added after the second round of seeded changes
        # - `StateSpace ** 1` hands back its operand: renaming the result renames the operand (finding)
        H(ss("P", -1.0, name="P"), ["op", "q", "pow", [ref("P"), 1], {}],
          ["op", None, "update_names", [ref("q")], {"name": "Q", "inputs": ["r"]}]),
        # - evaluating an MPC controller replaces the initial guess kept in its problem object (finding)
        H(["new", "S", "ss", {"abcd": [[[1.0, 1.0], [0.0, 1.0]], [[0.5], [1.0]], [[1.0, 0.0], [0.0, 1.0]], [[0.0], [0.0]]],
                              "dt": 1}],
          ["new", "c", "cost", {"sys": ref("S"), "args": [[[1.0, 0.0], [0.0, 1.0]], [[1.0]]]}],
          ["new", "T", "arr", {"v": [0.0, 1.0, 2.0, 3.0]}],
          ["new", "o", "ocp", {"sys": ref("S"), "timepts": ref("T"), "cost": ref("c"), "kw": {}}],
          ["op", "ctrl", "ocp_create_mpc_iosystem", [ref("o")], {}],
          ["new", "xc", "arr", {"v": [1.0, 0.0, -1.0, 0.0]}], ["new", "x", "arr", {"v": [1.0, 0.0]}],
          ["op", None, "nl_output", [ref("ctrl"), 0, ref("xc"), ref("x")], {}]),
        # - (agree) a scalar identity element as the FIRST operand, naming keywords in the call or the
        #   result renamed by the caller afterwards; sum() of a one-element list
        H(["new", "P", "ss", {"abcd": [[[-1.0, 2.0], [0.0, -3.0]], [[0.0], [1.0]], [[1.0, 0.0]], [[0.0]]],
                              "kw": {"name": "plant", "inputs": ["u"], "outputs": ["y"]}}],
          ["op", "t1", "parallel", [0, ref("P")], {"name": "total", "inputs": ["r"], "outputs": ["z"]}],
          ["op", "t2", "add", [0, ref("P")], {}],
          ["op", None, "update_names", [ref("t2")], {"name": "T2", "inputs": ["r"]}],
          ["op", "t3", "sum", [{"lst": [ref("P")]}], {}],
          ["op", None, "update_names", [ref("t3")], {"name": "T3", "outputs": ["z"]}],
          ["op", "t4", "series", [1, ref("P")], {"name": "T4"}],
          ["op", "t5", "mul", [ref("P"), 1.0], {}],
          ["op", None, "update_names", [ref("t5")], {"name": "T5"}]),
        # - (agree) two compute_trajectory calls on one problem object (shooting), the second from
        #   another initial state and warm-started with the inputs the first one returned; every
        #   call equals the same call on a freshly built identical problem
        H(["new", "S", "ss", {"abcd": [[[1.0, 1.0], [0.0, 1.0]], [[0.5], [1.0]], [[1.0, 0.0], [0.0, 1.0]], [[0.0], [0.0]]],
                              "dt": 1}],
          ["new", "c", "cost", {"sys": ref("S"), "args": [[[1.0, 0.0], [0.0, 1.0]], [[1.0]]]}],
          ["new", "ct", "cost", {"sys": ref("S"), "args": [[[10.0, 0.0], [0.0, 10.0]], None]}],
          ["new", "T", "arr", {"v": [0.0, 1.0, 2.0, 3.0, 4.0, 5.0]}],
          ["new", "o", "ocp", {"sys": ref("S"), "timepts": ref("T"), "cost": ref("c"), "kw": {"terminal_cost": ref("ct")}}],
          ["new", "xa", "arr", {"v": [1.0, 0.0]}], ["new", "xb", "arr", {"v": [-3.0, 2.0]}],
          ["op", "ra", "ocp_compute_trajectory", [ref("o"), ref("xa")], {"print_summary": False}],
          ["op", "rb", "ocp_compute_trajectory", [ref("o"), ref("xb")],
           {"initial_guess": {"item": ["ra", "inputs"]}, "print_summary": False}],
          ["op", "rc", "ocp_compute_trajectory", [ref("o"), ref("xb")], {"initial_guess": {"item": ["ra", "inputs"]}}],
          ["op", None, "ocp_compute_mpc", [ref("o"), ref("xa")], {}]),
        # classes added after the third round of seeded changes (agree on the unchanged code):
        # - a dual system built from transposed arrays (its own A is column-major and not triangular),
        #   queried for its poles (function, method, damp, default frequency range) between two
        #   evaluations; the system, the arrays it was built from and the probe must stay the same
        H(["new", "A", "arr", {"v": [[0.0, 1.0, 0.0], [0.0, 0.0, 1.0], [-6.0, -11.0, -6.0]]}],
          ["new", "At", "view", {"base": ref("A"), "how": "T", "shape": [3, 3]}],
          ["new", "B", "arr", {"v": [[0.0, 0.0, 1.0]]}], ["new", "Bt", "view", {"base": ref("B"), "how": "T", "shape": [3, 1]}],
          ["new", "C", "arr", {"v": [[4.0], [1.0], [0.0]]}], ["new", "Ct", "view", {"base": ref("C"), "how": "T", "shape": [1, 3]}],
          ["new", "dual", "ss", {"abcd": [ref("At"), ref("Ct"), ref("Bt"), [[0.0]]]}],
          ["probe", "p1", "m_call", [ref("dual"), {"cplx": [0.0, 1.0]}], {}],
          ["probe", "p2", "m_dcgain", [ref("dual")], {}],
          ["op", None, "m_poles", [ref("dual")], {}], ["op", None, "poles", [ref("dual")], {}],
          ["op", None, "damp", [ref("dual")], {}], ["op", None, "frequency_response", [ref("dual"), None], {}],
          ["op", None, "step_response", [ref("dual")], {}],
          ["probe", "p1", "m_call", [ref("dual"), {"cplx": [0.0, 1.0]}], {}],
          ["probe", "p2", "m_dcgain", [ref("dual")], {}]),
        # - the same for np.asfortranarray data and for the result of similarity_transform
        H(["new", "A", "arr", {"v": [[-1.0, 2.0, 0.0], [1.0, -2.0, 1.0], [0.0, 1.0, -3.0]], "order": "F"}],
          ["new", "S", "ss", {"abcd": [ref("A"), [[0.0], [0.0], [1.0]], [[1.0, 0.0, 0.0]], [[0.0]]]}],
          ["new", "T", "arr", {"v": [[1.0, 1.0, 0.0], [0.0, 1.0, 1.0], [0.0, 0.0, 1.0]]}],
          ["op", "TS", "similarity_transform", [ref("S"), ref("T")], {}],
          ["probe", "p1", "ssdata", [ref("TS")], {}], ["probe", "p2", "ssdata", [ref("S")], {}],
          ["op", None, "poles", [ref("TS")], {}], ["op", None, "damp", [ref("TS")], {}],
          ["op", None, "m_poles", [ref("S")], {}], ["op", None, "pzmap_plot", [ref("S")], {}],
          ["op", "sd", "ssdata", [ref("S")], {}],
          ["op", None, "lyap", [{"item": ["sd", 0]}, [[1.0, 0.0, 0.0], [0.0, 1.0, 0.0], [0.0, 0.0, 1.0]]], {}],
          ["probe", "p1", "ssdata", [ref("TS")], {}], ["probe", "p2", "ssdata", [ref("S")], {}]),
        # classes added after the fourth round of seeded changes (agree on the unchanged code):
        # - frequency response data listed from high to low frequency (the constructor keeps the
        #   vector as given) combined with a TransferFunction / StateSpace system in both orders (the
        #   FRD operators re-sample the partner on the FRD's own frequency vector), a copy made by the
        #   copy constructor (shares the arrays of F); F, its arrays, its value at a listed frequency
        #   and its printed table must stay as they were
        H(["new", "w", "arr", {"v": [100.0, 10.0, 1.0]}], ["new", "d", "arr", {"v": [0.01, 0.1, 1.0]}],
          ["new", "F", "frd", {"data": ref("d"), "omega": ref("w"), "kw": {"name": "F"}}],
          tf("G", [1.0], [1.0, 1.0], name="G"), ss("P", -2.0),
          ["op", "Fc", "frd", [ref("F")], {}],
          ["probe", "p1", "evalfr", [ref("F"), {"cplx": [0.0, 100.0]}], {}], ["probe", "p2", "str", [ref("F")], {}],
          ["op", "r1", "mul", [ref("F"), ref("G")], {}], ["op", "r2", "add", [ref("G"), ref("F")], {}],
          ["op", "r3", "div", [ref("F"), ref("P")], {}], ["op", "r4", "feedback", [ref("F"), ref("G")], {}],
          ["op", "r5", "feedback", [ref("G"), ref("F")], {}], ["op", "r6", "m_append", [ref("F"), ref("P")], {}],
          ["op", "r7", "sum", [{"lst": [ref("P"), ref("F"), ref("G")]}], {}],
          ["op", "r8", "series", [ref("G"), ref("F"), ref("P")], {}], ["op", "r9", "sub", [ref("Fc"), ref("G")], {}],
          ["probe", "p1", "evalfr", [ref("F"), {"cplx": [0.0, 100.0]}], {}], ["probe", "p2", "str", [ref("F")], {}]),
        # - one caller-owned frequency vector in no particular order (a view with guard cells) given
        #   to the functions that take a frequency vector
        H(["new", "b", "arr", {"v": [9.0, 1.0, 10.0, 0.1, 5.0, 9.0]}],
          ["new", "w", "view", {"base": ref("b"), "how": "slice", "off": [1], "shape": [4]}],
          tf("G", [1.0], [1.0, 2.0, 1.0]), ss("P", -1.0),
          ["op", "f1", "frd", [ref("G"), ref("w")], {}], ["op", None, "frequency_response", [ref("P"), ref("w")], {}],
          ["op", None, "m_freqresp", [ref("G"), ref("w")], {}], ["op", None, "nyquist_response", [ref("G"), ref("w")], {}],
          ["op", None, "singular_values_response", [ref("P"), ref("w")], {}],
          ["op", None, "gangof4_response", [ref("G"), ref("P"), ref("w")], {}],
          ["op", None, "describing_function", ["sat", 0.5, ref("w")], {}],
          ["op", None, "bode_plot", [ref("G"), ref("w")], {}]),
    ] + systematic()


def systematic():
    """every import-time key (read from the package when the family is loaded): assigned a
    sentinel and reset; assigned through set_defaults and reset; changed inside with-blocks"""
    H = lambda *s: {"type": "hist", "hist": list(s)}
    keys = list(F.IMP_KEYS)
    out = [H(*([["set", k, "SENTINEL"] for k in keys] + [["reset"]] + [["get", k] for k in keys[::7]]))]
    mods = {}
    for k in keys:
        m, _, p = k.partition(".")
        mods.setdefault(m, []).append(p)
    out.append(H(*([["sd", m, [[p, "SENTINEL"] for p in ps]] for m, ps in sorted(mods.items())]
                   + [["legacy", "0.10.1"]])))
    for i in range(0, len(keys), 12):
        chunk = keys[i:i + 12]
        out.append(H(["with", [[k, "SENTINEL"] for k in chunk],
                      [["get", chunk[0]], ["with", [[k, "INNER"] for k in chunk[:3]], [["get", chunk[0]]]],
                       ["get", "no.such.key"]]],
                     ["get", chunk[0]]))
    return out
