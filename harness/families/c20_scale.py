"""C20 (scaling part) — point_to_point / SystemTrajectory.eval on linear SISO flat systems for problems whose
SCALING is far from the one of the other streams (horizons 1/2 .. 3, data of size 1, basis horizon ~ Tf):

kind "sc", classes
  P-unscaled-long   PolyFamily(N) with the default T = 1 on horizons 20 .. 200: the basis functions reach
                    Tf^(N-1) ~ 1e8 .. 1e16 while the coefficients of the high powers are 1e-8 .. 1e-16;
  B-unscaled-long   BezierFamily(N), T = 1, evaluated far outside [0, 1] (horizons 3 .. 50);
  P-scaled-long / B-scaled-long   the basis rescaled to the horizon (T = Tf - T0 or Tf), horizons 50 .. 3600;
  short             horizons 1/8 .. 1/1024 (T = 1: tiny basis values, huge coefficients; or T = horizon);
  tiny-bc / big-bc  ordinary horizons with boundary data of size 1e-6 .. 1e-14 / 1e3 .. 1e9;
in EVERY class the boundary data are drawn over many magnitudes (1e-13 .. 1e9); 25 % of the long-horizon
problems are also planned with a B-spline basis (end points only).

Nothing in this stream is judged against an absolute scale (the other streams use max(1, |data|)).  The
tolerances are computed per case from the conditioning of the problem, in exact arithmetic, from the
implementation's own coefficient vector alpha (traj.coeffs) and an independent exact implementation of the
basis functions:
    S_k(t)  = sum_j |alpha_j| |M_kj|(t)           size of the terms of flag entry k at time t (|M_kj|: sum of the
                                                  absolute values of the terms eval_deriv adds up);
    LS      = ||M||_2 ||alpha||_2                 M = boundary matrix; a backward-stable least-squares solve
                                                  leaves a residual of order eps * LS in each row (observed:
                                                  the unchanged code does reach ~1 eps * LS at long horizons);
    e_k(t)  = TOL_LS * LS + TOL_EV * S_k(t)       flag space;   e_x = |Tinv| e,  e_u = e_n + |F| e   (exact Tinv, F).
Oracles (on the implementation's own outputs):
  * both end points within e_x, e_u                                     (VIOLATES p2p-endpoint);
  * the dynamics residual at nodes, exact Lagrange differentiation of the values returned by eval, within the
    bound obtained by propagating TOL_EV * S(t_j) through the differentiation row  (VIOLATES p2p-infeasible);
  * eval(t) against the exact evaluation of the trajectory's own coefficients, within TOL_EV * |Tinv| S(t)
    (DIFFERS p2p-eval-inconsistent: SystemTrajectory.eval is not sum_j alpha_j basis_j^(k)(t));
  * well-conditioned problems (cond <= 1e5): trajectory vs the Lean model, relative to the size of the data;
  * the model's own end points are exact; no 'basis too small' warning (guard: cond_2(M) <= 1e12, lstsq cuts
    singular values at ~2e-15).
"""
import re
import warnings
from fractions import Fraction
from math import comb, factorial

import numpy as np
import control.flatsys as fs

from core.runner import Verdict, AGREE, VIOLATES, DIFFERS
from core import exmat
from core.exact import fr, tok
from families.c20_multi import F, ftok, vals, basis_exact, lagrange_diff_rows, classify_exc, excstr
from families.c20_hist import build_sys, flat_exact, equilibrium

EPS = Fraction(1, 2 ** 52)
TOL_LS = 4096 * EPS                 # x ||M|| ||alpha||: residual of the least-squares solve (observed <= 1.3 eps)
TOL_EV = Fraction(1, 10 ** 9)       # x sum of |terms|: evaluation / reverse map (observed <= 3e-13)
TOL_MODEL = Fraction(1, 10 ** 6)    # well-conditioned problems against the model, relative to the data
COND_MAX = 1e12                     # of the boundary matrix as the code builds it (lstsq rcond ~ 2e-15)
COND_MODEL = 1e5

CLASSES = ["P-unscaled-long", "P-unscaled-long", "P-unscaled-long", "B-unscaled-long", "P-scaled-long",
           "B-scaled-long", "short", "tiny-bc", "tiny-bc", "big-bc"]


def boundary_matrix(kind, N, T, n, T0, Tf):
    return [[basis_exact(kind, N, T, j, k, t) for j in range(N)] for t in (T0, Tf) for k in range(n + 1)]


def basis_abs(kind, N, T, j, k, t):
    """sum of the absolute values of the terms the code adds up for the k-th derivative of basis function j at t:
    the rounding error of the computed value is relative to this (one term for monomials and for the product
    form of a Bernstein polynomial; the alternating sum of BezierFamily.eval_deriv for k >= 1)"""
    if kind == "P" or k == 0:
        return abs(basis_exact(kind, N, T, j, k, t))
    n = N - 1
    if k >= N:
        return Fraction(0)
    u = abs(t / T)
    return comb(n, j) * sum((comb(n - j, l - j) * Fraction(factorial(l), factorial(l - k)) * u ** (l - k) / abs(T) ** k
                             for l in range(max(j, k), n + 1)), Fraction(0))


def cond_of(Mx):
    sv = np.linalg.svd(np.array([[float(v) for v in r] for r in Mx]), compute_uv=False)
    return float(sv[0] / sv[-1]) if sv[-1] > 0 else float("inf"), float(sv[0])


def up(x):
    """a rational upper bound of a non-negative float quantity (1 % head room)"""
    return Fraction(float(x)) * Fraction(101, 100)


class Scale:
    def __init__(self, parent):
        self.parent = parent

    # ---- generation ----------------------------------------------------------------------------
    def generate(self, rng, tier):
        k = 80 if tier == "quick" else 640
        return [self.gen(rng) for _ in range(k)]

    def gen(self, rng, cls=None):
        cls0 = cls
        for _try in range(300):
            cls = cls0 or rng.choice(CLASSES)
            n = rng.choice([1, 2, 2, 3])
            kind, T, T0 = "P", Fraction(1), Fraction(0)
            if cls == "P-unscaled-long":
                H = Fraction(rng.choice([20, 30, 50, 64, 80, 100, 100, 128, 150, 200]))
                T0 = Fraction(rng.choice([0, 0, 0, 0, 1, -1]))
            elif cls == "B-unscaled-long":
                kind, H = "B", Fraction(rng.choice([3, 5, 8, 10, 20, 30, 50]))
            elif cls in ("P-scaled-long", "B-scaled-long"):
                kind = cls[0]
                H = Fraction(rng.choice([50, 100, 200, 500, 1000, 3600]))
                T0 = Fraction(rng.choice([0, 0, 0, 10, -H / 2]))
                T = H if T0 <= 0 or rng.random() < 0.5 else T0 + H
            elif cls == "short":
                kind = rng.choice("PB")
                H = Fraction(1, rng.choice([8, 16, 64, 128, 1024]))
                T0 = Fraction(rng.choice([0, 0, 1, -1]))
                T = rng.choice([Fraction(1), H])
            else:
                kind = rng.choice("PB")
                H = Fraction(rng.choice([1, 2, 3]))
                T0 = Fraction(rng.choice([0, 0, 0, Fraction(1, 2), -1]))
                T = rng.choice([Fraction(1), H])
            Tf = T0 + H
            N = 2 * (n + 1) + rng.choice([0, 0, 1, 1, 2, 3])
            cond, _ = cond_of(boundary_matrix(kind, N, T, n, T0, Tf))
            if cond <= COND_MAX:
                break
        else:
            raise RuntimeError("no scaling problem inside the conditioning guard found")
        s = self.parent.gen_sys(rng, n)
        # magnitude of the boundary data
        if cls == "tiny-bc":
            e = -rng.choice([6, 8, 9, 10, 11, 12, 13, 14])
        elif cls == "big-bc":
            e = rng.choice([3, 4, 6, 9])
        else:
            e = rng.choice([0, 0, 0, -2, -3, -4, -6, -9, -12, 2, 4, 6])
        mag = Fraction(10) ** e
        if rng.random() < 0.3:
            v = equilibrium(s)
            c0, cf = rng.choice([0, 0, 1, -2]), rng.choice([1, -1, 2, 3])
            d = max(1, max(abs(x) for x in v))
            x0u0 = [Fraction(c0 * a, d) * mag for a in v]
            xfuf = [Fraction(cf * a, d) * mag for a in v]
            rest = True
        else:
            q = lambda: self.parent.rq(rng) * mag
            x0u0, xfuf = [q() for _ in range(n + 1)], [q() for _ in range(n + 1)]
            if all(x == 0 for x in x0u0 + xfuf):
                xfuf[0] = mag
            rest = False
        pp = {"T0": tok(T0), "Tf": tok(Tf), "basis": {"kind": kind, "N": N, "T": tok(T)},
              "via": rng.choice(["list", "list", "scalar", "list3"]), "mag": e, "rest": rest,
              "x0": [ftok(x) for x in x0u0[:n]], "u0": ftok(x0u0[n]),
              "xf": [ftok(x) for x in xfuf[:n]], "uf": ftok(xfuf[n]),
              "interior": sorted(rng.sample(range(1, 8), 2)), "bspline": None}
        if rng.random() < 0.25 and H >= 1:
            pp["bspline"] = {"nbreak": rng.choice([3, 4]), "degree": 2 * n + 1}
        return {"kind": "sc", "cls": cls, "sys": s, "p2p": pp}

    def corpus(self):
        s2 = {"dt": "C", "p": 1, "m": 1, "n": 2, "A": ["-1", "1", "0", "-2"], "B": ["0", "1"], "C": ["1", "0"]}
        s1 = {"dt": "C", "p": 1, "m": 1, "n": 1, "A": ["-1"], "B": ["2"], "C": ["1"]}
        pp = lambda T0, Tf, kind, N, T, x0, u0, xf, uf, mag: {
            "T0": T0, "Tf": Tf, "basis": {"kind": kind, "N": N, "T": T}, "via": "list", "mag": mag, "rest": True,
            "x0": x0, "u0": u0, "xf": xf, "uf": uf, "interior": [2, 5], "bspline": None}
        return [
            # long horizon, unscaled monomials, a move of 1/1024
            {"kind": "sc", "cls": "P-unscaled-long", "sys": s2,
             "p2p": pp("0", "50", "P", 8, "1", ["0", "0"], "0", ["1/1024", "1/1024"], "1/512", -3)},
            # ordinary horizon, data of size 2^-40
            {"kind": "sc", "cls": "tiny-bc", "sys": s1,
             "p2p": pp("0", "2", "B", 5, "2", [tok(Fraction(1, 2 ** 40))], tok(Fraction(1, 2 ** 41)),
                       [tok(Fraction(-3, 2 ** 40))], tok(Fraction(-3, 2 ** 41)), -12)},
            # short horizon, T = 1
            {"kind": "sc", "cls": "short", "sys": s2,
             "p2p": pp("0", "1/64", "P", 6, "1", ["1", "2"], "3", ["0", "0"], "0", 0)},
        ]

    # ---- model line ------------------------------------------------------------------------------
    def times(self, pp):
        T0, Tf = F(pp["T0"]), F(pp["Tf"])
        return [T0, Tf] + [T0 + (Tf - T0) * Fraction(k, 8) for k in pp["interior"]]

    def nodes(self, pp, N):
        T0, Tf = F(pp["T0"]), F(pp["Tf"])
        return [fr(float(T0 + (Tf - T0) * Fraction(i, N - 1))) for i in range(N)]

    def line(self, case):
        s, pp = case["sys"], case["p2p"]
        b = pp["basis"]
        ts = self.times(pp)
        ln = "flat %s 1 1 %d %s %s sys p2p %s %d %s %s %s %s %s %s %s %d %s" % (
            s["dt"], s["n"], " ".join(s["A"]), " ".join(s["B"]), b["kind"], b["N"], b["T"], pp["T0"], pp["Tf"],
            " ".join(pp["x0"]), pp["u0"], " ".join(pp["xf"]), pp["uf"], len(ts), " ".join(tok(t) for t in ts))
        return " ".join(ln.split())

    def parse_model(self, case, out):
        n = case["sys"]["n"]
        if out.startswith("err "):
            return {"err": out.split()[1]}
        parts = [o.strip() for o in out.split("|")]
        t = parts[1].split()
        if t[0] == "err":
            return {"p2p": {"err": t[1]}}
        N = int(t[1])
        v = t[2:]
        rest = v[N:]
        k = len(self.times(case["p2p"]))
        assert len(rest) == k * (n + 1), parts[1][:200]
        return {"p2p": {"N": N, "alpha": v[:N], "xs": [rest[i * (n + 1):i * (n + 1) + n] for i in range(k)],
                        "us": [rest[i * (n + 1) + n] for i in range(k)]}}

    # ---- implementation --------------------------------------------------------------------------
    def impl(self, case):
        s, pp = case["sys"], case["p2p"]
        n = s["n"]
        try:
            with warnings.catch_warnings():
                warnings.simplefilter("ignore")
                flat = fs.flatsys(build_sys(s))
        except Exception as e:  # noqa
            return {"err": classify_exc(e), "exc": excstr(e)}
        b = pp["basis"]
        out = {}
        try:
            with warnings.catch_warnings(record=True) as wl:
                warnings.simplefilter("always")
                Tb = float(F(b["T"]))
                fam = fs.PolyFamily if b["kind"] == "P" else fs.BezierFamily
                basis = fam(b["N"]) if Tb == 1.0 else fam(b["N"], Tb)
                T0, Tf = float(F(pp["T0"])), float(F(pp["Tf"]))
                x0, xf = np.array(vals(pp["x0"])), np.array(vals(pp["xf"]))
                u0, uf = np.array([float(F(pp["u0"]))]), np.array([float(F(pp["uf"]))])
                if pp["via"] == "scalar":
                    traj = fs.point_to_point(flat, Tf, x0, u0, xf, uf, initial_time=T0, basis=basis)
                elif pp["via"] == "list3":
                    traj = fs.point_to_point(flat, [T0, (T0 + Tf) / 2, Tf], x0, u0, xf, uf, basis=basis)
                else:
                    traj = fs.point_to_point(flat, [T0, Tf], x0, u0, xf, uf, basis=basis)
                rd = lambda xs, us, k: ([[tok(fr(xs[i, j])) for i in range(n)] for j in range(k)],
                                        [tok(fr(us[0, j])) for j in range(k)])
                ts = self.times(pp)
                xs, us = traj.eval(np.array([float(t) for t in ts]))
                out["xs"], out["us"] = rd(xs, us, len(ts))
                N = traj.basis.N
                nodes = self.nodes(pp, N)
                xn, un = traj.eval(np.array([float(t) for t in nodes]))
                out["xn"], out["un"] = rd(xn, un, N)
                out["N"] = N
                out["alpha"] = [tok(fr(v)) for v in np.asarray(traj.coeffs[0], dtype=float).flatten()]
                out["warn"] = sorted({re.sub(r"[0-9.]+", "#", str(w.message))[:60] for w in wl
                                      if "basis too small" in str(w.message)})
            bsp = pp.get("bspline")
            if bsp:
                try:
                    with warnings.catch_warnings(record=True) as wl:
                        warnings.simplefilter("always")
                        bb = fs.BSplineFamily(list(np.linspace(T0, Tf, bsp["nbreak"])), bsp["degree"])
                        tb = fs.point_to_point(flat, [T0, Tf], x0, u0, xf, uf, basis=bb)
                        xb, ub = tb.eval(np.array([T0, Tf]))
                        # noise unit of this solve, from the implementation's own matrix and coefficients
                        al = np.asarray(tb.coeffs[0], dtype=float)
                        Mb = np.array([[bb.eval_deriv(j, k, t, var=0) for j in range(len(al))]
                                       for t in (T0, Tf) for k in range(n + 1)], dtype=float).reshape(2 * (n + 1), -1)
                        S = np.abs(Mb) @ np.abs(al)
                        out["bspline"] = {"xs": rd(xb, ub, 2)[0], "us": rd(xb, ub, 2)[1],
                                          "LS": float(np.linalg.norm(Mb, 2) * np.linalg.norm(al)),
                                          "S": [float(v) for v in S],
                                          "warn": any("basis too small" in str(w.message) for w in wl)}
                except Exception as e:  # noqa
                    out["bspline"] = {"err": classify_exc(e), "exc": excstr(e)}
            return {"p2p": out}
        except Exception as e:  # noqa
            return {"p2p": {"err": classify_exc(e), "exc": excstr(e)}}

    # ---- comparison --------------------------------------------------------------------------------
    def feat(self, case, kind, **kw):
        f = {"kind": kind, "class": "scaling", "scaling": case["cls"]}
        f.update(kw)
        return f

    def excfeat(self, d):
        e = d.get("exc", "")
        return {"exc": e.split(":")[0], "msg": re.sub(r"[0-9]+", "#", e.split(":", 1)[-1].strip())[:60]}

    def bounds(self, case, alpha, ts):
        """exact (x, u)(t) of the trajectory with coefficient vector alpha and the per-component noise bounds
        (ls part, evaluation part) at the times ts"""
        s, pp = case["sys"], case["p2p"]
        n = s["n"]
        b = pp["basis"]
        kind, N, T = b["kind"], b["N"], F(b["T"])
        Mx = boundary_matrix(kind, N, T, n, F(pp["T0"]), F(pp["Tf"]))
        cond, nM = cond_of(Mx)
        na = up(float(sum(a * a for a in alpha)) ** 0.5)
        LS = up(nM) * na
        _, Tinv, Fv = flat_exact(s)
        tmax = max(abs(v) for r in Tinv for v in r)
        fmax = max([Fraction(1)] + [abs(v) for v in Fv])
        res = []
        for t in ts:
            rows = [[basis_exact(kind, N, T, j, k, t) for j in range(N)] for k in range(n + 1)]
            z = [sum((a * m for a, m in zip(alpha, r)), Fraction(0)) for r in rows]
            S = [sum((abs(a) * basis_abs(kind, N, T, j, k, t) for j, a in enumerate(alpha)), Fraction(0))
                 for k in range(n + 1)]
            Ssum = sum(S, Fraction(0))
            x = [sum((Tinv[i][l] * z[l] for l in range(n)), Fraction(0)) for i in range(n)]
            u = z[n] - sum((Fv[l] * z[l] for l in range(n)), Fraction(0))
            # second terms: the implementation's Tinv, F are themselves rounded (also where the exact entry is 0)
            lin = lambda e: ([sum((abs(Tinv[i][l]) * e[l] for l in range(n)), Fraction(0)) + TOL_EV * tmax * Ssum
                              for i in range(n)]
                             + [e[n] + sum((abs(Fv[l]) * e[l] for l in range(n)), Fraction(0)) + TOL_EV * fmax * Ssum])
            res.append({"xu": x + [u], "ev": lin([TOL_EV * v for v in S]), "ls": lin([TOL_LS * LS] * (n + 1))})
        return res, cond, LS

    def compare(self, case, impl, model):
        s, pp = case["sys"], case["p2p"]
        n = s["n"]
        if "err" in model:
            return Verdict(DIFFERS, "model raises %s on a generated scaling case" % model["err"],
                           self.feat(case, "model-" + model["err"]))
        if "err" in impl:
            return Verdict(VIOLATES, "reachable continuous SISO system rejected: " + impl["exc"],
                           self.feat(case, "construct-raises", **self.excfeat(impl)))
        pi, pm = impl["p2p"], model["p2p"]
        if "err" in pm:
            if "err" in pi:
                return Verdict(AGREE)
            return Verdict(DIFFERS, "model raises %s, point_to_point returns" % pm["err"],
                           self.feat(case, "p2p-returns-" + pm["err"]))
        if "err" in pi:
            return Verdict(VIOLATES, "point_to_point / eval raises: " + pi["exc"],
                           self.feat(case, "p2p-raises", **self.excfeat(pi)))
        x0u0, xfuf = pp["x0"] + [pp["u0"]], pp["xf"] + [pp["uf"]]
        # the model's own end points are exact
        if [F(v) for v in pm["xs"][0] + [pm["us"][0]]] != [F(v) for v in x0u0] or \
                [F(v) for v in pm["xs"][1] + [pm["us"][1]]] != [F(v) for v in xfuf]:
            return Verdict(DIFFERS, "the model's trajectory misses its end points", self.feat(case, "model-endpoint"))
        N = pi["N"]
        if N != pp["basis"]["N"] or len(pi["alpha"]) != N:
            return Verdict(DIFFERS, "coefficient vector of length %d for a basis of %d functions" % (len(pi["alpha"]), N),
                           self.feat(case, "p2p-coefficients"))
        alpha = [F(v) for v in pi["alpha"]]
        ts = self.times(pp)
        nodes = self.nodes(pp, N)
        bd, cond, LS = self.bounds(case, alpha, ts + nodes)
        bt, bn = bd[:len(ts)], bd[len(ts):]
        fl = lambda v: [float(x) for x in v]
        # (1) end points (property), relative to the conditioning of this problem
        for idx, want, which in ((0, x0u0, "initial"), (1, xfuf, "final")):
            got = [F(v) for v in pi["xs"][idx] + [pi["us"][idx]]]
            tolv = [a + b_ for a, b_ in zip(bt[idx]["ls"], bt[idx]["ev"])]
            for i in range(n + 1):
                if abs(got[i] - F(want[i])) > tolv[i]:
                    return Verdict(VIOLATES, "(x, u)(%s = %s) = %s, requested %s; component %d is off by %.3g, the "
                                   "conditioning of this problem (cond %.2g, |M||alpha| = %.3g) allows %.3g" % (
                                       "T0" if idx == 0 else "Tf", pp["T0"] if idx == 0 else pp["Tf"], fl(got),
                                       vals(want), i, float(abs(got[i] - F(want[i]))), cond, float(LS), float(tolv[i])),
                                   self.feat(case, "p2p-endpoint", which=which))
        # (2) B-spline basis: end points, noise unit from the implementation's own matrix / coefficients
        bsr = pi.get("bspline")
        if bsr:
            if "err" in bsr:
                return Verdict(VIOLATES, "point_to_point with a B-spline basis raises: " + bsr["exc"],
                               self.feat(case, "bspline-raises", **self.excfeat(bsr)))
            if not bsr["warn"]:
                _, Tinv, Fv = flat_exact(s)
                for idx, want in ((0, x0u0), (1, xfuf)):
                    e = [TOL_LS * 10 * up(bsr["LS"]) + TOL_EV * up(v) for v in bsr["S"][idx * (n + 1):(idx + 1) * (n + 1)]]
                    tolv = [sum((abs(Tinv[i][l]) * e[l] for l in range(n)), Fraction(0)) for i in range(n)] + \
                        [e[n] + sum((abs(Fv[l]) * e[l] for l in range(n)), Fraction(0))]
                    got = [F(v) for v in bsr["xs"][idx] + [bsr["us"][idx]]]
                    for i in range(n + 1):
                        if abs(got[i] - F(want[i])) > tolv[i]:
                            return Verdict(VIOLATES, "B-spline trajectory: (x, u)(%s) = %s, requested %s (allowed %.3g)" % (
                                "T0" if idx == 0 else "Tf", fl(got), vals(want), float(tolv[i])),
                                self.feat(case, "bspline-endpoint"))
        # (3) feasibility (property): exact derivative of the interpolant of the returned values; the bound is
        # the evaluation noise TOL_EV * S(t_j) propagated through the differentiation row
        if N >= 2 and len(set(nodes)) == N:
            rows = sorted({0, N - 1, N // 2, N // 3, (2 * N) // 3})
            Dm = lagrange_diff_rows(nodes, rows)
            A = exmat.from_flat(s["A"], n, n)
            B = [F(v) for v in s["B"]]
            X = [[F(v) for v in col] for col in pi["xn"]]
            U = [F(v) for v in pi["un"]]
            for i in rows:
                for st in range(n):
                    xdot = sum((Dm[i][j] * X[j][st] for j in range(N)), Fraction(0))
                    rhs = sum((A[st][l] * X[i][l] for l in range(n)), Fraction(0)) + B[st] * U[i]
                    bound = sum((abs(Dm[i][j]) * bn[j]["ev"][st] for j in range(N)), Fraction(0)) + \
                        sum((abs(A[st][l]) * bn[i]["ev"][l] for l in range(n)), Fraction(0)) + abs(B[st]) * bn[i]["ev"][n]
                    if abs(xdot - rhs) > bound:
                        return Verdict(VIOLATES, "d/dt x_%d - (A x + B u)_%d = %.3g at t = %s (derivative %.3g; the sizes "
                                       "of the terms of this trajectory allow %.3g)" % (
                                           st, st, float(xdot - rhs), float(nodes[i]), float(xdot), float(bound)),
                                       self.feat(case, "p2p-infeasible"))
        # (4) eval against the exact evaluation of the trajectory's own coefficients
        for k, (t, bk) in enumerate(zip(ts + nodes, bd)):
            got = [F(v) for v in ((pi["xs"][k] + [pi["us"][k]]) if k < len(ts)
                                  else (pi["xn"][k - len(ts)] + [pi["un"][k - len(ts)]]))]
            for i in range(n + 1):
                if abs(got[i] - bk["xu"][i]) > bk["ev"][i]:
                    return Verdict(DIFFERS, "eval(t = %s) = %s, but the trajectory with the returned coefficients %s in the "
                                   "returned basis is %s there (allowed %.3g)" % (
                                       float(t), fl(got), fl(alpha), fl(bk["xu"]), float(bk["ev"][i])),
                                   self.feat(case, "p2p-eval-inconsistent"))
        # (5) well-conditioned problems: the model's trajectory, relative to the size of the data
        if cond <= COND_MODEL:
            allv = [F(v) for k in range(len(pm["xs"])) for v in pm["xs"][k] + [pm["us"][k]]]
            scale = max(abs(v) for v in allv + [F(v) for v in x0u0 + xfuf])
            for k in range(len(pm["xs"])):
                a = [F(v) for v in pi["xs"][k] + [pi["us"][k]]]
                m = [F(v) for v in pm["xs"][k] + [pm["us"][k]]]
                if any(abs(x - y) > TOL_MODEL * scale for x, y in zip(a, m)):
                    return Verdict(DIFFERS, "trajectory at t = %s: %s, model %s" % (float(ts[k]), fl(a), fl(m)),
                                   self.feat(case, "p2p-trajectory"))
        if pi.get("warn"):
            return Verdict(DIFFERS, "unexpected warning %s" % pi["warn"], self.feat(case, "p2p-warning"))
        return Verdict(AGREE)

    # ---- statistics / shrinking ------------------------------------------------------------------
    def nontrivial(self, case, model):
        pp = case["p2p"]
        return "err" not in model and any(F(v) != 0 for v in pp["x0"] + [pp["u0"]] + pp["xf"] + [pp["uf"]])

    def stats(self, case, impl, model):
        pp = case["p2p"]
        st = {"class": "scaling", "sc_class": case["cls"], "order": case["sys"]["n"], "sc_data_magnitude": "1e%d" % pp["mag"],
              "sc_basis": pp["basis"]["kind"]}
        try:        # a B-spline problem beyond the rank cut of lstsq (warning) is not judged
            bsr = impl["p2p"].get("bspline")
            st["sc_bspline"] = "none" if not bsr else ("raises" if "err" in bsr else
                                                       "beyond-rank-cut" if bsr["warn"] else "validated")
        except Exception:  # noqa (statistics only)
            pass
        try:
            al = [abs(float(F(v))) for v in impl["p2p"]["alpha"]]
            nz = [a for a in al if a > 0]
            if nz:
                import math
                st["sc_smallest_coefficient"] = "1e%d" % int(math.floor(math.log10(min(nz))))
                st["sc_largest_coefficient"] = "1e%d" % int(math.floor(math.log10(max(nz))))
        except Exception:  # noqa (statistics only)
            pass
        return st

    def shrink(self, case):
        pp = case["p2p"]

        def with_pp(**kw):
            c = dict(case)
            c["p2p"] = dict(pp)
            c["p2p"].update(kw)
            return c
        if pp.get("bspline"):
            yield with_pp(bspline=None)
        if pp["via"] != "list":
            yield with_pp(via="list")
        z = lambda v: ["0"] * len(v)
        if any(F(v) != 0 for v in pp["x0"]) or F(pp["u0"]) != 0:
            yield with_pp(x0=z(pp["x0"]), u0="0")
        for key in ("x0", "xf"):
            for i, v in enumerate(pp[key]):
                if F(v) != 0:
                    w = list(pp[key])
                    w[i] = "0"
                    yield with_pp(**{key: w})
        for key in ("u0", "uf"):
            if F(pp[key]) != 0:
                yield with_pp(**{key: "0"})

    def search(self, rng, case, tier):
        return [self.gen(rng, case.get("cls")) for _ in range(60)] + [self.gen(rng) for _ in range(60)]
