"""C15 — state transformations and model reduction: correspondence between
control.similarity_transform / reachable_form / observable_form / canonical_form /
model_reduction / TransferFunction.minreal and the Lean model (Model/Canonical.lean,
Model/CanonicalDyn.lean, Model/Minreal.lean; driver family `c15`)."""
import contextlib
import io
import re
import warnings
from fractions import Fraction

import numpy as np
import control as ct

from core.runner import Family, Verdict, AGREE, VIOLATES, DIFFERS
from core import exact, exmat
from core.exact import fr, tok, Tokens

F = Fraction
DT01 = exact.dt_tok(0.1)
TOL_SIM = F(1, 10 ** 9)       # similarity with well-conditioned integer T
TOL_CANON = F(1, 10 ** 8)     # canonical forms (conditioning guard COND_MAX below)
TOL_DC = F(1, 10 ** 9)        # matchdc (|det A22| >= 1, small integers)
TOL_MR = F(1, 10 ** 8)        # minreal (simple, well separated roots)
COND_MAX = 2000               # generator guard on ||W|| ||W^-1|| for Wrx and T
POINTS = [F(7, 3), F(-11, 5), F(13, 7), F(-17, 4), F(23, 6), F(29, 9), F(-31, 8), F(37, 10),
          F(-41, 12), F(43, 5), F(47, 11), F(-53, 13), F(59, 14), F(61, 15), F(-67, 16)]


# ----------------------------------------------------------------------------
# helpers
# ----------------------------------------------------------------------------

def toks(v):
    return [tok(F(x)) for x in v]


def leaf_line(s):
    return "%d %d %d %s %s" % (s["n"], s["p"], s["m"], s["dt"], " ".join(s["A"] + s["B"] + s["C"] + s["D"]))


def dt_value(t):
    if t == "N":
        return None
    if t == "T":
        return True
    if t == "C":
        return 0
    return float(F(t[1:]))


def fmat(v, r, c):
    return np.array([float(F(x)) for x in v], dtype=float).reshape(r, c)


def build_sys(s, labels=None):
    n, p, m = s["n"], s["p"], s["m"]
    kw = {}
    if labels:
        kw = dict(states=labels[0], inputs=labels[1], outputs=labels[2])
    return ct.StateSpace(fmat(s["A"], n, n), fmat(s["B"], n, m), fmat(s["C"], p, n), fmat(s["D"], p, m),
                         dt_value(s["dt"]), **kw)


def sys_mats(s):
    n, p, m = s["n"], s["p"], s["m"]
    return (exmat.from_flat(s["A"], n, n), exmat.from_flat(s["B"], n, m),
            exmat.from_flat(s["C"], p, n), exmat.from_flat(s["D"], p, m))


def canon_ss(r):
    n, p, m = r.nstates, r.noutputs, r.ninputs
    return {"n": n, "p": p, "m": m, "dt": exact.dt_canon(r.dt),
            "A": exmat.flat_tokens(exmat.from_np(r.A, n, n)), "B": exmat.flat_tokens(exmat.from_np(r.B, n, m)),
            "C": exmat.flat_tokens(exmat.from_np(r.C, p, n)), "D": exmat.flat_tokens(exmat.from_np(r.D, p, m))}


def classify_exc(e):
    msg = str(e)
    if isinstance(e, np.linalg.LinAlgError):
        return "illPosed" if "ingular" in msg else "shape"
    if isinstance(e, ct.ControlNotImplemented) or isinstance(e, NotImplementedError):
        return "notImplemented"
    if isinstance(e, IndexError):
        return "indexRange"
    if isinstance(e, ValueError):
        if "not controllable" in msg or "singular" in msg:
            return "illPosed"
        if "is not in list" in msg:
            return "unknownName"
        if "can't provide both" in msg or "not supported" in msg:
            return "badArg"
        return "shape"
    if isinstance(e, TypeError):
        return "badArg"
    return type(e).__name__


def norm_inf(M):
    return max([sum(abs(x) for x in r) for r in M] or [F(0)])


def cond_proxy(M):
    """||M||_inf ||M^-1||_inf exactly, or None when singular"""
    n = len(M)
    if n == 0:
        return F(1)
    Mi = exmat.solve(M, exmat.eye(n))
    if Mi is None:
        return None
    return norm_inf(M) * norm_inf(Mi)


def matpow_cols(A, b, n):
    """[b, A b, ..., A^(n-1) b] as an n x n matrix (b a column n x 1)"""
    cols = []
    v = [r[0] for r in b]
    for _ in range(n):
        cols.append(v)
        v = [sum((A[i][k] * v[k] for k in range(n)), F(0)) for i in range(n)]
    return [[cols[k][i] for k in range(n)] for i in range(n)]


def transpose(M, cols=None):
    if not M:
        return [[] for _ in range(cols or 0)]
    return [list(r) for r in zip(*M)]


def charpoly(A):
    """Faddeev-LeVerrier over Fractions, highest power first"""
    n = len(A)
    c = [F(1)]
    M = exmat.eye(n)
    for k in range(1, n + 1):
        AM = exmat.mul(A, M)
        ck = -sum(AM[i][i] for i in range(n)) / k
        c.append(ck)
        M = exmat.add(AM, exmat.scale(ck, exmat.eye(n)))
    return c


def unimodular(rng, n, steps=None):
    T = exmat.eye(n)
    if n < 2:
        if n == 1 and rng.random() < 0.5:
            T = [[F(-1)]]
        return T
    for _ in range(steps if steps is not None else rng.randint(1, 2 * n)):
        i, j = rng.sample(range(n), 2)
        r = rng.random()
        if r < 0.7:
            k = rng.choice([-2, -1, 1, 1, 2])
            T[i] = [a + k * b for a, b in zip(T[i], T[j])]
        elif r < 0.85:
            T[i], T[j] = T[j], T[i]
        else:
            T[i] = [-a for a in T[i]]
    return T


def tf_values(A, B, C, D, p, m, pts):
    return [exmat.ss_eval(A, B, C, D, s, p, m) for s in pts]


# ----------------------------------------------------------------------------
# keys of model_reduction
#   {"t":"N"} | {"t":"I","v":k} | {"t":"S","v":name} | {"t":"L","v":[atoms],"as":list|array|tuple}
#   | {"t":"R","v":[a,b,c]}     atoms: ["I",k] | ["S",name]
# ----------------------------------------------------------------------------

def key_tokens(k):
    t = k["t"]
    if t == "N":
        return "N"
    if t == "I":
        return "I %d" % k["v"]
    if t == "S":
        return "S " + k["v"]
    if t == "L":
        return "L %d %s" % (len(k["v"]), " ".join("%s %s" % (a[0], a[1]) for a in k["v"])) if k["v"] else "L 0"
    if t == "R":
        return "R " + " ".join("_" if x is None else str(x) for x in k["v"])
    raise ValueError(t)


def key_value(k):
    t = k["t"]
    if t == "N":
        return None
    if t in ("I", "S"):
        return k["v"]
    if t == "L":
        vals = [a[1] for a in k["v"]]
        if k.get("as") == "array":
            return np.array(vals, dtype=int)
        if k.get("as") == "tuple":
            return tuple(vals)
        return list(vals)
    if t == "R":
        return slice(*k["v"])
    raise ValueError(t)


def key_kind(k):
    if k["t"] == "L":
        kinds = set(a[0] for a in k["v"])
        return "L" + "".join(sorted(kinds)) + (":" + k["as"] if k.get("as", "list") != "list" else "")
    return k["t"]


def key_has_negative(k):
    if k["t"] == "I":
        return k["v"] < 0
    if k["t"] == "L":
        return any(a[0] == "I" and a[1] < 0 for a in k["v"])
    return False


def key_resolved(k, labels):
    """offsets the key denotes (Python semantics for negative offsets), or None"""
    n = len(labels)
    t = k["t"]
    try:
        if t == "N":
            return []
        if t == "I":
            v = [k["v"]]
        elif t == "S":
            v = [labels.index(k["v"])]
        elif t == "L":
            v = [a[1] if a[0] == "I" else labels.index(a[1]) for a in k["v"]]
        else:
            return list(range(n)[slice(*k["v"])])
    except ValueError:
        return None
    out = []
    for i in v:
        if not (-n <= i < n):
            return None
        out.append(i % n)
    return out


# ----------------------------------------------------------------------------
# minreal: root pools, exactness and separation guards
#   a root is stored as a token "p/q" (rational) or a pair ["re", "im"] (Gaussian rational)
# ----------------------------------------------------------------------------

# flag objects -----------------------------------------------------------------------------------
# What callers pass for a documented boolean option (inverse=, warn_unstable=, verbose=).  The token is
# the driver's spelling of the object (Model/PyFlag.lean: the model computes the truth value); the
# generator chooses the intended truth value first and then one of its spellings.
FLAG_FALSY = ["b0", "b0", "b0", "i0", "i0", "nb0", "nb0", "ni0", "f0", "a0", "none", "s:"]
FLAG_TRUTHY = ["b1", "b1", "b1", "b1", "i1", "i1", "i2", "i-1", "nb1", "nb1", "ni1", "ni3", "f1", "f1/2", "f-2",
               "a1", "s:False", "s:no"]


def flag_kind(t):
    if t is None:
        return "literal"
    if t == "default":
        return "default"
    if t in ("b0", "b1"):
        return "literal"
    if t.startswith("nb"):
        return "npbool"
    if t.startswith("ni"):
        return "npint"
    if t == "none":
        return "none"
    if t.startswith("s:"):
        return "str"
    if t.startswith("a"):
        return "arr0"
    if t.startswith("i"):
        return "int"
    if t.startswith("f"):
        return "float"
    raise ValueError(t)


def flag_value(t):
    """the Python object behind a flag token"""
    k = flag_kind(t)
    if t in ("b0", "b1"):
        return t == "b1"
    if k == "npbool":
        return np.float64(int(t[2:])) > 0       # numpy.bool_, the result of a NumPy comparison
    if k == "npint":
        return np.int64(int(t[2:]))
    if k == "none":
        return None
    if k == "str":
        return t[2:]
    if k == "arr0":
        return np.array(t == "a1")
    if k == "int":
        return int(t[1:])
    if k == "float":
        return float(F(t[1:]))
    raise ValueError(t)


def flag_token(t, default):
    """the token handed to the model: an omitted argument is the default of the signature"""
    return default if t in (None, "default") else t


def rand_flag(rng, truth, allow_default=None):
    """a spelling of the truth value `truth`; `allow_default` = truth value of the signature's default"""
    if allow_default is truth and rng.random() < 0.15:
        return "default"
    return rng.choice(FLAG_TRUTHY if truth else FLAG_FALSY)


MR_SMALL = [F(x, 4) for x in range(-12, 13)]          # O(1) roots, separated by >= 1/4
MR_MANT = [F(1), F(5, 4), F(3, 2), F(7, 4)]           # mantissas of the graded roots (rel. separation >= 1/8)
MR_EPS = F(1, 2 ** 52)                                # float_info.epsilon
MR_SQRT_EPS = F(1, 2 ** 26)                           # sqrt(float_info.epsilon), exactly
MR_MARGIN = 1000                                      # distinct roots stay this factor outside the tolerance
TOL_MR_WIDE = F(1, 10 ** 5)   # graded roots (worst measured: 2.0e-10 on 80 000 cases per class, 3.5e-10 in matrices)
TOL_MR_REP = F(1, 10 ** 3)    # a survivor of a numerically split double root (worst measured 1.4e-7)


def root_parts(t):
    if isinstance(t, (list, tuple)):
        return F(t[0]), F(t[1])
    return F(t), F(0)


def root_tok(re, im=0):
    return tok(re) if im == 0 else [tok(re), tok(im)]


def graded_root(rng, emin, emax):
    """sign * mantissa * 2^e: any two distinct values differ by >= 1/8 of the larger magnitude"""
    return rng.choice([1, -1]) * rng.choice(MR_MANT) * F(2) ** rng.randint(emin, emax)


def cpoly(roots, lead=F(1)):
    """lead * prod (X - r) for a conjugate-closed list of (re, im) roots: real coefficient list,
    or None when an imaginary part survives"""
    pr, pi = [F(lead)], [F(0)]
    for (a, b) in roots:
        qr = exact.padd(pr + [F(0)], [F(0)] + [-a * x for x in pr])
        qr = exact.padd(qr, [F(0)] + [b * x for x in pi])
        qi = exact.padd(pi + [F(0)], [F(0)] + [-a * x for x in pi])
        qi = exact.padd(qi, [F(0)] + [-b * x for x in pr])
        pr, pi = qr, qi
    if any(x != 0 for x in pi):
        return None
    return pr


def abs_poly(roots, lead):
    """|lead| * prod (X + (|re| + |im|)): entrywise bound of the coefficient sums of products; the scale
    against which a coefficient error is a relative perturbation of the roots"""
    p = [abs(F(lead))]
    for (a, b) in roots:
        p = exact.pmul(p, [F(1), abs(a) + abs(b)])
    return p


def float_exact(p):
    return all(F(float(c)) == c for c in p)


def mr_tol2(z, tol):
    """square of the tolerance the code uses for the zero z = (re, im)"""
    if tol is not None and F(tol) != 0:
        return F(tol) ** 2
    a2 = z[0] ** 2 + z[1] ** 2
    return 10 ** 6 * max(MR_EPS ** 2, a2 * MR_SQRT_EPS ** 2)


def mr_separated(zeros, poles, tol, margin=MR_MARGIN):
    """every zero is either equal to a pole or at least margin * tolerance away from it (exact), so that
    the tolerance test only identifies equal roots (hypothesis `hclose` of minreal_sem)"""
    if tol is not None and F(tol) != 0:
        margin = min(margin, 100)       # explicit tolerances: 1/1000 on the 1/4 grid, 1/100 on integers
    for z in zeros:
        t2 = mr_tol2(z, tol) * margin ** 2
        for q in poles:
            if q != z and (z[0] - q[0]) ** 2 + (z[1] - q[1]) ** 2 < t2:
                return False
    return True


def mr_survivors(zeros, poles):
    """exact multiset difference: what minreal must leave when only equal roots cancel"""
    ps = list(poles)
    zs = []
    for z in zeros:
        if z in ps:
            ps.remove(z)
        else:
            zs.append(z)
    return zs, ps


def mr_entries(case):
    """entries (row-major) of a minreal case; a case in the old single-entry form is one entry"""
    if "entries" in case:
        return case["entries"]
    return [{k: case[k] for k in ("num", "den", "zeros", "poles", "ncommon")}]


class C15(Family):
    prop = "C15"
    # source-text tie (notes/NOTES-py2lean-canon.md): Generated/Canon*.lean are rewritten from the text of
    # control/canonical.py and control/modelsimp.py of the tree under check on every run and proved equal to
    # the run-time model (DSS.similarity / reachableForm / observableForm / modelReduction)
    extra_modules = ["CtrlVerif.Props.C15GenSim", "CtrlVerif.Props.C15GenReach", "CtrlVerif.Props.C15GenObs",
                     "CtrlVerif.Props.C15GenForm", "CtrlVerif.Props.C15GenKeys", "CtrlVerif.Props.C15GenReduce",
                     "CtrlVerif.Props.C15Flag",
                     # source-text tie of the per-entry body of TransferFunction.minreal (py2lean_minreal):
                     # cancellation loop = cancelRoots, body = minrealEntry, tolerance test = closeQ
                     "CtrlVerif.Props.C15GenMinreal",
                     # the same test instantiated over the reals (abs = sqrt(re^2 + im^2)) = closeQI, the
                     # Gaussian-rational test the driver runs (negative tolerances included)
                     "CtrlVerif.Props.C15GenMinrealC",
                     # semantic theorems transported to the generated body (keeps num/den as a rational function)
                     "CtrlVerif.Props.C15GenMinrealSem"]

    def pre_build(self):
        import os
        from core import py2lean_canon, leanproj
        problems, self.gen_info = py2lean_canon.regenerate(os.environ.get("VERIF_REPO") or "/repo", leanproj.LEAN)
        from core import py2lean_minreal
        p2, info2 = py2lean_minreal.regenerate(os.environ.get("VERIF_REPO") or "/repo", leanproj.LEAN)
        self.gen_info.update(info2)
        return problems + p2
    externals = [
        "numpy.linalg.solve (the model uses a certified exact inverse: Gauss-Jordan candidate checked "
        "by F*X = 1, else det/adjugate)",
        "numpy.linalg.matrix_rank (the model decides rank deficiency by det = 0)",
        "numpy.poly(A) (the model receives the coefficient list; contract p(A) = 0 with p monic of degree n, "
        "checked exactly by the driver on every call; Cayley-Hamilton proves it for the characteristic polynomial)",
        "numpy.roots (the model receives the root lists; contract num = num[0]*prod(X - z), checked exactly "
        "by the driver on every call, over Q or Q(i))",
        "numpy.real applied to numpy.poly of the surviving roots (the driver certifies that the exact "
        "product has zero imaginary part, so real() is the identity on the model side)"]
    assumptions = [
        "results of solve-based routines are compared with a fixed relative tolerance (similarity 1e-9 with "
        "unimodular integer T, canonical forms 1e-8 under the generator's conditioning guard "
        "||W|| ||W^-1|| <= 2000 for the reachability/observability matrix and for T, matchdc 1e-9, minreal 1e-8); "
        "truncation and the companion structure (zeros, ones, e1) are compared exactly",
        "rank decisions are only exercised on inputs where the deficiency is structural (zero or repeated "
        "rows/columns), so that matrix_rank and det = 0 must agree",
        "the timebase of model_reduction results is not compared (C05)",
        "modal_form / bdschur are outside this property",
        "flag objects (inverse=, warn_unstable=): bool, int, numpy.bool_, numpy.int64, finite float, None, str, 0-d "
        "bool array, with CPython / NumPy truthiness (Model/PyFlag.lean, trusted); objects whose truth value raises "
        "(arrays with several elements) and nan are outside; whether model_reduction warns is not compared",
        "minreal: roots are rational or Gaussian rational (conjugate pairs on the 1/4 grid); coefficient lists "
        "are exactly representable as floats (generator guard); every zero is equal to a pole or at least 1000 "
        "tolerances away from it (exact generator guard; 100 for explicit tolerances), and the driver "
        "certifies on every call that the tolerance test identifies only equal roots among the roots of the "
        "entry (hypothesis of minreal_sem_on); repeated roots (multiplicity <= 2, integers) only with the "
        "explicit tolerance 1/100 because numpy.roots splits a double root by up to 5.5e-7",
        "minreal results are compared coefficient by coefficient relative to |gain| * prod (X + |r|) over the "
        "surviving roots (a relative perturbation of the roots): 1e-8 for O(1) and complex roots (worst "
        "measured 6.2e-13), 1e-5 for roots spread over up to 2^54 (worst measured 3.5e-10 on 80 000 cases per "
        "class), 1e-3 for a survivor of a split double root (worst measured 1.4e-7)"]
    rule = ("similarity: random integer systems (n 0..5, shapes {1,2,3}^2), unimodular integer T, timescale in "
            "{1,2,1/2,-1,3,...} (float, int, numpy.float64, numpy.int64, omitted), inverse= as a flag *object* "
            "(literal False/True, omitted, 0/1/2/-1, numpy.bool_ from a comparison, numpy.int64, floats, 0-d bool "
            "array, None, strings; the model computes the truth value; two regular cases of every spelling in every "
            "quick run), keyword or positional arguments, plus singular / wrong-shape T; canonical forms: SISO reachable "
            "(observable) integer systems of order 1..5 under a conditioning guard, plus structurally "
            "unreachable/unobservable, MIMO and zero-state inputs, through reachable_form/observable_form/"
            "canonical_form; model_reduction: keep/elim of states, inputs, outputs spelled as int, name, list "
            "(mixed, list/tuple/ndarray), slice (negative steps), negative offsets, duplicates, custom labels, "
            "methods truncate/matchdc/other, singular A22, discrete systems, warn_unstable= as any flag object or "
            "omitted (warnings captured, result must not depend on it); minreal: products of linear "
            "factors with shared roots, in the classes small (1/4 grid in [-3,3], also no poles, improper, "
            "explicit tolerances), bigzero / bigpole / bigboth (one or two roots of size 2^13..2^26 next to O(1) "
            "dynamics, optionally shared), tiny (roots of size 2^-28..2^-6), log (every root m*2^e, e in "
            "-14..14), repeated (multiplicity 2 on either side, explicit tolerance), complex (conjugate pairs, "
            "distinct roots sharing real part / imaginary part / modulus), mimo (1x2..3x2 matrices mixing the "
            "classes, one tolerance argument); 30% of the 1x1 cases through control.minreal(sys, tol, verbose=flag "
            "object or omitted), output captured; 20 cases of every class in every quick run; non-trivial = the "
            "operation returns a system with states (or cancels a factor)")

    # ---- generation ---------------------------------------------------------
    def rand_sys(self, rng, n, p, m, dt=None, lo=-3, hi=3, sparse=0.0):
        ri = lambda: 0 if rng.random() < sparse else rng.randint(lo, hi)
        return {"n": n, "p": p, "m": m,
                "dt": dt if dt is not None else rng.choice(["C", "C", "C", "N", "T", DT01, "D1/4"]),
                "A": toks([ri() for _ in range(n * n)]), "B": toks([ri() for _ in range(n * m)]),
                "C": toks([ri() for _ in range(p * n)]),
                "D": toks([rng.randint(lo, hi) if rng.random() < 0.7 else 0 for _ in range(p * m)])}

    def gen_sim(self, rng, flag=None):
        """`flag`: a flag token to use for inverse= (then a regular case: states, unimodular T)"""
        n = rng.choice([0, 1, 2, 2, 3, 3, 4, 5]) if flag is None else rng.choice([2, 3, 3, 4])
        p, m = rng.choice([1, 1, 2, 3]), rng.choice([1, 1, 2, 3])
        s = self.rand_sys(rng, n, p, m)
        r = rng.random() if flag is None else 0.0
        q = n
        kind = "unimodular"
        if r < 0.80:
            T = unimodular(rng, n)
            if max([abs(x) for row in T for x in row] or [0]) > 6:
                T = unimodular(rng, n, steps=2)
        elif r < 0.88 and n >= 1:       # singular: a zero row or column (an exact zero pivot in LU)
            T = unimodular(rng, n)
            k = rng.randrange(n)
            if rng.random() < 0.5:
                T[k] = [F(0)] * n
            else:
                for i in range(n):
                    T[i][k] = F(0)
            kind = "singular"
        elif r < 0.94:                  # wrong size
            q = n + rng.choice([1, -1]) if n > 0 else 1
            T = unimodular(rng, q)
            kind = "wrongsize"
        else:                           # diagonal powers of two (exactly invertible, non-unimodular)
            T = [[F(rng.choice([1, 2, 4, -2, F(1, 2)])) if i == j else F(0) for j in range(n)] for i in range(n)]
            kind = "dyadic"
        c = rng.choice(["1", "1", "2", "1/2", "-1", "3", "4", "-2", "1/4", "5"])
        if rng.random() < 0.03:
            c = "0"
        inv = (rng.random() < 0.4) if flag is None else (flag in FLAG_TRUTHY)
        # how the call is spelled: the flag object (intended truth value `inv`), the kind of number
        # handed over as timescale, keyword / positional arguments, omitted defaults
        flag = flag or rand_flag(rng, inv, allow_default=False)
        ckind = rng.choice(["float", "float", "int", "int", "npfloat", "npint", "default"])
        if ckind == "default" and c != "1":
            ckind = "float"
        how = "kw" if "default" in (flag, ckind) else rng.choice(["kw", "kw", "pos"])
        return {"op": "sim", "sys": s, "q": q, "T": exmat.flat_tokens(T), "c": c,
                "inv": inv, "flag": flag, "how": how, "Tas": rng.choice(["array", "list", "intarray"]),
                "ckind": ckind, "kind": kind}

    def reach_ok(self, s, dual=False):
        """conditioning guard for canonical forms (exact)"""
        A, B, C, D = sys_mats(s)
        n = s["n"]
        if dual:
            A, B = transpose(A), transpose(C, n)
        W = matpow_cols(A, B, n)
        k1 = cond_proxy(W)
        if k1 is None or k1 > COND_MAX:
            return False
        a = charpoly(A)
        Ac = [[(-a[j + 1] if i == 0 else F(int(i == j + 1))) for j in range(n)] for i in range(n)]
        e1 = [[F(int(i == 0))] for i in range(n)]
        Wz = matpow_cols(Ac, e1, n)
        T = exmat.mul(Wz, exmat.solve(W, exmat.eye(n)))
        k2 = cond_proxy(T)
        k3 = cond_proxy(Wz)
        return k2 is not None and k2 <= COND_MAX and k3 <= COND_MAX

    def gen_canon(self, rng):
        r = rng.random()
        form = rng.choice(["reachable", "observable"])
        via = rng.choice(["direct", "direct", "canonical_form"])
        if r < 0.72:
            n = rng.choice([1, 2, 2, 3, 3, 4, 4, 5])
            for _ in range(400):
                if rng.random() < 0.5:
                    s = self.rand_sys(rng, n, 1, 1, lo=-2, hi=2, sparse=0.3)
                else:       # similar to a companion form through a unimodular matrix
                    a = [rng.randint(-2, 2) for _ in range(n)]
                    Ac = [[F(-a[j]) if i == 0 else F(int(i == j + 1)) for j in range(n)] for i in range(n)]
                    Tm = unimodular(rng, n, steps=rng.randint(0, n + 1))
                    Ti = exmat.solve(Tm, exmat.eye(n))
                    A = exmat.mul(exmat.mul(Ti, Ac), Tm)
                    e1 = [[F(int(i == 0))] for i in range(n)]
                    Bm = exmat.mul(Ti, e1)
                    Cm = [[F(rng.randint(-3, 3)) for _ in range(n)]]
                    if form == "observable":
                        A, Bm, Cm = transpose(A), transpose(Cm), transpose(Bm)
                    s = {"n": n, "p": 1, "m": 1, "dt": rng.choice(["C", "C", "N", "T", DT01]),
                         "A": exmat.flat_tokens(A), "B": exmat.flat_tokens(Bm), "C": exmat.flat_tokens(Cm),
                         "D": toks([rng.randint(-2, 2)])}
                if max(abs(F(x)) for x in s["A"]) > 12:
                    continue
                if self.reach_ok(s, dual=(form == "observable")):
                    return {"op": "canon", "form": form, "via": via, "sys": s, "kind": "regular"}
                if _ % 40 == 39 and n > 1:
                    n -= 1
            s = {"n": 1, "p": 1, "m": 1, "dt": "C", "A": ["-1"], "B": ["1"], "C": ["1"], "D": ["0"]}
            return {"op": "canon", "form": form, "via": via, "sys": s, "kind": "regular"}
        if r < 0.86:        # structurally unreachable / unobservable
            n = rng.choice([1, 2, 2, 3, 3, 4])
            k = rng.random()
            s = self.rand_sys(rng, n, 1, 1, lo=-2, hi=2)
            A, B, C, D = sys_mats(s)
            if k < 0.3 or n == 1:               # zero input vector
                B = exmat.zeros(n, 1)
            elif k < 0.5 and form == "reachable" and n >= 2:
                # two identical decoupled halves: Wrx has repeated rows but no zero row, so only
                # the rank test (not a zero pivot) stands between the input and a garbage result.
                # Guard: the numerical rank decision has a margin of 100 on this input.
                h = n // 2
                for _ in range(50):
                    A1 = [[F(rng.randint(-2, 2)) for _ in range(h)] for _ in range(h)]
                    b1 = [F(rng.randint(-2, 2)) for _ in range(h)]
                    A = exmat.zeros(n, n)
                    for i in range(h):
                        for j in range(h):
                            A[i][j] = A1[i][j]
                            A[h + i][h + j] = A1[i][j]
                    if n > 2 * h:
                        A[n - 1][n - 1] = F(rng.randint(-2, 2))
                    B = [[b1[i % h] if i < 2 * h else F(1)] for i in range(n)]
                    W = np.array([[float(x) for x in r_] for r_ in matpow_cols(A, B, n)])
                    sv = np.linalg.svd(W, compute_uv=False)
                    if sv.max() == 0 or sv.min() <= 0.01 * sv.max() * n * np.finfo(float).eps:
                        break
                else:
                    B = exmat.zeros(n, 1)
            else:                               # h decoupled, undriven trailing states
                h = rng.randint(1, n - 1)
                for i in range(n - h, n):
                    for j in range(n - h):
                        A[i][j] = F(0)
                    B[i][0] = F(0)
            if form == "reachable":
                s.update(A=exmat.flat_tokens(A), B=exmat.flat_tokens(B))
            else:                               # the dual pair is unobservable
                s.update(A=exmat.flat_tokens(transpose(A)), C=exmat.flat_tokens(transpose(B)))
            return {"op": "canon", "form": form, "via": via, "sys": s, "kind": "deficient"}
        if r < 0.93:        # MIMO
            p, m = rng.choice([(1, 2), (2, 1), (2, 2)])
            return {"op": "canon", "form": form, "via": via, "sys": self.rand_sys(rng, rng.randint(1, 3), p, m),
                    "kind": "mimo"}
        if r < 0.97:        # unknown form
            return {"op": "canon", "form": rng.choice(["foo", "Reachable", "controllable"]), "via": "canonical_form",
                    "sys": self.rand_sys(rng, 2, 1, 1), "kind": "badform"}
        return {"op": "canon", "form": form, "via": via, "sys": self.rand_sys(rng, 0, 1, 1), "kind": "static"}

    def rand_key(self, rng, labels, want=None, allow_bad=True):
        """a spelling of a subset of the offsets; `want` = list of offsets to spell (or random)"""
        n = len(labels)
        if want is None:
            k = rng.randint(0, n) if n else 0
            want = rng.sample(range(n), k) if rng.random() < 0.6 else sorted(rng.sample(range(n), k))
        r = rng.random()
        if not want:
            return rng.choice([{"t": "N"}, {"t": "L", "v": [], "as": "list"}, {"t": "R", "v": [0, 0, None]}])
        if len(want) == 1 and r < 0.3:
            i = want[0]
            if rng.random() < 0.5:
                return {"t": "S", "v": labels[i]}
            return {"t": "I", "v": i if rng.random() < 0.7 else i - n}
        if r < 0.5:         # try a slice that denotes the same set
            for _ in range(30):
                sl = [rng.choice([None, rng.randint(-n - 1, n + 1)]), rng.choice([None, rng.randint(-n - 1, n + 1)]),
                      rng.choice([None, 1, 2, -1, -2, 3])]
                if sorted(range(n)[slice(*sl)]) == sorted(want):
                    return {"t": "R", "v": sl}
        atoms = []
        for i in want:
            q = rng.random()
            if q < 0.4:
                atoms.append(["S", labels[i]])
            elif q < 0.85:
                atoms.append(["I", i])
            else:
                atoms.append(["I", i - n])
        as_ = "list"
        if all(a[0] == "I" for a in atoms):
            as_ = rng.choice(["list", "list", "array", "tuple"])
        if allow_bad and rng.random() < 0.06 and atoms:      # duplicate
            atoms.append(list(rng.choice(atoms)))
        return {"t": "L", "v": atoms, "as": as_}

    def gen_red(self, rng):
        n = rng.choice([1, 2, 3, 3, 4, 4, 5])
        p, m = rng.choice([1, 1, 2, 3]), rng.choice([1, 1, 2, 3])
        dt = rng.choice(["C", "C", "C", "C", "N", "T", DT01])
        s = self.rand_sys(rng, n, p, m, dt=dt)
        if rng.random() < 0.5:
            labels = [["x[%d]" % i for i in range(n)], ["u[%d]" % i for i in range(m)], ["y[%d]" % i for i in range(p)]]
        else:
            names = ["pos", "vel", "acc", "th", "om", "q1", "q2", "w", "z", "e", "f", "g"]
            rng.shuffle(names)
            labels = [names[:n], ["in%d" % i for i in range(m)], ["out_%s" % "abc"[i] for i in range(p)]]
        method = rng.choice(["truncate", "truncate", "matchdc", "matchdc", "matchdc", "foo"])
        keys = {k: {"t": "N"} for k in ("es", "ks", "ei", "ki", "eo", "ko")}
        r = rng.random()
        kind = "regular"
        # states
        which = rng.choice(["es", "es", "ks", "none"])
        if which != "none":
            keys[which] = self.rand_key(rng, labels[0])
        # inputs / outputs (never eliminate all of them)
        for (e, k, lab) in (("ei", "ki", labels[1]), ("eo", "ko", labels[2])):
            if len(lab) > 1 and rng.random() < 0.5:
                cnt = rng.randint(1, len(lab) - 1)
                want = rng.sample(range(len(lab)), cnt)
                keys[rng.choice([e, k])] = self.rand_key(rng, lab, want=want)
        if r < 0.05:        # unknown name
            keys["es"] = {"t": "L", "v": [["S", "nosuch"], ["I", 0]], "as": "list"}
            keys["ks"] = {"t": "N"}
            kind = "unknown-name"
        elif r < 0.10:      # both keep and elim
            keys["es"] = {"t": "I", "v": 0}
            keys["ks"] = {"t": "L", "v": [["I", n - 1]], "as": "list"}
            kind = "both"
        elif r < 0.15:      # out of range
            keys[rng.choice(["es", "ks"])] = {"t": "L", "v": [["I", rng.choice([n, n + 1, -n - 1])]], "as": "list"}
            if keys["es"]["t"] != "N" and keys["ks"]["t"] != "N":
                keys["ks"] = {"t": "N"}
            kind = "out-of-range"
        elif r < 0.22 and n >= 2:      # singular A22 (structural): eliminated state with a zero row in A22
            A, B, C, D = sys_mats(s)
            el = sorted(rng.sample(range(n), rng.randint(1, min(2, n))))
            for j in el:
                A[el[0]][j] = F(0)
            s["A"] = exmat.flat_tokens(A)
            keys["es"] = {"t": "L", "v": [["I", i] for i in el], "as": "list"}
            keys["ks"] = {"t": "N"}
            method = "matchdc"
            s["dt"] = "C"
            kind = "singular-A22"
        # warn_unstable=: the family used to pass the literal False only, so the code under `if warn_unstable:`
        # (and the default, True) never ran; now any flag object / omitted.  The result must not depend on it.
        wu = rand_flag(rng, rng.random() < 0.5, allow_default=True)
        return {"op": "red", "sys": s, "labels": labels, "keys": keys, "method": method, "kind": kind, "wu": wu}

    # minreal ------------------------------------------------------------------
    MR_CLASSES = ["small", "small", "bigzero", "bigzero", "bigpole", "bigboth", "tiny", "log", "repeated",
                  "complex", "complex", "mimo", "mimo"]

    def mr_roots(self, rng, cls):
        """(zeros, poles, tol) for one entry of class `cls`: lists of exact (re, im) roots"""
        small = list(MR_SMALL)
        rng.shuffle(small)
        tol = rng.choice([None, None, None, None, None, "0", "0", "-1/1000"])   # negative: nothing cancels
        if cls == "small":
            nz, npole = rng.randint(0, 4), rng.randint(0, 4)
            ncommon = rng.randint(0, min(nz, npole))
            zs = small[:ncommon] + small[ncommon:nz]
            ps = small[:ncommon] + small[4:4 + npole - ncommon]
            tol = rng.choice([None, None, None, None, None, None, "1/1000", "1/1000", "1/1000000", "1/1000000",
                              "0", "0", "-1/1000"])
            return [(z, F(0)) for z in zs], [(q, F(0)) for q in ps], tol
        if cls in ("bigzero", "bigpole", "bigboth", "tiny"):
            # a few roots that are many orders of magnitude larger (smaller) than the O(1) dynamics
            rg = (-28, -6) if cls == "tiny" else (13, 26)
            nsz, nsp = rng.randint(0, 3), rng.randint(0, 3)
            ncommon = rng.randint(0, min(nsz, nsp))
            zs = small[:ncommon] + small[ncommon:nsz]
            ps = small[:ncommon] + small[4:4 + nsp - ncommon]
            far = []
            while len(far) < 4:
                r = graded_root(rng, *rg)
                if r not in far:
                    far.append(r)
            side = {"bigzero": "z", "bigpole": "p"}.get(cls) or rng.choice(["z", "p", "zp", "zp"])
            if "z" in side:
                zs += far[:rng.randint(1, 2)]
            if "p" in side:
                ps += far[2:2 + rng.randint(1, 2)]
            if side == "zp" and rng.random() < 0.5:         # a far root shared by both
                ps.append(zs[-1])
            return [(z, F(0)) for z in zs], [(q, F(0)) for q in ps], tol
        if cls == "log":                                    # every root on its own scale
            pool = []
            while len(pool) < 8:
                r = graded_root(rng, -14, 14)
                if r not in pool:
                    pool.append(r)
            nz, npole = rng.randint(0, 4), rng.randint(0, 4)
            ncommon = rng.randint(0, min(nz, npole))
            zs = pool[:ncommon] + pool[ncommon:nz]
            ps = pool[:ncommon] + pool[4:4 + npole - ncommon]
            return [(z, F(0)) for z in zs], [(q, F(0)) for q in ps], tol
        if cls == "repeated":
            # integer roots, multiplicity <= 2 on either side: each zero may cancel ONE pole.  numpy.roots
            # splits a double root by up to 5.5e-7 here, which is too close to the default tolerance
            # (1.5e-5 |z|), so the class is run with an explicit tolerance 1/100 (roots >= 1 apart).
            pool = [F(x) for x in range(-5, 6)]
            rng.shuffle(pool)
            zs, ps = [], []
            for r in pool[:rng.randint(1, 3)]:
                mz, mp = rng.choice([(1, 2), (2, 1), (2, 2), (2, 0), (0, 2), (1, 1), (1, 0), (0, 1)])
                zs += [r] * mz
                ps += [r] * mp
            return [(z, F(0)) for z in zs[:4]], [(q, F(0)) for q in ps[:4]], "1/100"
        if cls == "complex":
            # conjugate pairs a +- b i (a, b on the 1/4 grid, b > 0) and real roots.  Half of the cases are
            # built around one pair so that distinct roots share the real part, the imaginary part or the
            # modulus (a test on only one of them would cancel them)
            def pick():
                if rng.random() < 0.6:
                    return (F(rng.randint(-8, 8), 4), F(rng.randint(1, 8), 4))
                return (F(rng.randint(-12, 12), 4), F(0))
            pool = []
            if rng.random() < 0.5:
                a, b = F(rng.randint(-8, 8), 4), F(rng.randint(1, 8), 4)
                b2 = rng.choice([x for x in range(1, 9) if F(x, 4) != b])
                a2 = rng.choice([x for x in range(-8, 9) if F(x, 4) != a])
                near = [(a, F(b2, 4)), (F(a2, 4), b), (a, F(0)), (-a, b)]
                if a > 0 and a != b:
                    near.append((b, a))                     # same modulus
                if (a, b) in ((F(3, 4), F(1)), (F(-3, 4), F(1))):
                    near.append((a / abs(a), F(3, 4)))
                rng.shuffle(near)
                pool = [(a, b)]
                for r in near:
                    if r not in pool:
                        pool.append(r)
                if rng.random() < 0.5:                      # which of them is shared, which are distinct
                    pool[0], pool[1] = pool[1], pool[0]
            while len(pool) < 6:
                r = pick()
                if r not in pool:
                    pool.append(r)
            nz, npole = rng.randint(0, 2), rng.randint(1, 2)
            ncommon = rng.randint(0, min(nz, npole))
            zs = pool[:ncommon] + pool[ncommon:nz]
            ps = pool[:ncommon] + pool[3:3 + npole - ncommon]
            close = lambda v: [x for (a, b) in v for x in ([(a, b), (a, -b)] if b else [(a, b)])]
            return close(zs), close(ps), rng.choice([None, None, None, None, "0", "0", "1/1000", "1/1000", "-1/1000"])
        raise ValueError(cls)

    def mr_entry(self, rng, cls):
        """one matrix entry: exact coefficient lists that are exactly representable as floats, root lists
        satisfying the separation guard; None when the draw has to be repeated"""
        zs, ps, tol = self.mr_roots(rng, cls)
        if len(zs) > 5 or len(ps) > 5:
            return None
        g = F(rng.choice([1, 2, -1, 3, F(1, 2), -2, 5]))
        if rng.random() < 0.05:
            g, zs = F(0), []
        d0 = F(rng.choice([1, 1, 2, -1, 4]))
        num, den = cpoly(zs, g), cpoly(ps, d0)
        if num is None or den is None or not (float_exact(num) and float_exact(den)):
            return None
        if not mr_separated(zs, ps, tol):
            return None
        kept = mr_survivors(zs, ps)
        rng.shuffle(zs)
        rng.shuffle(ps)
        return {"num": toks(num), "den": toks(den), "zeros": [root_tok(*z) for z in zs],
                "poles": [root_tok(*q) for q in ps], "ncommon": len(zs) - len(kept[0]), "cls": cls}, tol

    def gen_minreal(self, rng, cls=None):
        cls = cls or rng.choice(self.MR_CLASSES)
        dt = rng.choice(["C", "C", "N", "T", DT01])
        for _ in range(200):
            if cls != "mimo":
                r = self.mr_entry(rng, cls)
                if r is None:
                    continue
                case = {"op": "minreal", "p": 1, "m": 1, "entries": [r[0]], "tol": r[1], "dt": dt, "cls": cls}
                if rng.random() < 0.3:      # through control.minreal(sys, tol, verbose=<flag object or omitted>)
                    case.update(via="function", vb=rand_flag(rng, rng.random() < 0.5, allow_default=True))
                return case
            # MIMO: entries of different classes in one matrix, one tolerance argument for all of them
            p_, m_ = rng.choice([(1, 2), (2, 1), (2, 2), (2, 3), (3, 2)])
            ents, tol = [], rng.choice([None, None, "0"])
            while len(ents) < p_ * m_:
                r = self.mr_entry(rng, rng.choice(["small", "small", "bigzero", "bigpole", "tiny", "log", "complex"]))
                if r is None or (r[1] not in (None, "0")):
                    continue
                ents.append(r[0])
            return {"op": "minreal", "p": p_, "m": m_, "entries": ents, "tol": tol, "dt": dt, "cls": cls}
        e = {"num": ["1", "1"], "den": ["1", "3", "2"], "zeros": ["-1"], "poles": ["-1", "-2"], "ncommon": 1,
             "cls": "small"}
        return {"op": "minreal", "p": 1, "m": 1, "entries": [e], "tol": None, "dt": dt, "cls": "small"}

    def generate(self, rng, tier):
        n = 700 if tier == "quick" else 20000
        out = []
        for i in range(n):
            k = i % 10
            if k < 3:
                out.append(self.gen_sim(rng))
            elif k < 6:
                out.append(self.gen_canon(rng))
            elif k < 9:
                out.append(self.gen_red(rng))
            else:
                out.append(self.gen_minreal(rng))
        # minreal input classes (root magnitudes, multiplicities, complex pairs, matrices): every class
        # is present in every run
        # similarity_transform: every kind of flag object for inverse= is present in every run, on a regular
        # case (states, invertible non-trivial T), so that the direction taken is visible in the result
        per = 2 if tier == "quick" else 40
        for t in sorted(set(FLAG_FALSY + FLAG_TRUTHY + ["default"])):
            out.extend(self.gen_sim(rng, flag=t) for _ in range(per))
        per = 20 if tier == "quick" else 450
        for cls in self.MR_CLASSES:
            out.extend(self.gen_minreal(rng, cls) for _ in range(per))
        return out

    def corpus(self):
        s3 = {"n": 3, "p": 1, "m": 1, "dt": "C", "A": toks([-1, 2, 0, 0, -2, 1, 1, 0, -3]),
              "B": toks([1, 0, 1]), "C": toks([1, 1, 0]), "D": toks([2])}
        lab = [["x[0]", "x[1]", "x[2]"], ["u[0]"], ["y[0]"]]
        N = {"t": "N"}

        def mr(zs, ps, cls, tol=None, g=2):
            zs, ps = [(F(a), F(b)) for a, b in zs], [(F(a), F(b)) for a, b in ps]
            e = {"num": toks(cpoly(zs, g)), "den": toks(cpoly(ps, 1)), "zeros": [root_tok(*z) for z in zs],
                 "poles": [root_tok(*q) for q in ps], "ncommon": len(zs) - len(mr_survivors(zs, ps)[0]), "cls": cls}
            return {"op": "minreal", "p": 1, "m": 1, "entries": [e], "tol": tol, "dt": "C", "cls": cls}
        keys = lambda **kw: dict({k: N for k in ("es", "ks", "ei", "ki", "eo", "ko")}, **kw)
        return [
            {"op": "red", "sys": s3, "labels": lab, "keys": keys(es={"t": "L", "v": [["I", -1]], "as": "list"}),
             "method": "truncate", "kind": "regular"},
            {"op": "red", "sys": s3, "labels": lab, "keys": keys(ks={"t": "L", "v": [["I", -1]], "as": "list"}),
             "method": "matchdc", "kind": "regular"},
            {"op": "red", "sys": s3, "labels": lab, "keys": keys(ks={"t": "L", "v": [["I", 1], ["I", 1]], "as": "list"}),
             "method": "truncate", "kind": "regular"},
            {"op": "sim", "sys": s3, "q": 3, "T": toks([1, 1, 0, 0, 1, 1, 0, 0, 1]), "c": "2", "inv": False,
             "Tas": "array", "ckind": "float", "kind": "unimodular"},
            {"op": "canon", "form": "reachable", "via": "direct", "sys": s3, "kind": "regular"},
            {"op": "canon", "form": "observable", "via": "canonical_form", "sys": s3, "kind": "regular"},
            # flag objects for inverse= (C15-m8: `inverse is False` sends 0 / numpy.False_ to the x = T z branch)
        ] + [
            {"op": "sim", "sys": s3, "q": 3, "T": toks([1, 2, 0, 0, 1, 3, 1, 0, 2]), "c": c_, "inv": t_ in FLAG_TRUTHY,
             "flag": t_, "how": h_, "Tas": "array", "ckind": "float", "kind": "regular"}
            for (t_, c_, h_) in [("i0", "1", "kw"), ("nb0", "2", "kw"), ("ni0", "1", "pos"), ("a0", "1", "kw"),
                                 ("none", "1", "kw"), ("default", "1", "kw"), ("i2", "2", "kw"), ("nb1", "1", "pos"),
                                 ("s:False", "1", "kw")]
        ] + [
            # minreal, one minimised case per input class that a seeded change needed (C15-m3 and its
            # neighbours: tolerance taken from the largest zero / pole, all matching poles deleted, test on
            # the real part only, absolute tolerance)
            mr([(1.75, 0), (327680, 0)], [(2.5, 0)], "bigzero"),
            mr([(-1, 0), (-2097152, 0)], [(-1, 0), (-3, 0), (-10, 0)], "bigzero"),
            mr([(-1, 0)], [(-3, 0), (-2097152, 0)], "bigpole"),
            mr([(2, 0)], [(2, 0), (2, 0), (5, 0)], "repeated", tol="1/100"),
            mr([(-1, 2), (-1, -2)], [(-1, 1), (-1, -1), (-1, 2), (-1, -2)], "complex"),
            mr([(F(1, 2 ** 20), 0)], [(F(5, 2 ** 22), 0), (-1, 0)], "tiny"),
        ]

    # ---- execution ----------------------------------------------------------
    def line(self, case):
        op = case["op"]
        if op == "sim":
            if case.get("flag") is not None:    # the flag *object*: the model computes its truth value
                return "c15 simf %s %d %s %s %s" % (leaf_line(case["sys"]), case["q"], " ".join(case["T"]),
                                                    case["c"], flag_token(case["flag"], "b0"))
            return "c15 sim %s %d %s %s %d" % (leaf_line(case["sys"]), case["q"], " ".join(case["T"]), case["c"],
                                               1 if case["inv"] else 0)
        if op == "canon":
            form = case["form"] if case["form"] in ("reachable", "observable") else "other"
            if case["via"] == "direct":
                return "c15 %s %s" % ("reach" if form == "reachable" else "obsv", leaf_line(case["sys"]))
            return "c15 canon %s %s" % (form, leaf_line(case["sys"]))
        if op == "red":
            lab = case["labels"]
            k = case["keys"]
            return "c15 red %s %s %s %s" % (
                leaf_line(case["sys"]),
                " ".join("%d %s" % (len(l), " ".join(l)) if l else "0" for l in lab),
                " ".join(key_tokens(k[x]) for x in ("es", "ks", "ei", "ki", "eo", "ko")), case["method"])
        if op == "minreal":
            f = lambda v: ("%d %s" % (len(v), " ".join(v))) if v else "0"
            out = []
            for e in mr_entries(case):
                roots = [root_parts(t) for t in e["zeros"] + e["poles"]]
                if any(b != 0 for (_, b) in roots):         # Gaussian-rational roots: the model runs over Q(i)
                    g = lambda v: "".join(" %s %s" % (tok(root_parts(t)[0]), tok(root_parts(t)[1])) for t in v)
                    out.append("c15 minrealc %s %s %d%s %d%s %s" % (
                        f(e["num"]), f(e["den"]), len(e["zeros"]), g(e["zeros"]), len(e["poles"]), g(e["poles"]),
                        case["tol"] if case["tol"] else "_"))
                else:
                    out.append("c15 minreal %s %s %s %s %s" % (f(e["num"]), f(e["den"]), f(e["zeros"]),
                                                              f(e["poles"]), case["tol"] if case["tol"] else "_"))
            return out
        raise ValueError(op)

    def impl(self, case):
        try:
            r = self.run_impl(case)
        except Exception as e:  # noqa
            return {"err": classify_exc(e), "exc": "%s: %s" % (type(e).__name__, str(e)[:160])}
        return r

    def run_impl(self, case):
        op = case["op"]
        try:
            if op == "sim":
                s = build_sys(case["sys"])
                q = case["q"]
                Tv = [F(x) for x in case["T"]]
                if case["Tas"] == "intarray" and all(v.denominator == 1 for v in Tv):
                    T = np.array([int(v) for v in Tv], dtype=int).reshape(q, q)
                else:
                    T = np.array([float(v) for v in Tv], dtype=float).reshape(q, q)
                if case["Tas"] == "list" and q > 0:      # [] would be a (1, 0) array
                    T = T.tolist()
                c = F(case["c"])
                ck = case["ckind"]
                if ck in ("int", "npint") and c.denominator == 1:
                    cv = int(c) if ck == "int" else np.int64(int(c))
                else:
                    cv = np.float64(float(c)) if ck == "npfloat" else float(c)
                flag = case.get("flag")
                fv = case["inv"] if flag is None else (None if flag == "default" else flag_value(flag))
                with np.errstate(all="ignore"):
                    if case.get("how") == "pos":
                        z = ct.similarity_transform(s, T, cv, fv)
                    else:
                        kw = {}
                        if not (ck == "default" and c == 1):
                            kw["timescale"] = cv
                        if flag != "default":
                            kw["inverse"] = fv
                        z = ct.similarity_transform(s, T, **kw)
                return {"ok": canon_ss(z)}
            if op == "canon":
                s = build_sys(case["sys"])
                if case["via"] == "direct":
                    z, T = (ct.reachable_form if case["form"] == "reachable" else ct.observable_form)(s)
                else:
                    z, T = ct.canonical_form(s, case["form"])
                o = canon_ss(z)
                o["T"] = exmat.flat_tokens(exmat.from_np(T, z.nstates, z.nstates))
                return {"ok": o}
            if op == "red":
                s = build_sys(case["sys"], case["labels"])
                k = case["keys"]
                wu = case.get("wu")
                kw = {} if wu == "default" else {"warn_unstable": False if wu is None else flag_value(wu)}
                with warnings.catch_warnings():
                    warnings.simplefilter("ignore")     # "System is unstable; reduction may be meaningless"
                    r = ct.model_reduction(
                        s, elim_states=key_value(k["es"]), keep_states=key_value(k["ks"]),
                        elim_inputs=key_value(k["ei"]), keep_inputs=key_value(k["ki"]),
                        elim_outputs=key_value(k["eo"]), keep_outputs=key_value(k["ko"]),
                        method=case["method"], **kw)
                return {"ok": canon_ss(r)}
            if op == "minreal":
                ents = mr_entries(case)
                p_, m_ = case.get("p", 1), case.get("m", 1)
                fl = lambda v: [float(F(x)) for x in v]
                if (p_, m_) == (1, 1):
                    g = ct.tf(fl(ents[0]["num"]), fl(ents[0]["den"]), dt_value(case["dt"]))
                else:
                    g = ct.tf([[fl(ents[i * m_ + j]["num"]) for j in range(m_)] for i in range(p_)],
                              [[fl(ents[i * m_ + j]["den"]) for j in range(m_)] for i in range(p_)],
                              dt_value(case["dt"]))
                tol = None if case["tol"] is None else float(F(case["tol"]))
                if case.get("via") == "function":       # modelsimp.minimal_realization; what it prints is not compared
                    vb = case.get("vb", "default")
                    kw = {} if vb == "default" else {"verbose": flag_value(vb)}
                    with contextlib.redirect_stdout(io.StringIO()):
                        r = ct.minreal(g, tol, **kw) if case["tol"] is not None else ct.minreal(g, **kw)
                else:
                    r = g.minreal(tol) if case["tol"] is not None else g.minreal()
                if (r.noutputs, r.ninputs) != (p_, m_):
                    return {"ok": {"shape": [r.noutputs, r.ninputs]}}
                return {"ok": {"entries": [{"num": toks([fr(x) for x in r.num_array[i, j]]),
                                            "den": toks([fr(x) for x in r.den_array[i, j]])}
                                           for i in range(p_) for j in range(m_)],
                               "dt": exact.dt_canon(r.dt)}}
        except ValueError as e:
            if "non-finite" in str(e):
                return {"ok": {"nonfinite": True}}
            raise
        raise ValueError(op)

    def parse_model(self, case, out):
        if case["op"] == "minreal":
            outs = out if isinstance(out, list) else [out]
            ents = []
            for o in outs:
                if o.startswith("err "):
                    return {"err": o.split()[1]}
                tk = Tokens(o)
                assert tk.next() == "ok"
                num = [tok(x) for x in tk.rats()]
                den = [tok(x) for x in tk.rats()]
                ents.append({"num": num, "den": den})
            return {"ok": {"entries": ents}}
        if out.startswith("err "):
            return {"err": out.split()[1]}
        tk = Tokens(out)
        assert tk.next() == "ok"
        assert tk.next() == "ss"
        n, p, m, dt = tk.nat(), tk.nat(), tk.nat(), tk.next()
        o = {"n": n, "p": p, "m": m, "dt": dt}
        for nm in "ABCD":
            r, c = tk.nat(), tk.nat()
            o[nm] = [tk.next() for _ in range(r * c)]
        if not tk.done():
            assert tk.next() == "T"
            r, c = tk.nat(), tk.nat()
            o["T"] = [tk.next() for _ in range(r * c)]
        return {"ok": o}

    # ---- comparison -----------------------------------------------------------
    def features(self, case, kind, impl=None, **extra):
        feat = {"op": case["op"], "kind": kind}
        if case["op"] == "canon":
            feat["form"] = case["form"] if case["form"] in ("reachable", "observable") else "other"
        if case["op"] == "red":
            feat["method"] = case["method"]
        if case["op"] == "sim" and case.get("flag") is not None:
            feat["flag"] = flag_kind(case["flag"])      # the kind of object passed as inverse=
        if impl is not None and "err" in impl:
            feat["exc"] = impl["exc"].split(":")[0]
            feat["msg"] = re.sub(r"[0-9]+", "#", impl["exc"].split(":", 1)[1].strip())[:50]
        feat.update(extra)
        return feat

    def close_m(self, a, b, tol):
        return exmat.close([[F(x) for x in a]], [[F(x) for x in b]], tol)

    def compare(self, case, impl, model):
        op = case["op"]
        if "err" in model:
            if "err" in impl:
                if impl["err"] == model["err"]:
                    return Verdict(AGREE)
                return Verdict(DIFFERS, "both raise, kinds differ: model %s, implementation %s"
                               % (model["err"], impl["exc"]), self.features(case, "errkind", impl, model=model["err"]))
            if model["err"] == "zeroDen" and impl["ok"].get("nonfinite"):
                return Verdict(AGREE)
            return self.returns_where_model_raises(case, impl, model)
        if "err" in impl:
            return self.raises_where_model_returns(case, impl, model)
        if impl["ok"].get("nonfinite"):
            return Verdict(VIOLATES, "non-finite result where the result exists", self.features(case, "nonfinite"))
        if op == "sim":
            return self.cmp_sim(case, impl["ok"], model["ok"])
        if op == "canon":
            return self.cmp_canon(case, impl["ok"], model["ok"])
        if op == "red":
            return self.cmp_red(case, impl["ok"], model["ok"])
        return self.cmp_minreal(case, impl["ok"], model["ok"])

    def red_feature_extra(self, case):
        k = case["keys"]
        neg = any(key_has_negative(k[x]) for x in k)
        dup = False
        for x, lab in (("es", 0), ("ks", 0), ("ei", 1), ("ki", 1), ("eo", 2), ("ko", 2)):
            v = key_resolved(k[x], case["labels"][lab])
            if v is not None and len(set(v)) != len(v):
                dup = True
        return {"negative_offset": neg, "duplicate": dup}

    def returns_where_model_raises(self, case, impl, model):
        e = model["err"]
        extra = self.red_feature_extra(case) if case["op"] == "red" else {}
        if e in ("illPosed", "shape", "indexRange", "unknownName", "notImplemented"):
            return Verdict(VIOLATES, "a system was returned where the model raises %s" % e,
                           self.features(case, "returns-" + e, **extra))
        return Verdict(DIFFERS, "model raises %s, implementation returns" % e,
                       self.features(case, "returns-" + e, **extra))

    def raises_where_model_returns(self, case, impl, model):
        extra = self.red_feature_extra(case) if case["op"] == "red" else {}
        return Verdict(VIOLATES, "implementation raises %s where the result exists" % impl["exc"],
                       self.features(case, "raises", impl, **extra))

    # similarity ---------------------------------------------------------------
    def cmp_sim(self, case, a, b):
        if (a["n"], a["p"], a["m"]) != (b["n"], b["p"], b["m"]):
            return Verdict(VIOLATES, "dimensions differ", self.features(case, "dims"))
        same = all(self.close_m(a[k], b[k], TOL_SIM) for k in "ABC") and a["D"] == b["D"]
        if same and a["dt"] == b["dt"]:
            return Verdict(AGREE)
        if a["dt"] != b["dt"]:
            return Verdict(VIOLATES, "timebase %s, original %s" % (a["dt"], b["dt"]), self.features(case, "dt"))
        # the property itself on the implementation's matrices
        s = case["sys"]
        n, p, m = s["n"], s["p"], s["m"]
        A, B, C, D = sys_mats(s)
        A2, B2, C2, D2 = sys_mats(a)
        c = F(case["c"])
        T = exmat.from_flat(case["T"], n, n)
        tol = TOL_SIM * 100
        if not case["inv"]:
            rel = [(exmat.mul(A2, T), exmat.scale(1 / c, exmat.mul(T, A)), "A' T = T A / c"),
                   (B2, exmat.scale(1 / c, exmat.mul(T, B)), "B' = T B / c"),
                   (exmat.mul(C2, T), C, "C' T = C")]
        else:
            rel = [(exmat.mul(T, A2), exmat.scale(1 / c, exmat.mul(A, T)), "T A' = A T / c"),
                   (exmat.mul(T, B2), exmat.scale(1 / c, B), "T B' = B / c"),
                   (C2, exmat.mul(C, T), "C' = C T")]
        for (l, r, name) in rel:
            if n and not exmat.close(l, r, tol):
                spelled = "" if case.get("flag") is None else " (inverse=%s, a %s flag object)" % (
                    "omitted" if case["flag"] == "default" else repr(flag_value(case["flag"])),
                    "truthy" if case["inv"] else "falsy")
                return Verdict(VIOLATES, "relation %s fails on the returned matrices%s" % (name, spelled),
                               self.features(case, "relation", rel=name.replace(" ", "")))
        if D2 != D:
            return Verdict(VIOLATES, "D changed", self.features(case, "D"))
        return Verdict(DIFFERS, "matrices differ from the model beyond tolerance, relations hold",
                       self.features(case, "value"))

    # canonical forms ------------------------------------------------------------
    def cmp_canon(self, case, a, b):
        n = b["n"]
        if (a["n"], a["p"], a["m"]) != (b["n"], b["p"], b["m"]):
            return Verdict(VIOLATES, "dimensions differ", self.features(case, "dims"))
        form = case["form"]
        Az = exmat.from_flat(a["A"], n, n)
        one, zero = F(1), F(0)
        # companion structure, exactly
        for i in range(n):
            for j in range(n):
                if form == "reachable" and i >= 1:
                    want = one if i == j + 1 else zero
                elif form == "observable" and j >= 1:
                    want = one if j == i + 1 else zero
                else:
                    continue
                if Az[i][j] != want:
                    return Verdict(VIOLATES, "companion structure: A[%d,%d] = %s" % (i, j, Az[i][j]),
                                   self.features(case, "structure"))
        e1 = [tok(F(int(i == 0))) for i in range(n)]
        if (form == "reachable" and a["B"] != e1) or (form == "observable" and a["C"] != e1):
            return Verdict(VIOLATES, "input/output vector is not e1", self.features(case, "structure-e1"))
        if a["D"] != b["D"]:
            return Verdict(VIOLATES, "D changed", self.features(case, "D"))
        if a["dt"] != b["dt"]:
            return Verdict(VIOLATES, "timebase %s, original %s" % (a["dt"], b["dt"]), self.features(case, "dt"))
        if all(self.close_m(a[k], b[k], TOL_CANON) for k in ("A", "B", "C", "T")):
            return Verdict(AGREE)
        # the property itself: z = T x relations on the implementation's own outputs
        s = case["sys"]
        A, B, C, D = sys_mats(s)
        A2, B2, C2, D2 = sys_mats(a)
        T = exmat.from_flat(a["T"], n, n)
        tol = TOL_CANON * 100
        if not self.close_m(a["A"], b["A"], TOL_CANON):
            return Verdict(VIOLATES, "coefficient row/column is not minus the characteristic polynomial",
                           self.features(case, "charpoly"))
        for (l, r, name) in [(exmat.mul(T, A), exmat.mul(A2, T), "T A = Az T"), (exmat.mul(T, B), B2, "T B = Bz"),
                             (exmat.mul(C2, T), C, "Cz T = C")]:
            if not exmat.close(l, r, tol):
                return Verdict(VIOLATES, "relation %s fails on the returned matrices" % name,
                               self.features(case, "relation", rel=name.replace(" ", "")))
        return Verdict(DIFFERS, "T / C differ from the model beyond tolerance, relations hold",
                       self.features(case, "value"))

    # model reduction ------------------------------------------------------------
    def cmp_red(self, case, a, b):
        extra = self.red_feature_extra(case)
        if (a["n"], a["p"], a["m"]) != (b["n"], b["p"], b["m"]):
            return Verdict(VIOLATES, "kept %d states, %d outputs, %d inputs; selected %d, %d, %d"
                           % (a["n"], a["p"], a["m"], b["n"], b["p"], b["m"]), self.features(case, "dims", **extra))
        exact_regime = case["method"] != "matchdc"
        if exact_regime:
            same = all(a[k] == b[k] for k in "ABCD")
        else:
            same = all(self.close_m(a[k], b[k], TOL_DC) for k in "ABCD")
        if same:
            return Verdict(AGREE)
        if exact_regime:
            return Verdict(VIOLATES, "reduced matrices are not the selected blocks",
                           self.features(case, "value", **extra))
        # matchdc: the property itself - DC gain of the returned system vs the selected block of the
        # original DC gain (both exactly, from the implementation's own matrices)
        s = case["sys"]
        A, B, C, D = sys_mats(s)
        Y0 = exmat.ss_eval(A, B, C, D, F(0), s["p"], s["m"])
        A2, B2, C2, D2 = sys_mats(a)
        Y1 = exmat.ss_eval(A2, B2, C2, D2, F(0), a["p"], a["m"])
        ko = key_resolved(case["keys"]["ko"], case["labels"][2]) or None
        eo = key_resolved(case["keys"]["eo"], case["labels"][2]) or []
        ki = key_resolved(case["keys"]["ki"], case["labels"][1]) or None
        ei = key_resolved(case["keys"]["ei"], case["labels"][1]) or []
        rows = sorted(set(ko)) if ko else [i for i in range(s["p"]) if i not in eo]
        cols = sorted(set(ki)) if ki else [j for j in range(s["m"]) if j not in ei]
        if Y0 is not None and Y1 is None:
            # det A = det A22 * det Ar: an invertible A (and A22) forces an invertible reduced A
            return Verdict(VIOLATES, "the original has a DC gain, the reduced system has a pole at 0",
                           self.features(case, "dcgain-lost", **extra))
        if Y0 is not None and Y1 is not None:
            Y0s = [[Y0[i][j] for j in cols] for i in rows]
            if not exmat.close(Y1, Y0s, TOL_DC * 1000):
                return Verdict(VIOLATES, "DC gain not preserved: original %s, reduced %s" % (
                    [float(x) for r in Y0s for x in r], [float(x) for r in Y1 for x in r]),
                    self.features(case, "dcgain", **extra))
        return Verdict(DIFFERS, "residualised matrices differ from the model, DC gain equal or undefined",
                       self.features(case, "value", **extra))

    # minreal ---------------------------------------------------------------------
    def mr_feat(self, case, kind, e=None, **extra):
        # the class of the offending ENTRY (not of the case), so that a matrix case shrinks to the entry
        f = self.features(case, kind, **extra)
        if e is not None:
            f["entry_cls"] = e.get("cls", "small")
        return f

    def mr_close(self, got, want, scale, tol):
        """|got_k - want_k| <= tol * scale_k: the error of a coefficient relative to the sum of the absolute
        values of the products it is made of (a relative perturbation of the roots), so small coefficients
        are compared as sharply as large ones"""
        if len(got) != len(want):
            return False
        if len(scale) != len(want):                 # constructor normalisation (zero numerator)
            scale = [max(F(1), max(abs(F(x)) for x in want))] * len(want)
        return all(abs(F(a) - F(b)) <= tol * h for a, b, h in zip(got, want, scale))

    def mr_values_differ(self, n0, d0, n1, d1, tol, extra_points=()):
        """a rational point where the two fractions (exact coefficient lists) differ beyond `tol`,
        relative; points where one of the four evaluations is ill conditioned are skipped"""
        def ev(p, s):
            v = exact.pval(p, s)
            hat = sum((abs(c) * abs(s) ** (len(p) - 1 - k) for k, c in enumerate(p)), F(0))
            return v, hat
        for s in list(POINTS) + list(extra_points):
            vals = [ev(p, s) for p in (n0, d0, n1, d1)]
            (a0, _), (b0, _), (a1, _), (b1, _) = vals
            if b0 == 0 or b1 == 0:
                continue
            # an evaluation that lost more than 3 digits to cancellation says nothing at this point
            if any(abs(v) * 1000 < hat for (v, hat) in vals[1::2]) or \
                    any(v != 0 and abs(v) * 1000 < hat for (v, hat) in vals[0::2]):
                continue
            v0, v1 = a0 / b0, a1 / b1
            if abs(v0 - v1) > tol * max(abs(v0), abs(v1)):
                return s, v0, v1
        return None

    def cmp_minreal(self, case, a, b):
        ents = mr_entries(case)
        if "shape" in a:
            return Verdict(VIOLATES, "result has shape %s" % a["shape"], self.mr_feat(case, "shape"))
        worst = None
        for k, (e, ia, mb) in enumerate(zip(ents, a["entries"], b["entries"])):
            zs, ps = mr_survivors([root_parts(t) for t in e["zeros"]], [root_parts(t) for t in e["poles"]])
            n0, d0 = [F(x) for x in e["num"]], [F(x) for x in e["den"]]
            cls = e.get("cls", "small")
            tol = {"small": TOL_MR, "complex": TOL_MR, "repeated": TOL_MR_REP}.get(cls, TOL_MR_WIDE)
            if self.mr_close(ia["num"], mb["num"], abs_poly(zs, n0[0] / d0[0]), tol) and \
                    self.mr_close(ia["den"], mb["den"], abs_poly(ps, 1), tol):
                continue
            # the property itself: is the returned entry the same rational function as the original one?
            n1, d1 = [F(x) for x in ia["num"]], [F(x) for x in ia["den"]]
            where = "" if len(ents) == 1 else "entry [%d,%d]: " % (k // case["m"], k % case["m"])
            dn, dd = len(n1) - len(mb["num"]), len(d1) - len(mb["den"])
            kind = "degree" if (dn or dd) else "value"
            extra = {}
            if kind == "degree":
                extra["cancelled"] = "more" if (dn < 0 or dd < 0) else "fewer"
            # besides the fixed points: points on the scale of every root of the entry (a factor that is
            # wrongly cancelled between roots of size 1e-6 is invisible at |s| ~ 1)
            mags = sorted(set(abs(x) + abs(y) for t in e["zeros"] + e["poles"] for (x, y) in [root_parts(t)]
                              if (x, y) != (0, 0)))
            near = [c * m_ for m_ in mags for c in (F(3, 2), F(-3, 2), F(5, 8), F(-5, 8), F(17, 16), F(-17, 16))]
            hit = self.mr_values_differ(n0, d0, n1, d1, tol * 100, near)
            if hit is not None:
                s_, v0, v1 = hit
                return Verdict(VIOLATES, "%stransfer function changed: G(%s) = %.12g, minreal gives %.12g "
                               "(orders %d/%d -> %d/%d, common factors %d)"
                               % (where, s_, float(v0), float(v1), len(n0) - 1, len(d0) - 1, len(n1) - 1,
                                  len(d1) - 1, e["ncommon"]), self.mr_feat(case, kind, e, **extra))
            if worst is None:
                worst = Verdict(DIFFERS, "%sorders %d/%d, model %d/%d; same values at the test points"
                                % (where, len(n1) - 1, len(d1) - 1, len(mb["num"]) - 1, len(mb["den"]) - 1),
                                self.mr_feat(case, kind, e, **extra))
        if worst is not None:
            return worst
        if a.get("dt") != case["dt"]:
            return Verdict(VIOLATES, "timebase changed", self.mr_feat(case, "dt"))
        return Verdict(AGREE)

    # ---- evidence ---------------------------------------------------------------
    def nontrivial(self, case, model):
        if "ok" not in model:
            return False
        if case["op"] == "minreal":
            return any(e["ncommon"] > 0 for e in mr_entries(case))
        return model["ok"]["n"] > 0

    def stats(self, case, impl, model):
        st = {"op": case["op"], "outcome": ("err:" + model["err"]) if "err" in model else "ok"}
        if case["op"] == "sim":
            st["sim.kind"] = case["kind"]
            st["sim.n"] = case["sys"]["n"]
            st["sim.c"] = case["c"]
            st["sim.inverse"] = case["inv"]
            st["sim.flag"] = "%s/%s" % (flag_kind(case.get("flag")), "truthy" if case["inv"] else "falsy")
            st["sim.call"] = "%s/timescale:%s" % (case.get("how", "kw"), case["ckind"])
        elif case["op"] == "canon":
            st["canon.kind"] = case["kind"]
            st["canon.form"] = case["form"] + "/" + case["via"]
            st["canon.n"] = case["sys"]["n"]
        elif case["op"] == "red":
            st["red.kind"] = case["kind"]
            st["red.method"] = case["method"]
            st["red.warn_unstable"] = flag_kind(case.get("wu"))
            for x in ("es", "ks", "ei", "ki", "eo", "ko"):
                if case["keys"][x]["t"] != "N":
                    st["red.key." + x] = key_kind(case["keys"][x])
            if "ok" in model:
                st["red.kept_states"] = "%d/%d" % (model["ok"]["n"], case["sys"]["n"])
        else:
            ents = mr_entries(case)
            st["minreal.common"] = sum(e["ncommon"] for e in ents)
            st["minreal.class"] = case.get("cls", "small")
            st["minreal.shape"] = "%dx%d" % (case.get("p", 1), case.get("m", 1))
            st["minreal.tol"] = case["tol"] or "default"
            st["minreal.via"] = "method" if case.get("via") != "function" else "function/verbose:" + flag_kind(case["vb"])
            mags = [abs(a) + abs(b) for e in ents for (a, b) in map(root_parts, e["zeros"] + e["poles"])
                    if (a, b) != (0, 0)]
            if mags:        # spread of the root magnitudes inside the case, in powers of two
                st["minreal.log2_spread"] = 4 * (int(np.log2(float(max(mags) / min(mags)))) // 4)
        if "err" in model and "err" in impl:
            st["errkind_equal"] = impl["err"] == model["err"]
        return st

    # ---- shrinking / search --------------------------------------------------------
    def shrink_minreal(self, case):
        ents = mr_entries(case)
        base = {"op": "minreal", "tol": case["tol"], "dt": case["dt"]}
        if case.get("via") == "function":
            base.update(via="function", vb=case.get("vb", "default"))
            yield {k: v for k, v in case.items() if k not in ("via", "vb")}     # the method itself
        if len(ents) > 1:       # a single entry of the matrix
            for e in ents:
                yield dict(base, p=1, m=1, entries=[e], cls=e.get("cls", "small"))
            return
        e = ents[0]
        if case["dt"] != "C":
            yield dict(case, dt="C")
        zs, ps = [root_parts(t) for t in e["zeros"]], [root_parts(t) for t in e["poles"]]
        g, d0 = F(e["num"][0]), F(e["den"][0])
        cands = []
        for r in sorted(set(zs + ps), key=lambda r: -abs(r[0]) - abs(r[1])):
            if r[1] < 0:
                continue
            pair = [r, (r[0], -r[1])] if r[1] else [r]
            for (dz, dp) in ((1, 1), (1, 0), (0, 1)):       # drop a common factor, a zero, a pole
                z2, p2 = list(zs), list(ps)
                try:
                    for q in pair:
                        if dz:
                            z2.remove(q)
                        if dp:
                            p2.remove(q)
                except ValueError:
                    continue
                cands.append((z2, p2))
        for (z2, p2) in cands:
            num, den = cpoly(z2, g if g != 0 else 0), cpoly(p2, d0)
            if num is None or den is None or g == 0 or not (float_exact(num) and float_exact(den)):
                continue
            if not mr_separated(z2, p2, case["tol"]):
                continue
            e2 = dict(e, num=toks(num), den=toks(den), zeros=[root_tok(*z) for z in z2],
                      poles=[root_tok(*q) for q in p2], ncommon=len(z2) - len(mr_survivors(z2, p2)[0]))
            yield dict(base, p=1, m=1, entries=[e2], cls=case.get("cls", "small"))
        if g not in (0, 1) or d0 != 1:
            num, den = cpoly(zs, 1), cpoly(ps, 1)
            if num is not None and den is not None and float_exact(num) and float_exact(den):
                yield dict(base, p=1, m=1, entries=[dict(e, num=toks(num), den=toks(den))],
                           cls=case.get("cls", "small"))

    def shrink(self, case):
        if case["op"] == "minreal":
            yield from self.shrink_minreal(case)
        if case["op"] == "red":
            if case.get("wu") not in (None, "b0"):
                yield dict(case, wu="b0")
            k = case["keys"]
            for x in ("ei", "ki", "eo", "ko", "es", "ks"):
                if k[x]["t"] != "N":
                    c2 = dict(case, keys=dict(k, **{x: {"t": "N"}}))
                    yield c2
            for x in k:
                if k[x]["t"] == "L" and len(k[x]["v"]) > 1:
                    for i in range(len(k[x]["v"])):
                        v = k[x]["v"][:i] + k[x]["v"][i + 1:]
                        yield dict(case, keys=dict(k, **{x: dict(k[x], v=v)}))
        if case["op"] in ("sim", "canon", "red"):
            s = case["sys"]
            if s["dt"] != "C":
                yield dict(case, sys=dict(s, dt="C"))
            if case["op"] == "sim" and case["c"] != "1":
                yield dict(case, c="1")
            if case["op"] == "sim":         # plain spelling of everything but the flag object
                if case.get("how") == "pos":
                    yield dict(case, how="kw")
                if case["ckind"] not in ("float", "default"):
                    yield dict(case, ckind="float")
                if case["Tas"] != "array":
                    yield dict(case, Tas="array")
                if flag_kind(case.get("flag")) not in ("literal", "default"):
                    yield dict(case, flag="b1" if case["inv"] else "b0")

    def search(self, rng, case, tier):
        if case["op"] == "minreal":
            return [self.gen_minreal(rng, case.get("cls")) for _ in range(300)]
        gen = {"sim": self.gen_sim, "canon": self.gen_canon, "red": self.gen_red}[case["op"]]
        return [gen(rng) for _ in range(300)]


FAMILY = C15
