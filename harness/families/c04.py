"""C04 — evaluation, frequency response, DC gain, poles/zeros plumbing: correspondence between
sys(x) / evalfr / horner / frequency_response / dcgain / poles / zeros of TransferFunction and
StateSpace and the Lean model `CtrlVerif.Model.Eval` (driver family `ev`, executed over Q(i)).
Besides single queries: points close to (not at) a pole, and histories of queries on one object
(`op: hist`; one driver line per step)."""
import math
import re
from fractions import Fraction

import numpy as np
import scipy.linalg
import control as ct
import control.statesp as _statesp
import control.xferfcn as _xferfcn

from core.runner import Family, Verdict, AGREE, VIOLATES, DIFFERS
from core import exact, exmat
from core.exact import fr, tok, Tokens

F0, F1 = Fraction(0), Fraction(1)
TAU = Fraction(1, 10 ** 9)           # regime T, conditioning guard met
TAU_SS3 = Fraction(1, 10 ** 8)       # >= 3 states through numpy.linalg.solve
TAU_LOOSE = Fraction(1, 10 ** 5)     # guard not met (close to a pole)
TAU_ROOTS = Fraction(1, 10 ** 7)     # coefficients rebuilt from the returned roots

# ----------------------------------------------------------------------------
# case = {"sys": sys, "op": op, ...}
#   sys = ["LT", p, m, dt, [[num, den]...]]  |  ["LS", ns, p, m, dt, A, B, C, D]     (token lists)
#       | ["LC", p, m, dt, [[num, den]...], ctype]   transfer function with complex coefficients: every
#         coefficient is a pair [re, im] of tokens; ctype "mixed" (real polynomials are handed over as
#         float lists) | "complex" (every polynomial as a complex list)
#   op "call":  "xs": [[re, im]...], "scalar": bool, "via": "call"|"evalfr"|"horner", "xkind": ...
#   op "freq":  "ws": [w...], "scalar": bool, "via": "method"|"func"
#   op "dc":    "via": "method"|"func"
#   op "poles" | "zeros": "via": "method"|"func"
#   op "hist":  "steps": [query without "sys" ...] asked one after the other of ONE object,
#               "layout": {"A"|"B"|"C"|"D": "C"|"F"|"T"|"S"|"R"|"L"|"I"} (state space: how the caller
#               holds the matrices, see lay_array)
#   optional: "near": 1 (case of the near-pole stream), "warr": bool (freq: omega as an ndarray)
# ----------------------------------------------------------------------------


def dt_value(t):
    if t == "N":
        return None
    if t == "T":
        return True
    if t == "C":
        return 0
    return float(Fraction(t[1:]))


def F(x):
    return Fraction(x)


def fmat(vals, r, c):
    return [[Fraction(vals[i * c + j]) for j in range(c)] for i in range(r)]


def npmat(vals, r, c):
    return np.array([float(Fraction(v)) for v in vals], dtype=float).reshape(r, c)


class GQ:
    """a Gaussian rational (exact arithmetic for the complex-coefficient stream); mixes with
    int / Fraction"""
    __slots__ = ("re", "im")

    def __init__(self, re_=0, im_=0):
        self.re = Fraction(re_)
        self.im = Fraction(im_)

    @staticmethod
    def of(x):
        return x if isinstance(x, GQ) else GQ(x, 0)

    def __add__(self, o):
        o = GQ.of(o)
        return GQ(self.re + o.re, self.im + o.im)
    __radd__ = __add__

    def __neg__(self):
        return GQ(-self.re, -self.im)

    def __sub__(self, o):
        o = GQ.of(o)
        return GQ(self.re - o.re, self.im - o.im)

    def __rsub__(self, o):
        return GQ.of(o) - self

    def __mul__(self, o):
        o = GQ.of(o)
        return GQ(self.re * o.re - self.im * o.im, self.re * o.im + self.im * o.re)
    __rmul__ = __mul__

    def __truediv__(self, o):
        o = GQ.of(o)
        d = o.re * o.re + o.im * o.im
        return GQ((self.re * o.re + self.im * o.im) / d, (self.im * o.re - self.re * o.im) / d)

    def __rtruediv__(self, o):
        return GQ.of(o) / self

    def __eq__(self, o):
        o = GQ.of(o)
        return self.re == o.re and self.im == o.im

    def __hash__(self):
        return hash((self.re, self.im))

    def __complex__(self):
        return complex(float(self.re), float(self.im))

    def __repr__(self):
        return "GQ(%s,%s)" % (self.re, self.im)


def gq_poly(pairs):
    return [GQ(Fraction(a), Fraction(b)) for a, b in pairs]


def pair_toks(p):
    return [[tok(GQ.of(c).re), tok(GQ.of(c).im)] for c in p]


def is_tf(sysd):
    return sysd[0] in ("LT", "LC")


def ent_gq(sysd, idx):
    """(num, den) of entry idx of a transfer function as lists of GQ"""
    n, d = sysd[4][idx]
    if sysd[0] == "LC":
        return gq_poly(n), gq_poly(d)
    return [GQ(Fraction(x)) for x in n], [GQ(Fraction(x)) for x in d]


def py_poly(pairs, ctype):
    """the coefficient list handed to TransferFunction"""
    zs = [complex(float(Fraction(a)), float(Fraction(b))) for a, b in pairs]
    if ctype == "mixed" and all(z.imag == 0 for z in zs):
        return [z.real for z in zs]
    return zs


def build(sysd):
    if sysd[0] == "LC":
        _, p, m, dt, ents, ctype = sysd
        num = [[py_poly(ents[i * m + j][0], ctype) for j in range(m)] for i in range(p)]
        den = [[py_poly(ents[i * m + j][1], ctype) for j in range(m)] for i in range(p)]
        return ct.TransferFunction(num, den, dt_value(dt))
    if sysd[0] == "LT":
        _, p, m, dt, ents = sysd
        num = [[[float(Fraction(x)) for x in ents[i * m + j][0]] for j in range(m)] for i in range(p)]
        den = [[[float(Fraction(x)) for x in ents[i * m + j][1]] for j in range(m)] for i in range(p)]
        return ct.TransferFunction(num, den, dt_value(dt))
    _, ns, p, m, dt, A, B, C, D = sysd
    return ct.StateSpace(npmat(A, ns, ns), npmat(B, ns, m), npmat(C, p, ns), npmat(D, p, m), dt_value(dt))


LAYOUTS = ("C", "F", "T", "S", "R", "L", "I")


def lay_array(vals, r, c, how):
    """the matrix as the caller may legitimately hold it: "C" row-major array, "F" column-major
    (Fortran-ordered) array, "T" the transposed view of the row-major array of the transpose
    (`M.T`: column-major, does not own its data), "S" a strided (non-contiguous) view into a larger
    array, "R" a view with negative strides, "L" nested Python lists, "I" an integer array (when
    every entry is an integer)"""
    M = npmat(vals, r, c)
    if how == "F":
        return np.asfortranarray(M)
    if how == "T":
        return np.ascontiguousarray(M.T).T
    if how == "S":
        big = np.full((2 * r + 1, 2 * c + 1), 7.5)
        big[1::2, 1::2] = M
        return big[1::2, 1::2]
    if how == "R":
        return np.ascontiguousarray(M[::-1, ::-1])[::-1, ::-1]
    if how == "L" and r * c:
        return M.tolist()
    if how == "I" and all(Fraction(v).denominator == 1 for v in vals):
        return M.astype(np.int64)
    return M


def ss_arrays(sysd, layout):
    _, ns, p, m, dt, A, B, C, D = sysd
    layout = layout or {}
    return [lay_array(A, ns, ns, layout.get("A", "C")), lay_array(B, ns, m, layout.get("B", "C")),
            lay_array(C, p, ns, layout.get("C", "C")), lay_array(D, p, m, layout.get("D", "C"))]


def lay_sig(layout):
    layout = layout or {}
    return "".join(layout.get(k, "C") for k in "ABCD")


def sys_tokens(sysd):
    if sysd[0] == "LC":
        s = "LC %d %d %s" % (sysd[1], sysd[2], sysd[3])
        for (n, d) in sysd[4]:
            s += " %d %s %d %s" % (len(n), " ".join("%s %s" % (a, b) for a, b in n),
                                   len(d), " ".join("%s %s" % (a, b) for a, b in d))
        return s
    if sysd[0] == "LT":
        s = "LT %d %d %s" % (sysd[1], sysd[2], sysd[3])
        for (n, d) in sysd[4]:
            s += " %d %s %d %s" % (len(n), " ".join(n), len(d), " ".join(d))
        return s
    _, ns, p, m, dt, A, B, C, D = sysd
    return ("LS %d %d %d %s %s" % (ns, p, m, dt, " ".join(A + B + C + D))).rstrip()


def wtok(w):
    """the token of the float frequency the implementation receives"""
    return tok(fr(float(Fraction(w))))


def sys_shape(sysd):
    return (sysd[1], sysd[2]) if is_tf(sysd) else (sysd[2], sysd[3])


def sys_dt(sysd):
    return sysd[3] if is_tf(sysd) else sysd[4]


def nstates_bucket(sysd):
    if is_tf(sysd):
        return "-"
    return "0" if sysd[1] == 0 else ("1" if sysd[1] == 1 else "2+")


def expj_entries(dt, ws):
    """NumPy's exp(1j*omega*dt) exactly as LTI.frequency_response computes it (external routine:
    its values are handed to the model)."""
    if dt in ("C", "N"):
        return []
    h = True if dt == "T" else float(Fraction(dt[1:]))
    htok = "1" if dt == "T" else dt[1:]
    omega = np.sort(np.array([float(Fraction(w)) for w in ws], ndmin=1))
    z = np.exp(1j * omega * h)
    out, seen = [], set()
    for w, zz in zip(omega, z):
        wt = tok(fr(w))
        if wt in seen:
            continue
        seen.add(wt)
        out.append("%s %s %s %s" % (htok, wt, tok(fr(zz.real)), tok(fr(zz.imag))))
    return out


# ---- Gaussian rationals (pairs of Fractions) and the candidate state response ----------------
def cmul(a, b):
    return (a[0] * b[0] - a[1] * b[1], a[0] * b[1] + a[1] * b[0])


def csub(a, b):
    return (a[0] - b[0], a[1] - b[1])


def cdiv(a, b):
    d = b[0] * b[0] + b[1] * b[1]
    return ((a[0] * b[0] + a[1] * b[1]) / d, (a[1] * b[0] - a[0] * b[1]) / d)


CZ = (F0, F0)


def csolve(M, R):
    """X with M X = R over Q(i) (Gauss-Jordan), or None when M is singular"""
    n = len(M)
    A = [list(M[i]) + list(R[i]) for i in range(n)]
    for c in range(n):
        piv = next((r for r in range(c, n) if A[r][c] != CZ), None)
        if piv is None:
            return None
        A[c], A[piv] = A[piv], A[c]
        pv = A[c][c]
        A[c] = [cdiv(v, pv) for v in A[c]]
        for r in range(n):
            if r != c and A[r][c] != CZ:
                f = A[r][c]
                A[r] = [csub(v, cmul(f, w)) for v, w in zip(A[r], A[c])]
    return [row[n:] for row in A]


def _pow2(q):
    """q = +-2^e ?"""
    q = abs(q)
    if q == 0:
        return False
    n, d = q.numerator, q.denominator
    return (n & (n - 1)) == 0 and (d & (d - 1)) == 0 and (n == 1 or d == 1)


def _small_dyadic(q, bits=40):
    d = q.denominator
    return (d & (d - 1)) == 0 and abs(q.numerator).bit_length() <= bits and d.bit_length() <= bits


def lu_exact(M):
    """True when LAPACK's LU with partial pivoting of the complex matrix M (entries = pairs of
    Fractions) cannot round: the pivot order is emulated in exact arithmetic (pivot = first row
    of maximal |re| + |im|), every pivot that is actually divided by is +-2^e or +-2^e i, and every
    intermediate is a short dyadic Gaussian rational.  Then a singular M gives an exactly zero
    pivot and numpy.linalg.solve raises LinAlgError; otherwise whether a float LU notices an
    exact pole is a matter of rounding (outside the property: 'poles that are exact in floating
    point')."""
    n = len(M)
    A = [list(r) for r in M]
    if not all(_small_dyadic(v[0]) and _small_dyadic(v[1]) for r in A for v in r):
        return False
    for k in range(n):
        piv = max(range(k, n), key=lambda r: (abs(A[r][k][0]) + abs(A[r][k][1]), -r))
        A[k], A[piv] = A[piv], A[k]
        pv = A[k][k]
        below = [r for r in range(k + 1, n) if A[r][k] != CZ]
        if pv == CZ:
            continue            # exactly zero pivot: nothing below either (it was the maximum)
        if below:
            if not ((pv[1] == 0 and _pow2(pv[0])) or (pv[0] == 0 and _pow2(pv[1]))):
                return False
        for r in below:
            f = cdiv(A[r][k], pv)
            A[r] = [csub(v, cmul(f, w)) for v, w in zip(A[r], A[k])]
            A[r][k] = CZ
            if not all(_small_dyadic(v[0]) and _small_dyadic(v[1]) for v in A[r]):
                return False
    return True


def cand_tokens(sysd, points):
    """the `Y` section: for every evaluation point a candidate X with (xI - A) X = B (zeros at a
    pole); the model checks the equation before it uses X"""
    if sysd[0] != "LS" or sysd[1] < 2:
        return ""
    _, ns, p, m, dt, A, B, C, D = sysd
    Af, Bf = fmat(A, ns, ns), fmat(B, ns, m)
    out = ["Y"]
    for x in points:
        M = [[((x[0] if i == j else F0) - Af[i][j], (x[1] if i == j else F0)) for j in range(ns)]
             for i in range(ns)]
        X = csolve(M, [[(b, F0) for b in row] for row in Bf])
        if X is None:
            X = [[CZ] * m for _ in range(ns)]
        for row in X:
            for v in row:
                out.append("%s %s" % (tok(v[0]), tok(v[1])))
    return " " + " ".join(out)


def eval_points(case):
    """the exact points (pairs of Fractions) at which the case evaluates the system, in the order
    of the result"""
    sysd = case["sys"]
    op = case["op"]
    dt = sys_dt(sysd)
    if op == "call":
        return [(Fraction(a), Fraction(b)) for a, b in case["xs"]]
    if op == "dc":
        return [(F0, F0) if dt in ("C", "N") else (F1, F0)]
    om = np.sort(np.array([float(Fraction(w)) for w in case["ws"]], ndmin=1))
    if dt in ("C", "N"):
        return [(F0, fr(w)) for w in om]
    h = True if dt == "T" else float(Fraction(dt[1:]))
    z = np.exp(1j * om * h)
    return [(fr(zz.real), fr(zz.imag)) for zz in z]


# ---- exact polynomial helpers (Fractions, highest power first) -------------------------------
def pdivmod(a, b):
    a = exact.ptrim(a)
    b = exact.ptrim(b)
    if len(a) < len(b) or exact.pzero(a):
        return [F0], a
    q = []
    a = list(a)
    while len(a) >= len(b):
        c = a[0] / b[0]
        q.append(c)
        for i in range(len(b)):
            a[i] -= c * b[i]
        a.pop(0)
    return (q or [F0]), exact.ptrim(a or [F0])


def pxgcd(a, b):
    """(g, s, t) with g = s a + t b (g not normalised)"""
    r0, r1 = exact.ptrim(a), exact.ptrim(b)
    s0, s1, t0, t1 = [F1], [F0], [F0], [F1]
    while not exact.pzero(r1):
        q, r = pdivmod(r0, r1)
        r0, r1 = r1, r
        s0, s1 = s1, exact.ptrim(exact.padd(s0, exact.pscale(Fraction(-1), exact.pmul(q, s1))))
        t0, t1 = t1, exact.ptrim(exact.padd(t0, exact.pscale(Fraction(-1), exact.pmul(q, t1))))
    return r0, s0, t0


def plcm_cert(dens):
    """(L, cofactors, bezout) for the least common multiple of the polynomials `dens`"""
    L = exact.ptrim(dens[0])
    for d in dens[1:]:
        g, _, _ = pxgcd(L, d)
        q, r = pdivmod(exact.pmul(L, d), g)
        assert exact.pzero(r)
        L = q
    L = exact.pscale(1 / L[0], L)
    cof = []
    for d in dens:
        q, r = pdivmod(L, d)
        assert exact.pzero(r)
        cof.append(q)
    g = cof[0]
    bez = [[F1]]
    for c in cof[1:]:
        g2, s, t = pxgcd(g, c)
        bez = [exact.ptrim(exact.pmul(u, s)) for u in bez] + [t]
        g = g2
    assert len(exact.ptrim(g)) == 1 and g[-1] != 0
    c0 = exact.ptrim(g)[0]
    bez = [exact.pscale(1 / c0, u) for u in bez]
    return L, cof, bez


def charpoly_fl(A):
    """Faddeev-LeVerrier over Fractions (candidate; the model checks its certificate)"""
    n = len(A)
    c = [F1]
    M = exmat.eye(n)
    for k in range(1, n + 1):
        AM = exmat.mul(A, M)
        ck = -sum((AM[i][i] for i in range(n)), F0) / k
        c.append(ck)
        M = exmat.add(AM, exmat.scale(ck, exmat.eye(n)))
    return c


def interp_poly(xs, ys):
    """coefficients (highest first) of the polynomial of degree < len(xs) through the points"""
    n = len(xs)
    V = [[x ** (n - 1 - k) for k in range(n)] for x in xs]
    sol = exmat.solve(V, [[y] for y in ys])
    return exact.ptrim([r[0] for r in sol])


def rosen_det(A, B, C, D, lam):
    n, m = len(A), len(D)
    L = [[(A[i][j] - (lam if i == j else 0)) for j in range(n)] + list(B[i]) for i in range(n)]
    L += [list(C[i]) + list(D[i]) for i in range(m)]
    return exmat.det(L)


def poly_toks(p):
    return "%d %s" % (len(p), " ".join(tok(x) for x in p))


def cpoly_toks(p):
    """a polynomial over Q(i) (the candidates of a complex-coefficient system)"""
    return "%d %s" % (len(p), " ".join("%s %s" % (tok(GQ.of(x).re), tok(GQ.of(x).im)) for x in p))


def clist(p):
    """a coefficient array as a comparable record: floats, or [re, im] pairs when some
    coefficient is not real"""
    a = np.atleast_1d(np.asarray(p))
    if np.iscomplexobj(a):
        if np.any(a.imag != 0):
            return [[float(z.real), float(z.imag)] for z in a]
        a = a.real
    return [float(x) for x in a]


def clist_of(gqs):
    """the same record for an exact polynomial (list of GQ)"""
    if any(c.im != 0 for c in gqs):
        return [[float(c.re), float(c.im)] for c in gqs]
    return [float(c.re) for c in gqs]


# ---- classification of implementation values -----------------------------------------------
def cell_of(z):
    z = complex(z)
    if math.isinf(z.real) or math.isinf(z.imag):
        return ["I"]
    if math.isnan(z.real) or math.isnan(z.imag):
        return ["N"]
    return ["F", tok(fr(z.real)), tok(fr(z.imag))]


def classify_exc(e):
    if isinstance(e, NotImplementedError):
        return "notImplemented"
    if isinstance(e, np.linalg.LinAlgError):
        return "illPosed"
    if isinstance(e, (ValueError, TypeError)):
        return "badArg"
    return type(e).__name__


def norm_msg(msg):
    return re.sub(r"[0-9]+", "#", msg.strip())[:60]


class Recorder:
    """wrap the external root finders to record the arguments python-control hands to them"""

    def __init__(self):
        self.calls = []

    def __enter__(self):
        self.saved = (_statesp.eigvals, scipy.linalg.eigvals, _xferfcn.roots, _xferfcn.tf2zpk)
        s_eig, s_geig, s_roots, s_tf2zpk = self.saved

        def eig(a, *r, **k):
            self.calls.append(("eigvals", np.array(a, dtype=float).tolist()))
            return s_eig(a, *r, **k)

        def geig(a, b=None, *r, **k):
            self.calls.append(("geigvals", np.array(a, dtype=float).tolist(),
                               None if b is None else np.array(b, dtype=float).tolist()))
            return s_geig(a, b, *r, **k)

        def roots(p):
            self.calls.append(("roots", clist(p)))
            return s_roots(p)

        def tf2zpk(b, a):
            self.calls.append(("tf2zpk", clist(b), clist(a)))
            return s_tf2zpk(b, a)

        _statesp.eigvals = eig
        scipy.linalg.eigvals = geig
        _xferfcn.roots = roots
        _xferfcn.tf2zpk = tf2zpk
        return self

    def __exit__(self, *a):
        _statesp.eigvals, scipy.linalg.eigvals, _xferfcn.roots, _xferfcn.tf2zpk = self.saved
        return False


def cabs2(re_, im_):
    return re_ * re_ + im_ * im_


def tf_cond(num, den, x, xq=None):
    """bound on the absolute rounding error of polyval(num,x)/polyval(den,x), in units of eps, from
    the *exact* values |num(x)|, |den(x)| at the exact point xq (a pair of Fractions; the float
    evaluation of the denominator is not trusted: one ulp beside a double root it is off by a
    factor 2^53).  inf when the relative error of the computed denominator may exceed 1e-3 (the
    first-order error model below is meaningless there)."""
    ax = abs(x)
    numc = [complex(c) for c in num]
    denc = [complex(c) for c in den]
    sn = sum(abs(c) * ax ** (len(numc) - 1 - k) for k, c in enumerate(numc))
    sd = sum(abs(c) * ax ** (len(denc) - 1 - k) for k, c in enumerate(denc))
    if xq is not None:
        xg = GQ(xq[0], xq[1])
        accn, accd = GQ(0), GQ(0)
        for c in num:
            accn = accn * xg + c
        for c in den:
            accd = accd * xg + c
        nv = math.sqrt(float(accn.re * accn.re + accn.im * accn.im))
        dv = math.sqrt(float(accd.re * accd.re + accd.im * accd.im))
    else:
        dv = abs(np.polyval(denc, x))
        nv = abs(np.polyval(numc, x))
    k = len(numc) + len(denc) + 2
    if dv == 0 or k * 2.3e-16 * sd * 1e3 >= dv:
        return float("inf")
    return k * (sn / dv + nv * sd / (dv * dv))


class C04(Family):
    prop = "C04"
    # source-text tie (notes/NOTES-py2lean-eval.md): Generated/Eval*.lean are rewritten from the text of
    # TransferFunction.horner / __call__, StateSpace.horner / _has_zero_at / __call__, LTI._dcgain /
    # frequency_response (+ the dcgain / freqresp wrappers) of the tree under check on every run and proved
    # equal to the model (one small file per function group, so that an edit rebuilds little)
    extra_modules = ["CtrlVerif.Props.C04GenTF", "CtrlVerif.Props.C04GenZero", "CtrlVerif.Props.C04GenSS",
                     "CtrlVerif.Props.C04GenDc", "CtrlVerif.Props.C04GenFreq", "CtrlVerif.Props.C04Gen"]

    def pre_build(self):
        import os
        from core import py2lean_eval, leanproj
        problems, self.gen_info = py2lean_eval.regenerate(os.environ.get("VERIF_REPO") or "/repo", leanproj.LEAN)
        return problems
    externals = [
        "numpy.linalg.solve (exact counterpart det != 0 / det^-1 * adjugate in the model; LinAlgError <-> det = 0 "
        "on data whose LU factorisation is exact)",
        "numpy.exp(1j*omega*dt) for discrete-time frequency responses (its values are supplied to the model)",
        "numpy.sort", "numpy.polyval (exact counterpart in the model)",
        "numpy.roots / numpy.linalg.eigvals / scipy.linalg.eigvals(L, M) / scipy.signal.tf2zpk: only the arguments "
        "handed to them are claimed; returned roots are compared through the rebuilt coefficients (1e-7)"]
    assumptions = [
        "values are compared to a relative tolerance of 1e-9 (1e-8 for >= 3 states, 1e-5 when the conditioning "
        "guard |det(xI-A)| >= 1/8 / the Horner error bound is not met, and then only where the backward-error bound "
        "||C|| ||M^-1||^2 gamma ||M|| ||B|| of the LU leaves a 10^3 margin); 0 and 1 states always 1e-9 (a handful of "
        "correctly rounded operations, however close to the pole); classes finite/inf/nan are compared exactly",
        "close to a pole a non-finite answer where the model is finite is judged only when rounding cannot produce an "
        "exactly zero denominator value (Horner running-error bound) or LU pivot (|det| > 10^3 gamma ||M||^n): always "
        "for 0 and 1 states (x - a is exact or correctly rounded and non-zero)",
        "histories: the model is a function of the system alone (theorem hist_answers), every step is compared with the "
        "stand-alone model answer; a change of the object's own matrices or of the caller's arrays without a wrong "
        "answer is reported as a broken correspondence, not as a failing input",
        "exact poles are generated only on data for which the floating-point computation is exact (Gaussian-integer "
        "points, integer coefficients, LU factorisations with power-of-two pivots)",
        "a singular zero pencil (det(L - sM) identically 0) leaves the inf/nan decision of the singular branch to "
        "the external QZ routine: either class is accepted there",
        "the type (real / complex array) of the dcgain result is compared with the model of the `_dcgain` "
        "post-processing; a difference in the type alone (all values equal) is reported as a broken correspondence, "
        "not as a failing input",
        "squeeze conventions of the returned arrays belong to C18 (squeeze=False is used); the timebase and the "
        "labels of the FrequencyResponseData object belong to C03/C05"]
    rule = ("random TransferFunction (shapes {1,2,3}^2, denominators built from small integer roots incl. 0, 1 and "
            "imaginary pairs, leading coefficients, cancelling numerators), TransferFunction with complex "
            "(Gaussian-rational) coefficients (real / imaginary / general numerators over real denominators or "
            "denominators with Gaussian-integer roots and non-real leading coefficients; handed over as mixed "
            "float/complex or all-complex lists; MIMO-biased for dcgain so that gain matrices mix real, infinite "
            "(inf+nan j and nan+inf j), NaN and non-real entries) and StateSpace systems (0-4 states, "
            "integer matrices, forced singular xI-A, zero rows/columns in B/C) in every timebase "
            "(None, 0, True, 0.1, 1/2, 1, 2); operations call (scalar/array, via __call__/evalfr/horner, points "
            "in Q(i) incl. exact poles), frequency_response (unsorted, repeated, zero, above-Nyquist frequencies, "
            "method and function), dcgain, poles, zeros; near-pole stream (1/8 of the cases): first-order "
            "state-space systems with dyadic poles between 2^-10 and 2^20 in magnitude, their transfer-function "
            "twins, general state-space / transfer-function systems with a known pole, evaluated at binary64 points "
            "at distance 2^-k max(1,|pole|) (k = 1..60; 1..26 for >= 2 states), one ulp beside the pole and at it; "
            "frequency grids passing a pole on the stability boundary at distance 2^-3..2^-45 (integrator, "
            "accumulator, resonance, pi/dt for z = -1); history stream (1/8): 1-5 queries on one object, usually an "
            "inspection (poles/zeros/dcgain/frequency response) first, on state-space systems (mostly >= 2 states) "
            "whose A, B, C, D are handed over row-major / column-major / as transposed, strided or reversed views / "
            "lists / integer arrays, and on transfer functions; a case is non-trivial when the system is dynamic or "
            "the point is not real (histories: dynamic and >= 2 steps); distinct = distinct canonical serialisation")

    side = {}

    # ---- generation ---------------------------------------------------------------------
    DTS = ["C", "C", "C", "N", "T", "D1/10", "D1/10", "D1/2", "D1", "D2"]
    ROOTS = [-3, -2, -1, -1, 0, 0, 1, 1, 2, -2, 3]
    RE = ["-2", "-1", "-1/2", "0", "0", "1/2", "1", "1", "2", "3", "1/4", "-3"]
    IM = ["0", "0", "0", "1", "-1", "2", "1/2", "-1/2", "3", "-2"]
    WS = ["0", "0", "1/4", "1/2", "1", "1", "3/2", "2", "3", "5", "10", "40", "1/10"]

    def rdt(self, rng):
        return rng.choice(self.DTS)

    def rpoly_roots(self, rng, nroots, simple=False, maxmult=2):
        """(coeffs, roots-with-kind) of a product of linear factors / imaginary pairs"""
        coefs = [F1]
        roots = []
        pool = list(self.ROOTS)
        while len(coefs) - 1 < nroots:
            if nroots - (len(coefs) - 1) >= 2 and rng.random() < 0.18:
                k = rng.choice([1, 1, 2])
                fac, key = [F1, F0, Fraction(k * k)], ("im", k)
            else:
                r = rng.choice(pool)
                fac, key = [F1, Fraction(-r)], ("re", r)
            mult = roots.count(key)
            if (simple and mult >= 1) or mult >= maxmult:
                continue
            roots.append(key)
            coefs = exact.pmul(coefs, fac)
        return coefs, roots

    def tf_entry(self, rng, simple=False):
        dn = rng.choice([0, 1, 1, 2, 2, 3])
        den, roots = self.rpoly_roots(rng, dn, simple=simple)
        lead = Fraction(rng.choice([1, 1, 1, 2, -1, 3, Fraction(1, 2)]))
        den = exact.pscale(lead, den)
        r = rng.random()
        if r < 0.25 and roots:
            # numerator sharing a root with the denominator
            key = rng.choice(roots)
            fac = [F1, F0, Fraction(key[1] ** 2)] if key[0] == "im" else [F1, Fraction(-key[1])]
            rest = [Fraction(rng.randint(-3, 3)) for _ in range(rng.choice([1, 1, 2]))]
            if all(c == 0 for c in rest):
                rest = [F1]
            num = exact.ptrim(exact.pmul(fac, exact.ptrim(rest)))
        else:
            nn = rng.randint(0, dn + (1 if rng.random() < 0.15 else 0))
            num = [Fraction(rng.randint(-4, 4)) for _ in range(nn + 1)]
            if rng.random() < 0.2:
                num = [c / 2 for c in num]
            num = exact.ptrim(num)
        if exact.pzero(num):
            if rng.random() < 0.5:
                num, den, roots = [F0], [F1], []      # the constructor's normal form of 0
            else:
                num = [F1]
        pts = []
        for key in roots:
            pts.append(["0", str(key[1])] if key[0] == "im" else [str(key[1]), "0"])
            if key[0] == "im" and rng.random() < 0.5:
                pts[-1] = ["0", str(-key[1])]
        return [[tok(c) for c in num], [tok(c) for c in den]], pts

    def tf_sys(self, rng, shape=None, simple=False):
        p, m = shape or rng.choice([(1, 1), (1, 1), (1, 1), (1, 2), (2, 1), (2, 2), (2, 3), (3, 2), (3, 3)])
        ents, poles = [], []
        for _ in range(p * m):
            e, pts = self.tf_entry(rng, simple=simple or p * m > 1)
            ents.append(e)
            poles += pts
        return ["LT", p, m, self.rdt(rng), ents], poles

    # ---- transfer functions with complex coefficients (only TransferFunction can hold them) ----
    CROOTS = [(0, 0), (0, 0), (1, 0), (1, 0), (-1, 0), (-2, 0), (2, 0), (0, 1), (0, -1), (1, 1), (-1, 1),
              (1, -1), (0, 2), (-1, -1)]
    CLEAD = [(1, 0), (1, 0), (1, 0), (2, 0), (-1, 0), (0, 1), (0, -1), (1, 1), (Fraction(1, 2), 0)]

    def cpoly_roots(self, rng, nroots):
        """(coeffs, roots) of a product of distinct linear factors s - r, r a Gaussian integer"""
        coefs, roots = [GQ(1)], []
        while len(roots) < nroots:
            r = rng.choice(self.CROOTS)
            if r in roots:
                continue
            roots.append(r)
            coefs = exact.pmul(coefs, [GQ(1), GQ(-r[0], -r[1])])
        return coefs, roots

    def rgq(self, rng, kind):
        a, b = rng.randint(-3, 3), rng.randint(-3, 3)
        if kind == "real":
            return GQ(a, 0)
        if kind == "imag":
            return GQ(0, b)
        return GQ(a, b)

    def lc_entry(self, rng, cden):
        """one entry with Gaussian-rational coefficients.  `cden`: probability of a denominator
        with non-real roots / a non-real leading coefficient (otherwise the denominator is a real
        polynomial and only the numerator is complex).  Returns ([num, den] as pair tokens,
        exact pole points)."""
        dn = rng.choice([0, 1, 1, 2, 2, 3])
        if rng.random() < cden:
            den, roots = self.cpoly_roots(rng, dn)
            lead = GQ(*rng.choice(self.CLEAD))
        else:
            rden, keys = self.rpoly_roots(rng, dn, simple=True)
            den, roots = [GQ(c) for c in rden], []
            for key in keys:
                roots += [(0, key[1]), (0, -key[1])] if key[0] == "im" else [(key[1], 0)]
            lead = GQ(rng.choice([1, 1, 1, 2, -1, 3, Fraction(1, 2)]))
        den = exact.pscale(lead, den)
        r = rng.random()
        kind = rng.choice(["real", "real", "imag", "imag", "gen", "gen"])
        if r < 0.25 and roots:
            # numerator sharing a root with the denominator (0/0 at that point)
            z = rng.choice(roots)
            rest = [self.rgq(rng, kind) for _ in range(rng.choice([1, 1, 2]))]
            if all(c == 0 for c in rest):
                rest = [GQ(0, 1)]
            num = exact.ptrim(exact.pmul([GQ(1), GQ(-z[0], -z[1])], exact.ptrim(rest)))
        else:
            nn = rng.randint(0, dn + (1 if rng.random() < 0.15 else 0))
            num = [self.rgq(rng, kind) for _ in range(nn + 1)]
            if rng.random() < 0.2:
                num = [c / 2 for c in num]
            num = exact.ptrim(num)
        if exact.pzero(num):
            if rng.random() < 0.3:
                num, den, roots = [GQ(0)], [GQ(1)], []      # the constructor's normal form of 0
            else:
                num = [GQ(0, 1) if kind != "real" else GQ(1)]
        return [pair_toks(num), pair_toks(den)], [[str(a), str(b)] for a, b in roots]

    def lc_sys(self, rng, shape=None, mimo=False):
        shapes = [(1, 2), (2, 1), (2, 2), (2, 2), (2, 3), (3, 2), (3, 3)]
        p, m = shape or rng.choice(shapes if mimo else shapes + [(1, 1), (1, 1), (1, 2), (2, 1)])
        cden = rng.choice([0.0, 0.0, 0.5, 1.0])
        ents, poles = [], []
        for _ in range(p * m):
            e, pts = self.lc_entry(rng, cden)
            ents.append(e)
            poles += pts
        return ["LC", p, m, self.rdt(rng), ents, rng.choice(["mixed", "mixed", "complex"])], poles

    def sing_matrix(self, rng, n):
        """integer matrix M (= x0 I - A) with det M = 0 on which LU with partial pivoting is exact"""
        for _ in range(400):
            if n == 1:
                return [[0]]
            if n == 2:
                M = [[rng.randint(-2, 2) for _ in range(2)] for _ in range(2)]
            elif n == 3:
                M = [[rng.randint(-1, 1) for _ in range(3)] for _ in range(3)]
            else:
                # block upper triangular, 2x2 blocks, one of them singular
                M = [[0] * 4 for _ in range(4)]
                for i in range(4):
                    for j in range(4):
                        if j >= 2 or i < 2:
                            M[i][j] = rng.randint(-2, 2)
            if exmat.det([[Fraction(x) for x in row] for row in M]) == 0:
                return M
        return [[0] * n for _ in range(n)]

    def ss_sys(self, rng, tier, shape=None, want_pole=None):
        ns = rng.choice([0, 1, 1, 2, 2, 2, 3, 3] + ([4] if tier == "thorough" else []))
        p, m = shape or rng.choice([(1, 1), (1, 1), (1, 1), (2, 2), (2, 2), (1, 2), (2, 1), (2, 3), (3, 2), (3, 3)])
        dt = self.rdt(rng)
        poles = []
        if want_pole is None:
            want_pole = rng.random() < 0.45
        if ns and want_pole:
            r = rng.random()
            if ns == 2 and r < 0.15:
                k = rng.choice([1, 2])
                A = [[0, -k * k], [1, 0]] if rng.random() < 0.5 else [[0, 1], [-k * k, 0]]
                if k == 1 and rng.random() < 0.5:
                    A = [[0, 1], [-1, 0]]
                poles = [["0", str(k)], ["0", str(-k)]]
            else:
                x0 = rng.choice([0, 0, 1, 1, -1, 2]) if dt in ("C", "N") else rng.choice([1, 1, 1, 0, -1])
                M = self.sing_matrix(rng, ns)
                A = [[(x0 if i == j else 0) - M[i][j] for j in range(ns)] for i in range(ns)]
                poles = [[str(x0), "0"]]
        else:
            lim = 2 if ns <= 2 else 1
            A = [[rng.randint(-lim, lim) for _ in range(ns)] for _ in range(ns)]
            if ns == 4:
                for i in range(2, 4):
                    for j in range(2):
                        A[i][j] = 0

        def rmat(r, c):
            M = [[rng.randint(-2, 2) for _ in range(c)] for _ in range(r)]
            return M
        B, C, D = rmat(ns, m), rmat(p, ns), rmat(p, m)
        if ns and rng.random() < 0.3:
            # an uncontrollable / unobservable direction: zero row of B or zero column of C
            k = rng.randrange(ns)
            if rng.random() < 0.5:
                B[k] = [0] * m
            else:
                for row in C:
                    row[k] = 0
        if rng.random() < 0.15:
            D = [[0] * m for _ in range(p)]
        flat = lambda M: [str(x) for row in M for x in row]
        return ["LS", ns, p, m, dt, flat(A), flat(B), flat(C), flat(D)], poles

    def rsys(self, rng, tier, **kw):
        r = rng.random()
        if r < 0.2:
            return self.lc_sys(rng, **{k: v for k, v in kw.items() if k in ("shape",)})
        if r < 0.53:
            return self.tf_sys(rng, **{k: v for k, v in kw.items() if k in ("shape", "simple")})
        return self.ss_sys(rng, tier, **{k: v for k, v in kw.items() if k in ("shape", "want_pole")})

    def rpoint(self, rng, poles):
        if poles and rng.random() < 0.3:
            return list(rng.choice(poles))
        return [rng.choice(self.RE), rng.choice(self.IM)]

    def gen_call(self, rng, tier):
        sysd, poles = self.rsys(rng, tier)
        k = rng.choice([1, 1, 1, 2, 3, 4])
        xs = [self.rpoint(rng, poles) for _ in range(k)]
        scalar = k == 1 and rng.random() < 0.6
        allreal = all(x[1] == "0" for x in xs)
        allint = allreal and all(Fraction(x[0]).denominator == 1 for x in xs)
        xkind = rng.choice(["complex", "complex", "list", "real" if allreal else "complex",
                            "int" if allint else "complex"])
        return {"sys": sysd, "op": "call", "xs": xs, "scalar": scalar,
                "via": rng.choice(["call", "call", "evalfr", "horner"]), "xkind": xkind}

    def gen_freq(self, rng, tier):
        sysd, poles = self.rsys(rng, tier)
        k = rng.choice([1, 2, 3, 3, 4, 5, 6])
        ws = [rng.choice(self.WS) for _ in range(k)]
        # imaginary-axis poles of a continuous system are reachable through omega
        if sys_dt(sysd) in ("C", "N"):
            for pt in poles:
                if pt[0] == "0" and not pt[1].startswith("-") and rng.random() < 0.5:
                    ws[rng.randrange(k)] = pt[1]
        # control.frequency_response reads a 2-element list as frequency *limits* (documented)
        return {"sys": sysd, "op": "freq", "ws": ws, "scalar": k == 1 and rng.random() < 0.5,
                "via": rng.choice(["method", "method", "func"]) if k != 2 else "method"}

    def gen_dc_complex(self, rng, tier):
        # the real-part post-processing of `_dcgain` only matters for gain matrices that mix real /
        # infinite entries with non-real ones: MIMO, complex coefficients
        sysd, _ = self.lc_sys(rng, mimo=True)
        return {"sys": sysd, "op": "dc", "via": rng.choice(["method", "func"])}

    def gen_dc(self, rng, tier):
        sysd, _ = self.rsys(rng, tier)
        return {"sys": sysd, "op": "dc", "via": rng.choice(["method", "func"])}

    def gen_pz(self, rng, tier, op):
        r = rng.random()
        if r < 0.2:
            sysd, _ = self.lc_sys(rng, shape=rng.choice([(1, 1), (1, 1), (1, 1), (1, 2), (2, 1), (2, 2)]))
        elif r < 0.55:
            sysd, _ = self.tf_sys(rng, simple=True)
        else:
            sysd, _ = self.ss_sys(rng, tier)
        return {"sys": sysd, "op": op, "via": rng.choice(["method", "func"])}

    # ---- points close to, but not at, a pole ---------------------------------------------
    # poles of the first-order systems of this stream: small, fast (|a| up to 2^20), slow (2^-10),
    # dyadic so that every coefficient of the transfer-function twin is exact in binary64
    APOLES = ["0", "0", "1", "1", "1", "-1", "-1", "2", "-1/2", "1/4", "-3", "-1000", "-1000", "1000", "-250",
              "65536", "-1048576", "3/1024", "-5/4", "100", "-1/1024"]
    DIRS = [(1, 0), (-1, 0), (0, 1), (0, -1), (1, 1), (-1, 1), (1, -1), (-1, -1), (1, 0), (0, 1)]

    @staticmethod
    def ftok(x):
        return tok(fr(float(x)))

    def near_point(self, rng, pole, kmax):
        """a binary64 point at distance ~ 2^-k * max(1, |pole|) from `pole` = (re, im) (Fractions),
        k in 1..kmax, or one of the neighbouring floats (one ulp away) of a non-zero real pole;
        returns ([re token, im token], k)"""
        pr, pi_ = float(pole[0]), float(pole[1])
        mag = max(1.0, abs(complex(pr, pi_)))
        s = 2.0 ** math.floor(math.log2(mag))
        if pi_ == 0 and pr != 0 and rng.random() < 0.12:
            xr = float(np.nextafter(pr, rng.choice([-np.inf, np.inf])))
            return [self.ftok(xr), "0"], 52
        k = rng.randint(1, kmax) if rng.random() < 0.8 else rng.choice([10, 17, 20, 24, 27, 30, 34, 40])
        k = min(k, kmax)
        d = s * 2.0 ** (-k) * rng.choice([1, 1, 1, 3, 5])
        u = rng.choice(self.DIRS)
        return [self.ftok(pr + d * u[0]), self.ftok(pi_ + d * u[1])], k

    def ss1_sys(self, rng, dt=None):
        """a first-order (1 state) state-space system with a dyadic pole, and its pole"""
        p, m = rng.choice([(1, 1), (1, 1), (1, 1), (1, 1), (1, 2), (2, 1), (2, 2), (2, 3), (3, 2)])
        dt = dt or self.rdt(rng)
        a = rng.choice(self.APOLES if dt in ("C", "N") else ["1", "1", "1", "1", "-1", "-1", "0", "1/2", "-1/2"]
                       + self.APOLES)
        rv = lambda: str(rng.choice([-2, -1, 1, 1, 2, 3, 0])) if rng.random() < 0.8 else \
            rng.choice(["1/2", "1/1024", "-3/4", "1000"])
        B = [rv() for _ in range(m)]
        C = [rv() for _ in range(p)]
        D = [str(rng.randint(-2, 2)) for _ in range(p * m)]
        if rng.random() < 0.2:
            D = ["0"] * (p * m)
        return ["LS", 1, p, m, dt, [a], B, C, D], [[a, "0"]]

    def tf1_twin(self, rng, sysd):
        """the transfer-function form of a first-order state-space system:
        entry (i, j) = (d_ij s + c_i b_j - d_ij a) / (s - a)"""
        _, ns, p, m, dt, A, B, C, D = sysd
        a = Fraction(A[0])
        ents = []
        for i in range(p):
            for j in range(m):
                d = Fraction(D[i * m + j])
                num = exact.ptrim([d, Fraction(C[i]) * Fraction(B[j]) - d * a])
                den = [F1, -a]
                if exact.pzero(num):
                    num, den = [F0], [F1]
                if any(fr(float(c)) != c for c in num + den):
                    return None
                ents.append([[tok(c) for c in num], [tok(c) for c in den]])
        return ["LT", p, m, dt, ents]

    def near_sys(self, rng, tier):
        """(system, poles as token pairs, kmax): mostly first-order state-space systems (the fast
        path), their transfer-function twins, and general systems with a known pole"""
        r = rng.random()
        if r < 0.45:
            sysd, poles = self.ss1_sys(rng)
            return sysd, poles, 60
        if r < 0.57:
            sysd, poles = self.ss1_sys(rng)
            tw = self.tf1_twin(rng, sysd)
            return (tw, poles, 60) if tw is not None else (sysd, poles, 60)
        if r < 0.82:
            for _ in range(40):
                sysd, poles = self.ss_sys(rng, tier, want_pole=True)
                if poles and sysd[1] >= 2:
                    return sysd, poles, 26
        for _ in range(20):
            sysd, poles = self.tf_sys(rng) if rng.random() < 0.7 else self.lc_sys(rng)
            if poles:
                return sysd, poles, 40
        sysd, poles = self.ss1_sys(rng)
        return sysd, poles, 60

    def gen_near_call(self, rng, tier):
        sysd, poles, kmax = self.near_sys(rng, tier)
        k = rng.choice([1, 1, 2, 3, 4])
        xs = []
        for _ in range(k):
            pl = rng.choice(poles)
            r = rng.random()
            if r < 0.8:
                xs.append(self.near_point(rng, (Fraction(pl[0]), Fraction(pl[1])), kmax)[0])
            elif r < 0.9:
                xs.append(list(pl))                      # exactly at the pole
            else:
                xs.append([rng.choice(self.RE), rng.choice(self.IM)])
        scalar = k == 1 and rng.random() < 0.5
        allreal = all(x[1] == "0" for x in xs)
        return {"sys": sysd, "op": "call", "xs": xs, "scalar": scalar, "near": 1,
                "via": rng.choice(["call", "call", "evalfr", "horner"]),
                "xkind": rng.choice(["complex", "complex", "list", "real" if allreal else "complex"])}

    def gen_near_freq(self, rng, tier):
        """frequency responses whose grid comes close to a pole on the stability boundary: very
        low frequencies for an integrator (s = 0) / accumulator (z = 1), frequencies next to a
        resonance +-jk, the Nyquist frequency pi/dt for a pole at z = -1"""
        for _ in range(50):
            r = rng.random()
            if r < 0.6:
                dt = self.rdt(rng)
                sysd, poles = self.ss1_sys(rng, dt=dt)
                sysd[5] = ["0"] if dt in ("C", "N") else [rng.choice(["1", "1", "1", "-1"])]
                poles = [[sysd[5][0], "0"]]
                if rng.random() < 0.25:
                    sysd = self.tf1_twin(rng, sysd) or sysd
            elif r < 0.8:
                sysd, poles = self.ss_sys(rng, tier, want_pole=True)
            else:
                sysd, poles = self.tf_sys(rng)
            dt = sys_dt(sysd)
            cont = dt in ("C", "N")
            h = 1.0 if cont or dt == "T" else float(Fraction(dt[1:]))
            # frequencies at which the evaluation point passes the pole
            hits = []
            for pl in poles:
                re_, im_ = Fraction(pl[0]), Fraction(pl[1])
                if cont and re_ == 0 and im_ >= 0:
                    hits.append(float(im_))
                if not cont and im_ == 0 and re_ == 1:
                    hits.append(0.0)
                if not cont and im_ == 0 and re_ == -1:
                    hits.append(math.pi / h)
                if not cont and re_ == 0 and abs(im_) == 1:
                    hits.append(math.pi / 2 / h)
            if not hits:
                continue
            k = rng.choice([1, 2, 3, 4, 5])
            ws = []
            for _ in range(k):
                w0 = rng.choice(hits)
                r = rng.random()
                if r < 0.75:
                    e = rng.randint(3, 45) if rng.random() < 0.7 else rng.choice([17, 20, 24, 27, 30, 34])
                    d = 2.0 ** (-e) * rng.choice([1, 1, 3, 5]) / h
                    w = w0 + d if (w0 == 0 or rng.random() < 0.6) else w0 - d
                    ws.append(self.ftok(abs(w)))
                elif r < 0.85:
                    ws.append(self.ftok(w0))
                else:
                    ws.append(rng.choice(self.WS))
            return {"sys": sysd, "op": "freq", "ws": ws, "scalar": k == 1 and rng.random() < 0.5, "near": 1,
                    "warr": rng.random() < 0.3,
                    "via": rng.choice(["method", "method", "func"]) if k != 2 else "method"}
        return self.gen_near_call(rng, tier)

    # ---- histories ---------------------------------------------------------------------
    def rlayout(self, rng):
        """how the caller holds A, B, C, D (see `lay_array`)"""
        r = rng.random()
        if r < 0.15:
            return {}
        if r < 0.4:
            how = rng.choice(["F", "T"])
            return {k: how for k in "ABCD"}            # e.g. everything out of a Fortran routine / a dual
        lay = {}
        for k in "ABCD":
            h = rng.choice(["C", "C", "F", "F", "T", "T", "S", "R", "L", "I"])
            if h != "C":
                lay[k] = h
        return lay

    def rstep(self, rng, sysd, poles, kind=None):
        op = kind or rng.choice(["call", "call", "call", "freq", "freq", "dc", "poles", "poles", "zeros"])
        if op == "poles" and sysd[0] == "LC":
            op = "dc"            # (known finding C04-tf-poles-complex-den would mask the history)
        if op == "call":
            k = rng.choice([1, 1, 2, 3])
            xs = [self.rpoint(rng, poles) for _ in range(k)]
            return {"op": "call", "xs": xs, "scalar": k == 1 and rng.random() < 0.5,
                    "via": rng.choice(["call", "call", "evalfr", "horner"]),
                    "xkind": rng.choice(["complex", "complex", "list"])}
        if op == "freq":
            k = rng.choice([1, 3, 3, 4])
            ws = [rng.choice(self.WS) for _ in range(k)]
            return {"op": "freq", "ws": ws, "scalar": k == 1 and rng.random() < 0.5,
                    "warr": rng.random() < 0.4, "via": rng.choice(["method", "method", "func"])}
        return {"op": op, "via": rng.choice(["method", "func"])}

    def gen_hist(self, rng, tier):
        """2-5 queries on ONE object: an inspection (poles / zeros / dcgain / a frequency response)
        followed by evaluations, on state-space systems whose matrices the caller holds in
        assorted memory layouts, and on transfer functions"""
        r = rng.random()
        if r < 0.8:
            for _ in range(30):
                sysd, poles = self.ss_sys(rng, tier)
                if sysd[1] >= 2 or rng.random() < 0.15:
                    break
            lay = self.rlayout(rng)
        else:
            sysd, poles = self.tf_sys(rng) if rng.random() < 0.7 else self.lc_sys(rng)
            lay = {}
        n = rng.choice([1, 2, 2, 3, 3, 4, 5])
        steps = []
        if n >= 2 and rng.random() < 0.75:
            steps.append(self.rstep(rng, sysd, poles, kind=rng.choice(["poles", "poles", "zeros", "dc", "freq"])))
        while len(steps) < n:
            steps.append(self.rstep(rng, sysd, poles))
        if n >= 2 and steps[-1]["op"] in ("poles", "zeros") and rng.random() < 0.7:
            steps[-1] = self.rstep(rng, sysd, poles, kind=rng.choice(["call", "call", "dc", "freq"]))
        case = {"sys": sysd, "op": "hist", "steps": steps}
        if sysd[0] == "LS":
            case["layout"] = lay
        return case

    def hist_around(self, rng, case):
        """histories around a single query that broke the correspondence without a wrong value
        (e.g. a different call into a root finder): the query, then probes of the same object, in
        several memory layouts of the same matrices"""
        sysd = case["sys"]
        first = {k: v for k, v in case.items() if k not in ("sys", "layout", "steps")}
        if case["op"] == "hist":
            firsts = [st for st in case["steps"]][:2]
        else:
            firsts = [first]
        out = []
        lays = [{k: "F" for k in "ABCD"}, {k: "T" for k in "ABCD"}, {"A": "F"}, {}] if sysd[0] == "LS" else [{}]
        for lay in lays:
            for _ in range(6):
                probes = [self.rstep(rng, sysd, [], kind=rng.choice(["call", "call", "dc", "freq", "zeros", "poles"]))
                          for _ in range(rng.choice([1, 2, 3]))]
                c = {"sys": sysd, "op": "hist", "steps": list(firsts) + probes}
                if sysd[0] == "LS":
                    c["layout"] = lay
                out.append(c)
        return out

    def search(self, rng, case, tier):
        out = self.hist_around(rng, case)
        sysd = case["sys"]
        if sysd[0] == "LS":
            # the same inspection on other systems of the same size, in the layouts above
            for _ in range(40):
                s2, _ = self.ss_sys(rng, tier, shape=(sysd[2], sysd[3]))
                out += self.hist_around(rng, dict(case, sys=s2))[::6]
        return out

    def generate(self, rng, tier):
        n = 800 if tier == "quick" else 12000
        out = []
        for i in range(n):
            r = i % 10
            if r < 4:
                out.append(self.gen_call(rng, tier))
            elif r < 7:
                out.append(self.gen_freq(rng, tier))
            elif r < 8:
                out.append(self.gen_dc(rng, tier))
            elif r < 9:
                out.append(self.gen_pz(rng, tier, "poles"))
            else:
                out.append(self.gen_pz(rng, tier, "zeros"))
        for i in range(n // 20):
            out.append(self.gen_dc_complex(rng, tier))
        for i in range(n // 8):
            out.append(self.gen_near_call(rng, tier) if i % 3 else self.gen_near_freq(rng, tier))
        for i in range(n // 8):
            out.append(self.gen_hist(rng, tier))
        return out

    def corpus(self):
        ss = lambda ns, p, m, dt, A, B, C, D: ["LS", ns, p, m, dt, A.split(), B.split(), C.split(), D.split()]
        tf1 = lambda num, den, dt="C": ["LT", 1, 1, dt, [[num.split(), den.split()]]]
        call = lambda s, xs: {"sys": s, "op": "call", "xs": xs, "scalar": len(xs) == 1, "via": "call",
                              "xkind": "complex"}
        return [
            # the 1-state fast path at a cancelled pole (DESIGN 6.2) and its 2-state analogue
            call(ss(1, 1, 1, "C", "0", "1", "0", "2"), [["0", "0"]]),
            call(ss(2, 1, 1, "C", "0 0 0 -1", "1 1", "0 1", "2"), [["0", "0"]]),
            {"sys": ss(1, 1, 1, "C", "0", "1", "0", "2"), "op": "dc", "via": "method"},
            # a cancelling zero that QZ returns with a rounding error (exact membership test misses it)
            {"sys": ss(2, 1, 1, "C", "0 -1 2 -3", "1 2", "1 1", "0"), "op": "call", "xs": [["-1", "0"]],
             "scalar": False, "via": "call", "xkind": "complex"},
            # a non-square system at a pole of the general path
            call(ss(2, 1, 2, "C", "0 1 0 0", "0 1 1 0", "0 1", "0 0"), [["0", "0"]]),
            {"sys": ss(2, 1, 2, "C", "0 1 0 0", "0 1 1 0", "0 1", "0 0"), "op": "dc", "via": "method"},
            # integrator / accumulator / cancelled pole through every route
            call(tf1("1", "1 0"), [["0", "0"]]),
            call(tf1("1 0", "1 0 0"), [["0", "0"]]),
            {"sys": tf1("1", "1 -1", "D1/10"), "op": "dc", "via": "method"},
            {"sys": tf1("1", "1 -1", "T"), "op": "freq", "ws": ["1", "0", "40"], "scalar": False, "via": "method"},
            {"sys": tf1("1", "1 0 1"), "op": "freq", "ws": ["2", "1", "0", "1"], "scalar": False, "via": "func"},
            {"sys": ss(2, 1, 1, "D1/2", "1/2 0 1 1/4", "1 0", "0 1", "0"), "op": "freq",
             "ws": ["3", "1/2", "10", "1/2"], "scalar": False, "via": "method"},
            call(ss(2, 1, 1, "C", "0 1 -1 0", "0 1", "1 0", "0"), [["0", "1"], ["0", "-1"], ["1", "1"]]),
        ] + self.corpus_complex() + self.corpus_near_hist()

    def corpus_near_hist(self):
        """points close to (not at) the pole of a first-order system, and evaluations after an
        inspection of one object whose state matrix is column-major"""
        ss = lambda ns, p, m, dt, A, B, C, D: ["LS", ns, p, m, dt, A.split(), B.split(), C.split(), D.split()]
        f = self.ftok
        call = lambda s, xs, **kw: dict({"sys": s, "op": "call", "xs": xs, "scalar": False, "via": "call",
                                         "xkind": "complex", "near": 1}, **kw)
        fast = ss(1, 1, 1, "C", "-1000", "2", "3", "1/2")                  # pole at -1000
        fast2 = ss(2, 1, 1, "C", "-1000 0 0 -7", "2 1", "3 0", "1/2")      # + an unobservable state
        acc = ss(1, 1, 1, "D1/1024", "1", "1/1024", "1", "0")              # accumulator, dt = 2^-10
        integ = ss(1, 1, 1, "C", "0", "1", "1", "0")
        near1000 = [[f(-1000 + 2.0 ** -8), "0"], ["-1000", f(2.0 ** -9)], [f(-1000 + 2.0 ** -7), f(-2.0 ** -10)]]
        ocf = ss(3, 1, 1, "C", "0 0 -6 1 0 -11 0 1 -6", "1 2 1/2", "0 0 1", "0")   # observable companion form
        probe = {"op": "call", "xs": [["1/4", "2"], ["0", "1"], ["3", "0"]], "scalar": False, "via": "call",
                 "xkind": "complex"}
        q = lambda op: {"op": op, "via": "method"}
        return [
            call(fast, near1000), call(fast2, near1000),
            call(["LT", 1, 1, "C", [[["1/2", "506"], ["1", "1000"]]]], near1000),
            call(integ, [[f(2.0 ** -30), "0"], ["0", f(2.0 ** -40)], [f(-2.0 ** -27), f(2.0 ** -27)]]),
            call(ss(1, 2, 2, "T", "1", "1 0", "1 2", "0 0 0 1"), [[f(1 + 2.0 ** -20), "0"], ["1", f(2.0 ** -33)]]),
            {"sys": acc, "op": "freq", "ws": [f(2.0 ** -9), f(2.0 ** -7), "1"], "scalar": False, "via": "method",
             "near": 1},
            {"sys": integ, "op": "freq", "ws": [f(2.0 ** -30), f(2.0 ** -40), "1"], "scalar": False,
             "via": "func", "near": 1},
            {"sys": ss(1, 1, 1, "D1/2", "-1", "1", "1", "0"), "op": "freq", "ws": [f(2 * math.pi), "1"],
             "scalar": False, "via": "method", "near": 1},
            {"sys": ocf, "op": "hist", "layout": {"A": "T"}, "steps": [probe, q("poles"), probe, q("dc"), q("zeros")]},
            {"sys": ocf, "op": "hist", "layout": {"A": "F", "B": "F", "C": "F", "D": "F"},
             "steps": [q("poles"), q("poles"), {"op": "freq", "ws": ["1", "1/4", "3"], "scalar": False,
                                                 "via": "method", "warr": True}]},
            {"sys": ss(2, 2, 2, "D1/2", "0 1 -1/2 1", "1 0 0 1", "1 0 1 1", "0 0 0 1"), "op": "hist",
             "layout": {"A": "T", "B": "S", "C": "R", "D": "L"}, "steps": [q("zeros"), q("poles"), probe, q("dc")]},
        ]

    def corpus_complex(self):
        """complex coefficients: gain matrices that mix real / infinite / NaN entries with non-real
        ones (the real-part post-processing of `_dcgain` must leave them alone), the component
        patterns of a division by zero (`inf + nan j` passes the test of `_dcgain`, `nan + inf j`
        does not), all-real, all-complex and SISO references, and the other operations on the same
        systems"""
        def cp(txt):
            # "1 j -2j 1+j 1/2" -> pair tokens
            out = []
            for t in txt.split():
                if not t.endswith("j"):
                    out.append([t, "0"])
                    continue
                t = t[:-1]
                k = max(t.rfind("+"), t.rfind("-"))
                a, b = (t[:k], t[k:]) if k > 0 else ("0", t)
                b = {"": "1", "+": "1", "-": "-1"}.get(b, b.lstrip("+"))
                out.append([a, b])
            return out

        def lc(p, m, dt, ents, ctype="mixed"):
            return ["LC", p, m, dt, [[cp(n), cp(d)] for n, d in ents], ctype]
        dc = lambda s, via="method": {"sys": s, "op": "dc", "via": via}
        g12 = lc(1, 2, "C", [("1", "1 1"), ("j", "1 2")])                      # [1, j/2]
        g22 = lc(2, 2, "T", [("1", "1 -1/2"), ("1+j", "1 1/2"), ("1", "1 -1"), ("2", "1 0")])
        return [
            dc(g12), dc(g12, "func"), dc(lc(1, 2, "C", [("1", "1 1"), ("j", "1 2")], "complex")),
            dc(g22), dc(lc(2, 1, "D1/10", [("1 1", "1 0"), ("2-j", "1 j")])),
            dc(lc(1, 2, "C", [("1", "1 0"), ("j", "1 1")])),                   # inf + nan j, j
            dc(lc(1, 2, "C", [("j", "1 0"), ("1", "1 1")])),                   # nan + inf j, 1
            dc(lc(1, 3, "N", [("1 0", "1 0 0"), ("3", "1 1"), ("1+j", "2 1")])),   # nan, 3, 1+j
            dc(lc(1, 3, "C", [("1", "1 0"), ("1 0", "1 0"), ("2", "1")])),     # inf, nan, 2: a real array
            dc(lc(1, 2, "C", [("j", "1 1"), ("3j", "1 2")])),                  # all entries non-real
            dc(lc(1, 2, "C", [("1", "1 1"), ("3", "1 2")], "complex")),        # all real, complex dtype
            dc(lc(1, 1, "C", [("j", "1 2")])), dc(lc(1, 1, "T", [("1+j", "j -j")])),
            {"sys": g12, "op": "call", "xs": [["0", "0"], ["0", "1"], ["-1", "0"]], "scalar": False,
             "via": "call", "xkind": "complex"},
            {"sys": g22, "op": "freq", "ws": ["2", "0", "1/2"], "scalar": False, "via": "method"},
            {"sys": lc(1, 1, "C", [("j 1", "1 -j")]), "op": "call", "xs": [["0", "1"], ["0", "0"]],
             "scalar": False, "via": "evalfr", "xkind": "complex"},
            {"sys": lc(1, 1, "C", [("j 1", "1 2")]), "op": "zeros", "via": "method"},
            {"sys": g12, "op": "poles", "via": "method"},
            # known finding C04-tf-poles-complex-den: poly(poles).real in _common_den
            {"sys": lc(1, 1, "C", [("1", "1 -j")]), "op": "poles", "via": "method"},
        ]

    # ---- execution ----------------------------------------------------------------------
    def line(self, case):
        sysd = case["sys"]
        if case["op"] == "hist":
            # the model is a function of the system alone (`C04.hist_answers`): one stand-alone
            # line per step
            return [self.line(dict(st, sys=sysd)) for st in case["steps"]]
        s = "ev " + sys_tokens(sysd)
        op = case["op"]
        if op == "call":
            return s + " call %d %s" % (len(case["xs"]), " ".join("%s %s" % (a, b) for a, b in case["xs"])) \
                + cand_tokens(sysd, eval_points(case))
        if op == "freq":
            tab = expj_entries(sys_dt(sysd), case["ws"])
            return (s + " freq %d %s X %d %s" % (len(case["ws"]), " ".join(wtok(w) for w in case["ws"]),
                                                 len(tab), " ".join(tab))).rstrip() \
                + cand_tokens(sysd, eval_points(case))
        if op == "dc":
            return s + " dc" + cand_tokens(sysd, eval_points(case))
        if op == "poles":
            if sysd[0] == "LS":
                ns = sysd[1]
                cand = charpoly_fl(fmat(sysd[5], ns, ns))
                return s + " poles " + poly_toks(cand)
            p, m = sysd[1], sysd[2]
            out = s + " poles"
            pt = cpoly_toks if sysd[0] == "LC" else poly_toks
            for j in range(m):
                if sysd[0] == "LC":
                    dens = [ent_gq(sysd, i * m + j)[1] for i in range(p)]
                else:
                    dens = [[Fraction(x) for x in sysd[4][i * m + j][1]] for i in range(p)]
                L, cof, bez = plcm_cert(dens)
                out += " " + pt(L)
                out += " %d %s" % (len(cof), " ".join(pt(c) for c in cof))
                out += " %d %s" % (len(bez), " ".join(pt(c) for c in bez))
            return out
        if op == "zeros":
            if is_tf(sysd):
                return s + " zeros"
            _, ns, p, m, dt, A, B, C, D = sysd
            cand = [F0]
            if ns and p == m:
                xs = [Fraction(k) for k in range(ns + m + 1)]
                Af, Bf, Cf, Df = fmat(A, ns, ns), fmat(B, ns, m), fmat(C, p, ns), fmat(D, p, m)
                cand = interp_poly(xs, [rosen_det(Af, Bf, Cf, Df, x) for x in xs])
            return s + " zeros " + poly_toks(cand)
        raise ValueError(op)

    def xvalue(self, case):
        xs = [complex(float(Fraction(a)), float(Fraction(b))) for a, b in case["xs"]]
        kind = case.get("xkind", "complex")
        if kind == "real":
            xs = [float(z.real) for z in xs]
        elif kind == "int":
            xs = [int(z.real) for z in xs]
        if case["scalar"]:
            return xs[0]
        if kind == "list":
            return xs
        return np.array(xs)

    def impl(self, case):
        if case["op"] == "hist":
            return self.impl_hist(case)
        try:
            sys_ = build(case["sys"])
        except Exception as e:  # noqa
            return {"err": classify_exc(e), "exc": "%s: %s" % (type(e).__name__, norm_msg(str(e)))}
        return self.run_op(sys_, case)

    def run_op(self, sys_, case):
        """one query on the object `sys_` (the real python-control code), canonical result"""
        try:
            p, m = sys_shape(case["sys"])
            op = case["op"]
            if op == "call":
                x = self.xvalue(case)
                x0 = x.copy() if isinstance(x, np.ndarray) else None
                k = len(case["xs"])
                if case["via"] == "evalfr":
                    v = ct.evalfr(sys_, x, squeeze=False)
                elif case["via"] == "horner":
                    v = sys_.horner(x)
                else:
                    v = sys_(x, squeeze=False)
                v = np.asarray(v)
                want = (p, m) if (case["scalar"] and case["via"] != "horner") else (p, m, k)
                if v.shape != want:
                    return {"ok": {"type": "shape", "shape": list(v.shape), "want": list(want)}}
                v = v.reshape(p, m, k)
                out = {"type": "vals", "k": k, "cells": [
                    [cell_of(v[i, j, q]) for i in range(p) for j in range(m)] for q in range(k)]}
                if x0 is not None and not np.array_equal(x, x0):
                    out["argmut"] = True          # the caller's array of points was written to
                return {"ok": out}
            if op == "freq":
                ws = [float(Fraction(w)) for w in case["ws"]]
                arg = ws[0] if case["scalar"] else (np.array(ws) if case.get("warr") else ws)
                arg0 = arg.copy() if isinstance(arg, np.ndarray) else None
                r = ct.frequency_response(sys_, arg) if case["via"] == "func" else sys_.frequency_response(arg)
                om = np.asarray(r.omega)
                v = np.asarray(r.frdata)
                k = len(ws)
                if v.shape != (p, m, k) or om.shape != (k,):
                    return {"ok": {"type": "shape", "shape": list(v.shape), "want": [p, m, k],
                                   "omega": list(om.shape)}}
                out = {"type": "vals", "k": k, "omega": [tok(fr(w)) for w in om], "cells": [
                    [cell_of(v[i, j, q]) for i in range(p) for j in range(m)] for q in range(k)]}
                if arg0 is not None and not np.array_equal(arg, arg0):
                    out["argmut"] = True          # the caller's frequency array was written to
                return {"ok": out}
            if op == "dc":
                g = ct.dcgain(sys_) if case["via"] == "func" else sys_.dcgain()
                g = np.asarray(g)
                if g.size != p * m:
                    return {"ok": {"type": "shape", "shape": list(g.shape), "want": [p, m]}}
                g = g.reshape(p, m)
                return {"ok": {"type": "vals", "k": 1, "real": bool(np.isrealobj(g)),
                               "cells": [[cell_of(g[i, j]) for i in range(p) for j in range(m)]]}}
            if op in ("poles", "zeros"):
                with Recorder() as rec:
                    if case["via"] == "func":
                        r = ct.poles(sys_) if op == "poles" else ct.zeros(sys_)
                    else:
                        r = sys_.poles() if op == "poles" else sys_.zeros()
                r = np.asarray(r)
                fin = bool(np.all(np.isfinite(r))) if r.size else True
                return {"ok": {"type": "roots", "finite": fin, "n": int(r.size),
                               "roots": [[float(z.real), float(z.imag)] for z in r.astype(complex)] if fin else [],
                               "calls": rec.calls}}
        except Exception as e:  # noqa
            return {"err": classify_exc(e), "exc": "%s: %s" % (type(e).__name__, norm_msg(str(e)))}
        return {"err": "harness", "exc": "unknown op"}

    # ---- histories: several queries on ONE object --------------------------------------------
    @staticmethod
    def sys_state(sys_):
        """the data that define the object (copies)"""
        if isinstance(sys_, ct.StateSpace):
            return [np.array(M, copy=True) for M in (sys_.A, sys_.B, sys_.C, sys_.D)]
        return [np.array(a, copy=True) for arr in (sys_.num_array, sys_.den_array) for a in arr.flat]

    @staticmethod
    def same_state(s0, s1):
        return len(s0) == len(s1) and all(
            a.shape == b.shape and np.array_equal(a, b) for a, b in zip(s0, s1))

    def build_hist(self, case):
        """(object, the arrays handed to the constructor, copies of them)"""
        sysd = case["sys"]
        if sysd[0] != "LS":
            return build(sysd), [], []
        arrs = ss_arrays(sysd, case.get("layout"))
        keep = [np.array(a, copy=True) for a in arrs]
        return ct.StateSpace(*arrs, dt_value(sysd[4])), arrs, keep

    def impl_hist(self, case):
        """every step on one and the same object; for reference every step also on a freshly
        built object (same layout); whether the object's own data and the caller's arrays are
        still what they were"""
        try:
            sysd = case["sys"]
            sys_, arrs, keep = self.build_hist(case)
            s0 = self.sys_state(sys_)
            steps, fresh, mutated_after = [], [], None
            for k, st in enumerate(case["steps"]):
                c = dict(st, sys=sysd)
                steps.append(self.run_op(sys_, c))
                if mutated_after is None and not self.same_state(s0, self.sys_state(sys_)):
                    mutated_after = k
            caller_ok = all(np.array_equal(np.asarray(a), b) for a, b in zip(arrs, keep))
            for st in case["steps"]:
                f_sys = self.build_hist(case)[0]
                fresh.append(self.run_op(f_sys, dict(st, sys=sysd)))
            return {"ok": {"type": "hist", "steps": steps, "fresh": fresh,
                           "mutated_after": mutated_after, "caller_ok": bool(caller_ok)}}
        except Exception as e:  # noqa
            return {"err": classify_exc(e), "exc": "%s: %s" % (type(e).__name__, norm_msg(str(e)))}

    def parse_model(self, case, out):
        if case["op"] == "hist":
            outs = out if isinstance(out, list) else [out]
            return {"ok": {"type": "hist", "steps": [
                self.parse_model(dict(st, sys=case["sys"]), o) for st, o in zip(case["steps"], outs)]}}
        if out.startswith("err "):
            return {"err": out.split()[1]}
        tk = Tokens(out)
        assert tk.next() == "ok"
        op = case["op"]
        if op in ("call", "freq", "dc"):
            k, p, m = tk.nat(), tk.nat(), tk.nat()
            res = {"type": "vals", "k": k, "p": p, "m": m}
            if op == "freq":
                assert tk.next() == "W"
                res["omega"] = [tok(tk.rat()) for _ in range(k)]
            if op == "dc":
                assert tk.next() == "R"
                res["real"] = bool(tk.nat())
            pts = []
            for _ in range(k):
                assert tk.next() == "P"
                sing = tk.nat()
                dre, dim_ = tk.rat(), tk.rat()
                reg = tk.next()
                cells = []
                for _ in range(p * m):
                    c = tk.next()
                    if c == "F":
                        cells.append(["F", tok(tk.rat()), tok(tk.rat())])
                    else:
                        cells.append([c])
                pts.append({"sing": sing, "det2": tok(cabs2(dre, dim_)), "reg": reg, "cells": cells})
            assert tk.done()
            res["pts"] = pts
            return {"ok": res}
        kind = tk.next()
        if kind == "empty":
            return {"ok": {"type": "roots", "polys": [], "arg": None}}
        if kind == "polys":
            cnt = tk.nat()
            polys = []
            for _ in range(cnt):
                n = tk.nat()
                pl = []
                for _ in range(n):
                    re_, im_ = tk.rat(), tk.rat()
                    pl.append([tok(re_), tok(im_)])
                polys.append(pl)
            return {"ok": {"type": "roots", "polys": polys, "arg": None}}
        assert kind == "poly"
        n = tk.nat()
        pl = []
        for _ in range(n):
            re_, im_ = tk.rat(), tk.rat()
            pl.append([tok(re_), tok(im_)])
        arg = None
        if not tk.done():
            assert tk.next() == "arg"
            sz = tk.nat()
            arg = [[tok(tk.rat()) for _ in range(sz * sz)]]
            if not tk.done():
                arg.append([tok(tk.rat()) for _ in range(sz * sz)])
        return {"ok": {"type": "roots", "polys": [pl], "arg": arg}}

    # ---- comparison ---------------------------------------------------------------------
    def feats(self, case, kind, **kw):
        sysd = case["sys"]
        p, m = sys_shape(sysd)
        f = {"kind": kind, "op": case["op"], "rep": {"LT": "tf", "LC": "tfc", "LS": "ss"}[sysd[0]],
             "nstates": nstates_bucket(sysd), "square": p == m}
        f.update(kw)
        return f

    def point_tau(self, case, q, mpt, xfloat):
        """(tolerance class, absolute error bound or None) for the values at point q.  A bound is
        returned close to a pole of the general path: an entry is judged (at 1e-5) only when
        1e3 * bound <= 1e-5 * scale."""
        sysd = case["sys"]
        if sysd[0] == "LS":
            ns = sysd[1]
            if ns <= 1:
                # no states: D itself.  One state: c / (x - a) * b + d, a handful of correctly rounded
                # operations (x - a is exact or correctly rounded per component): the error is below
                # 16 eps (|cb / (x - a)| + |d|) however close x is to the pole
                return TAU, None
            if Fraction(mpt["det2"]) >= Fraction(1, 64):
                return (TAU if ns <= 2 else TAU_SS3), None
            return TAU_LOOSE, self.ss_err_bound(case, q, mpt)
        return None, None   # per entry, see tf_tau

    EPS = 2.3e-16

    def ss_norms(self, case, q):
        """(ns, ||xI - A||_F, ||B||_F, ||C||_F, ||D||_F) in floats"""
        _, ns, p, m, dt, A, B, C, D = case["sys"]
        x = eval_points(case)[q]
        xr, xi = float(x[0]), float(x[1])
        Af = fmat(A, ns, ns)
        nM = math.sqrt(sum(abs(complex((xr if i == j else 0.0) - float(Af[i][j]), xi if i == j else 0.0)) ** 2
                           for i in range(ns) for j in range(ns)))
        nrm = lambda vals: math.sqrt(sum(float(Fraction(v)) ** 2 for v in vals))
        return ns, nM, nrm(B), nrm(C), nrm(D)

    def lu_gamma(self, ns):
        """backward error constant of LAPACK's complex LU with partial pivoting (3 n^2 growth eps,
        growth <= 2^(n-1), complex arithmetic), rounded up"""
        return 64 * ns * ns * self.EPS

    def ss_err_bound(self, case, q, mpt):
        """bound on |impl - exact| of C solve(xI - A, B) + D near a pole: the computed X solves
        (M + E) X = B with ||E|| <= gamma ||M||, and ||M^-1|| <= ||M||^(n-1) / |det M|"""
        ns, nM, nB, nC, nD = self.ss_norms(case, q)
        det2 = float(Fraction(mpt["det2"]))
        if det2 <= 0:
            return float("inf")
        inv = nM ** (ns - 1) / math.sqrt(det2)
        return nC * inv * inv * self.lu_gamma(ns) * nM * nB + 8 * self.EPS * (nC * inv * nB + nD)

    def float_robust(self, case, q, idx, mpt):
        """the model value at point q is finite; is the floating-point computation certain not to hit
        an exact zero there (denominator value for a transfer function, pivot of the LU for the
        general state-space path)?  Then a non-finite answer of the implementation is a failure;
        otherwise it is a matter of rounding (not judged)."""
        sysd = case["sys"]
        x = eval_points(case)[q]
        if is_tf(sysd):
            den = ent_gq(sysd, idx)[1]
            xg = GQ(x[0], x[1])
            acc, ax, sabs = GQ(0), math.hypot(float(x[0]), float(x[1])), 0.0
            for c in den:
                acc = acc * xg + c
                sabs = sabs * ax + abs(complex(c))
            dv = abs(complex(acc))
            return dv > 1e3 * 8 * (len(den) + 1) * self.EPS * sabs
        ns = sysd[1]
        if ns == 0:
            return True
        if ns == 1:
            a = Fraction(sysd[5][0])
            d2 = (x[0] - a) ** 2 + x[1] ** 2
            return d2 > Fraction(1, 2 ** 400)      # c / (x - a) cannot overflow
        ns, nM, nB, nC, nD = self.ss_norms(case, q)
        det = math.sqrt(float(Fraction(mpt["det2"])))
        return det > 1e3 * self.lu_gamma(ns) * nM ** ns

    def tf_tau(self, ent, x, scale, xq=None):
        c = tf_cond(ent[0], ent[1], x, xq)
        eps = 2.3e-16
        if c * eps * 1e3 <= 1e-9 * scale:
            return TAU
        if c * eps * 1e3 <= 1e-5 * scale:
            return TAU_LOOSE
        return None

    def xfloats(self, case, model):
        """the float evaluation points (for the TF conditioning bound)"""
        op = case["op"]
        if op == "call":
            return [complex(float(Fraction(a)), float(Fraction(b))) for a, b in case["xs"]]
        dt = sys_dt(case["sys"])
        if op == "dc":
            return [0j if dt in ("C", "N") else 1 + 0j]
        om = np.sort(np.array([float(Fraction(w)) for w in case["ws"]], ndmin=1))
        if dt in ("C", "N"):
            return list(1j * om)
        h = True if dt == "T" else float(Fraction(dt[1:]))
        return list(np.exp(1j * om * h))

    def compare(self, case, impl, model):
        if case["op"] == "hist":
            return self.compare_hist(case, impl, model)
        return self.compare_single(case, impl, model)

    def compare_hist(self, case, impl, model):
        """every step of the history against the model's stand-alone answer (`C04.hist_answers`:
        the answer to a query does not depend on what was asked before).  A failing step is
        `history: dependent` when the same query on a freshly built object is right."""
        sysd = case["sys"]
        lay = lay_sig(case.get("layout")) if sysd[0] == "LS" else "-"
        if "err" in impl:
            return Verdict(VIOLATES, "history raises %s" % impl.get("exc"),
                           self.feats(case, "raises", exc=impl.get("exc", "").split(":")[0]))
        io, mo = impl["ok"], model["ok"]
        first_diff = None
        worst, info = 0.0, {}
        for k, st in enumerate(case["steps"]):
            c = dict(st, sys=sysd)
            v = self.compare_single(c, io["steps"][k], mo["steps"][k])
            sd = self.side.pop(id(c), {})
            worst = max(worst, sd.get("worst", 0.0))
            for key in ("unjudged", "zeros_unchecked", "near_unjudged"):
                if sd.get(key):
                    info[key] = sd[key]
            if v.status == AGREE:
                continue
            c2 = dict(st, sys=sysd)
            vf = self.compare_single(c2, io["fresh"][k], mo["steps"][k])
            self.side.pop(id(c2), None)
            dep = "dependent" if vf.status == AGREE else "independent"
            before = [s2["op"] for s2 in case["steps"][:k]]
            f = dict(v.features, hist=dep)
            out = Verdict(v.status, "step %d (%s) after %s on one object [layout ABCD=%s; on a fresh object: %s]: %s"
                          % (k, st["op"], before, lay, "right" if dep == "dependent" else "also wrong", v.detail), f)
            if v.status == VIOLATES:
                return out
            first_diff = first_diff or out
        self.side[id(case)] = dict(info, worst=worst)
        if first_diff is not None:
            return first_diff
        if io.get("mutated_after") is not None:
            k = io["mutated_after"]
            return Verdict(DIFFERS, "the object's own data changed during step %d (%s); every answer still agrees"
                           % (k, case["steps"][k]["op"]),
                           self.feats(case, "state-mutated", step=case["steps"][k]["op"]))
        if not io.get("caller_ok", True):
            return Verdict(DIFFERS, "the arrays the caller handed to the constructor were written to",
                           self.feats(case, "caller-mutated"))
        return Verdict(AGREE)

    def compare_single(self, case, impl, model):
        op = case["op"]
        if "err" in model:
            if "err" in impl:
                if impl["err"] == model["err"]:
                    return Verdict(AGREE)
                return Verdict(VIOLATES, "different exception: impl %s model %s" % (impl.get("exc"), model["err"]),
                               self.feats(case, "exc-kind", impl=impl["err"], model=model["err"]))
            return Verdict(VIOLATES, "model raises %s, implementation returns" % model["err"],
                           self.feats(case, "returns", model=model["err"]))
        mo = model["ok"]
        if "err" in impl:
            sing = any(pt["sing"] for pt in mo.get("pts", []))
            return Verdict(VIOLATES, "implementation raises %s; model returns" % impl.get("exc"),
                           self.feats(case, "raises", exc=impl.get("exc", "").split(":")[0],
                                      msg=norm_msg(impl.get("exc", "").split(":", 1)[-1]), at_pole=sing))
        io = impl["ok"]
        if io["type"] == "shape":
            return Verdict(VIOLATES, "shape %s" % io, self.feats(case, "shape"))
        if op in ("poles", "zeros"):
            return self.compare_roots(case, io, mo)
        # frequency grid
        if op == "freq" and io["omega"] != mo["omega"]:
            return Verdict(VIOLATES, "omega impl %s model %s" % (io["omega"], mo["omega"]),
                           self.feats(case, "grid"))
        if io["k"] != mo["k"]:
            return Verdict(VIOLATES, "number of points", self.feats(case, "shape"))
        xf = self.xfloats(case, model)
        xq = eval_points(case)
        sysd = case["sys"]
        p, m = sys_shape(sysd)
        worst = Fraction(0)
        unjudged = 0
        near_unjudged = 0
        for q in range(mo["k"]):
            mpt = mo["pts"][q]
            tau_pt, bound_pt = self.point_tau(case, q, mpt, xf[q])
            for idx in range(p * m):
                mc, ic = mpt["cells"][idx], io["cells"][q][idx]
                mcl = {"F": "finite", "I": "inf", "N": "nan"}[mc[0]]
                icl = {"F": "finite", "I": "inf", "N": "nan"}[ic[0]]
                if (mcl != icl and icl == "finite" and mpt.get("sing") and sysd[0] == "LS"
                        and sysd[1] >= 2 and not self.lu_certified(case, q)):
                    # an exact pole that the floating-point LU does not hit exactly (no
                    # power-of-two pivots): whether solve() raises is a matter of rounding
                    unjudged += 1
                    break
                if mcl == "finite" and icl != "finite" and not self.float_robust(case, q, idx, mpt):
                    # so close to a pole that a rounded denominator / pivot may be exactly zero
                    near_unjudged += 1
                    continue
                if mcl != icl:
                    return Verdict(VIOLATES, "point %d entry %d: model %s impl %s" % (q, idx, mc, ic),
                                   self.feats(case, "class", model=mcl, impl=icl))
                if mcl != "finite":
                    continue
                mre, mim = Fraction(mc[1]), Fraction(mc[2])
                ire, iim = Fraction(ic[1]), Fraction(ic[2])
                scale = max(Fraction(1), abs(mre), abs(mim))
                if is_tf(sysd):
                    tau = self.tf_tau(ent_gq(sysd, idx), xf[q], float(scale), xq[q])
                    if tau is None:
                        continue
                else:
                    tau = tau_pt
                    if bound_pt is not None and bound_pt * 1e3 > 1e-5 * float(scale):
                        near_unjudged += 1      # too ill-conditioned for a value comparison
                        continue
                err = max(abs(mre - ire), abs(mim - iim)) / scale
                if err > tau:
                    return Verdict(VIOLATES, "point %d entry %d: model %s impl %s (rel err %.3g, tol %.1g)"
                                   % (q, idx, mc[1:], ic[1:], float(err), float(tau)),
                                   self.feats(case, "value", tol=str(float(tau))))
                worst = max(worst, err / tau)
        self.side[id(case)] = {"worst": float(worst), "unjudged": unjudged, "near_unjudged": near_unjudged}
        if io.get("argmut"):
            return Verdict(DIFFERS, "the caller's array of evaluation points / frequencies was written to",
                           self.feats(case, "arg-mutated"))
        if op == "dc":
            self.side[id(case)]["dc"] = self.dc_mix(mo, io)
            if io.get("real") != mo.get("real"):
                # every value agrees, only the type of the array differs from what `_dcgain` (model:
                # `dcPost`) returns: real exactly when every entry is real or `x + nan j`
                return Verdict(DIFFERS, "dcgain returns a %s array, the model a %s one"
                               % ("real" if io.get("real") else "complex", "real" if mo.get("real") else "complex"),
                               self.feats(case, "dc-dtype", model_real=bool(mo.get("real"))))
        return Verdict(AGREE)

    @staticmethod
    def dc_mix(mo, io):
        """which kinds of entries the gain matrix has (histogram: is the class that needs np.all reached)"""
        kinds = set()
        for c in mo["pts"][0]["cells"]:
            if c[0] == "F":
                kinds.add("real" if Fraction(c[2]) == 0 else "nonreal")
            else:
                kinds.add({"I": "inf", "N": "nan"}[c[0]])
        return "+".join(sorted(kinds)) + ("/R" if mo.get("real") else "/C")

    def lu_certified(self, case, q):
        """is the LU of x_q I - A exact in binary64 (see lu_exact)"""
        sysd = case["sys"]
        _, ns, p, m, dt, A, B, C, D = sysd
        try:
            x = eval_points(case)[q]
        except Exception:
            return False
        Af = fmat(A, ns, ns)
        M = [[((x[0] if i == j else F0) - Af[i][j], (x[1] if i == j else F0)) for j in range(ns)]
             for i in range(ns)]
        return lu_exact(M)

    def expected_calls(self, case, mo):
        """the arguments the model hands to the root finders, as comparable records"""
        sysd = case["sys"]
        op = case["op"]
        if sysd[0] == "LS":
            ns, p, m = sysd[1], sysd[2], sysd[3]
            if mo["arg"] is None:
                return []
            if op == "poles":
                return [("eigvals", [[float(Fraction(x)) for x in mo["arg"][0][i * ns:(i + 1) * ns]]
                                     for i in range(ns)])]
            sz = ns + m
            return [("geigvals",
                     [[float(Fraction(x)) for x in mo["arg"][0][i * sz:(i + 1) * sz]] for i in range(sz)],
                     [[float(Fraction(x)) for x in mo["arg"][1][i * sz:(i + 1) * sz]] for i in range(sz)])]
        if op == "zeros":
            return [("roots", clist_of(gq_poly(mo["polys"][0])))]
        return None

    def compare_roots(self, case, io, mo):
        sysd = case["sys"]
        op = case["op"]
        # (1) plumbing: what is handed to eigvals / roots (a difference alone is not a failure of the
        # property: it is reported as DIFFERS unless the returned roots are wrong too)
        plumbing = None
        exp = self.expected_calls(case, mo)
        calls = [tuple(c) for c in io["calls"]]
        if exp is not None:
            got = [c for c in calls if c[0] in ("eigvals", "geigvals", "roots")]
            if [list(c) for c in got] != [list(c) for c in exp]:
                plumbing = "root finder called with %s, model hands over %s" % (got, exp)
        else:
            # TransferFunction.poles(): every entry's denominator is factored once (roots or tf2zpk)
            p, m = sysd[1], sysd[2]
            first = [c for c in calls if c[0] in ("roots", "tf2zpk")][:p * m]
            want = sorted((clist_of(ent_gq(sysd, i)[1]) for i in range(p * m)), key=repr)
            got = sorted(((c[1] if c[0] == "roots" else c[2]) for c in first), key=repr)
            if got != want:
                plumbing = "denominators factored %s, expected %s" % (got, want)
        # (2) the returned roots, through the rebuilt coefficients
        if sysd[0] == "LS" and op == "zeros" and sysd[1] > 0 and sysd[2] == sysd[3]:
            # infinite generalised eigenvalues may come back as nan or as huge finite numbers unless D
            # is invertible (then there are exactly ns finite zeros)
            if exmat.det(fmat(sysd[8], sysd[2], sysd[3])) == 0:
                self.side[id(case)] = {"zeros_unchecked": True}
                return self.plumb(case, plumbing)
        if not io["finite"]:
            return Verdict(VIOLATES, "non-finite roots", self.feats(case, "roots-nonfinite"))
        total = [GQ(1)]
        for pl in mo["polys"]:
            total = exact.pmul(total, gq_poly(pl))
        total = exact.ptrim(total)
        # `TransferFunction._common_den` rebuilds the common denominator as `poly(poles).real`
        # (known finding for denominators that are not real after normalisation)
        monic_real = all((c / pl2[0]).im == 0 for pl in mo["polys"]
                         for pl2 in [exact.ptrim(gq_poly(pl))] if not exact.pzero(pl2) for c in pl2)
        extra = {"monic": "real" if monic_real else "nonreal"} if sysd[0] == "LC" else {}
        if exact.pzero(total):
            # zero polynomial: numpy.roots([0]) is empty; a singular zero pencil is QZ's business
            if is_tf(sysd) and io["n"] != 0:
                return Verdict(VIOLATES, "roots of the zero polynomial", self.feats(case, "roots-count"))
            return self.plumb(case, plumbing)
        deg = len(total) - 1
        if io["n"] != deg:
            return Verdict(VIOLATES, "%d roots returned, polynomial of degree %d" % (io["n"], deg),
                           self.feats(case, "roots-count", **extra))
        rts = np.array([complex(a, b) for a, b in io["roots"]])
        rebuilt = np.atleast_1d(np.poly(rts)) if deg else np.array([1.0])
        monic = [c / total[0] for c in total]
        scale = max(F1, max(max(abs(c.re), abs(c.im)) for c in monic))
        for a, b in zip(rebuilt, monic):
            a = complex(a)
            err = max(abs(fr(a.real) - b.re), abs(fr(a.imag) - b.im)) / scale
            if err > TAU_ROOTS:
                return Verdict(VIOLATES, "coefficients rebuilt from the roots %s, model polynomial %s"
                               % (list(rebuilt), [complex(c) for c in monic]),
                               self.feats(case, "roots", **extra))
        return self.plumb(case, plumbing)

    def plumb(self, case, plumbing):
        if plumbing is None:
            return Verdict(AGREE)
        return Verdict(DIFFERS, plumbing, self.feats(case, "plumbing"))

    # ---- bookkeeping --------------------------------------------------------------------
    def nontrivial(self, case, model):
        sysd = case["sys"]
        dynamic = (sysd[0] == "LS" and sysd[1] > 0) or \
            (is_tf(sysd) and any(len(e[1]) > 1 or len(e[0]) > 1 for e in sysd[4]))
        notreal = case["op"] == "freq" or any(x[1] != "0" for x in case.get("xs", []))
        if case["op"] == "hist":
            return "ok" in model and dynamic and len(case["steps"]) >= 2
        return "ok" in model and (dynamic or notreal)

    def stats(self, case, impl, model):
        sysd = case["sys"]
        st = {"op": case["op"], "rep": sysd[0], "dt": sys_dt(sysd)[:1], "shape": "%dx%d" % sys_shape(sysd),
              "nstates": nstates_bucket(sysd)}
        if "err" in model:
            st["model_err"] = model["err"]
        elif "ok" in model:
            mo = model["ok"]
            if "pts" in mo:
                classes = set()
                for pt in mo["pts"]:
                    if pt["sing"]:
                        classes.add("sing-reg" + pt["reg"])
                    for c in pt["cells"]:
                        classes.add(c[0])
                st["classes"] = "".join(sorted(c for c in classes if len(c) == 1))
                if any(c.startswith("sing") for c in classes):
                    st["ss_singular"] = ",".join(sorted(c for c in classes if c.startswith("sing")))
            if case["op"] == "freq":
                ws = [Fraction(w) for w in case["ws"]]
                st["grid"] = "unsorted" if any(a > b for a, b in zip(ws, ws[1:])) else (
                    "repeated" if len(set(ws)) < len(ws) else "sorted")
        if case["op"] == "hist":
            ops = [st["op"] for st in case["steps"]]
            st["hist_steps"] = str(len(ops))
            if sysd[0] == "LS":
                a = (case.get("layout") or {}).get("A", "C")
                st["hist_layout_A"] = a
                insp = [k for k, o in enumerate(ops) if o in ("poles", "zeros")]
                if insp and any(o in ("call", "freq", "dc", "zeros") for o in ops[insp[0] + 1:]) and sysd[1] >= 2:
                    st["hist_eval_after_inspection"] = "A column-major" if a in ("F", "T") else "A other layout"
            if len(ops) >= 2:
                st["hist_first_pair"] = "%s>%s" % (ops[0], ops[1])
        if case.get("near"):
            st["near_pole_stream"] = "%s/%s" % (case["op"], sysd[0] + (str(min(sysd[1], 2)) if sysd[0] == "LS" else ""))
            try:
                dmin = None
                for (xr, xi) in eval_points(case):
                    for pl in self.exact_poles(sysd):
                        d2 = (xr - pl[0]) ** 2 + (xi - pl[1]) ** 2
                        rel = d2 / max(F1, pl[0] ** 2 + pl[1] ** 2)
                        if rel != 0 and (dmin is None or rel < dmin):
                            dmin = rel
                if dmin is not None:
                    e = -math.log2(float(dmin)) / 2
                    st["near_pole_rel_dist"] = ("2^-1..2^-12" if e < 12 else "2^-12..2^-17 (beyond isclose rtol)"
                                                if e < 17 else "2^-17..2^-27" if e < 27 else
                                                "2^-27..2^-40 (beyond isclose atol)" if e < 40 else "below 2^-40")
            except Exception:
                pass
        sd = self.side.get(id(case), {})
        if "worst" in sd:
            w = sd["worst"]
            st["err/tol"] = "<=1e-3" if w <= 1e-3 else ("<=1e-1" if w <= 1e-1 else ">1e-1")
        if sd.get("dc") and sysd[0] == "LC":
            st["dc_complex_coeff"] = sd["dc"]
        if sd.get("unjudged"):
            st["exact_pole_not_exact_in_float_LU"] = "class not judged"
        if sd.get("near_unjudged"):
            st["near_pole_beyond_rounding_guard"] = "entry not judged"
        if sd.get("zeros_unchecked"):
            st["zeros_values"] = "unchecked(D singular)"
        if case.get("via"):
            st["via"] = case["via"]
        return st

    @staticmethod
    def exact_poles(sysd):
        """poles that are known exactly without a root finder: of a first-order system"""
        if sysd[0] == "LS" and sysd[1] == 1:
            return [(Fraction(sysd[5][0]), F0)]
        if sysd[0] == "LT":
            out = []
            for n, d in sysd[4]:
                if len(d) == 2:
                    out.append((-Fraction(d[1]) / Fraction(d[0]), F0))
            return out
        return []

    def shrink(self, case):
        out = []
        if case["op"] == "hist":
            steps = case["steps"]
            for i in range(len(steps) if len(steps) > 1 else 0):
                out.append(dict(case, steps=steps[:i] + steps[i + 1:]))
            lay = case.get("layout") or {}
            for k in sorted(lay):
                out.append(dict(case, layout={a: b for a, b in lay.items() if a != k}))
            for i, st in enumerate(steps):
                for key in ("xs", "ws"):
                    if len(st.get(key, [])) > 1:
                        st2 = dict(st, scalar=False)
                        st2[key] = st[key][:1]
                        out.append(dict(case, steps=steps[:i] + [st2] + steps[i + 1:]))
        if case["op"] == "call" and len(case["xs"]) > 1:
            for i in range(len(case["xs"])):
                c = dict(case)
                c["xs"] = case["xs"][:i] + case["xs"][i + 1:]
                c["scalar"] = False
                out.append(c)
        if case["op"] == "freq" and len(case["ws"]) > 1:
            for i in range(len(case["ws"])):
                c = dict(case)
                c["ws"] = case["ws"][:i] + case["ws"][i + 1:]
                c["scalar"] = False
                out.append(c)
        sysd = case["sys"]
        if is_tf(sysd) and sysd[1] * sysd[2] > 1 and case["op"] in ("call", "freq", "dc"):
            # drop one output row / one input column
            p, m, ents = sysd[1], sysd[2], sysd[4]
            for i in range(p if p > 1 else 0):
                s2 = list(sysd)
                s2[1], s2[4] = p - 1, [e for k, e in enumerate(ents) if k // m != i]
                out.append(dict(case, sys=s2))
            for j in range(m if m > 1 else 0):
                s2 = list(sysd)
                s2[2], s2[4] = m - 1, [e for k, e in enumerate(ents) if k % m != j]
                out.append(dict(case, sys=s2))
        if sysd[0] == "LS":
            _, ns, p, m, dt, A, B, C, D = sysd
            for name, idx, vals in (("B", 6, B), ("C", 7, C), ("D", 8, D), ("A", 5, A)):
                for k, v in enumerate(vals):
                    if v != "0":
                        s2 = list(sysd)
                        s2[idx] = vals[:k] + ["0"] + vals[k + 1:]
                        c = dict(case)
                        c["sys"] = s2
                        out.append(c)
                        break
        return [{k: v for k, v in c.items() if not k.startswith("_")} for c in out]


FAMILY = C04
