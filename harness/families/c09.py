"""C09 — FRD arithmetic: correspondence between FrequencyResponseData operators / eval and the
Lean model `CtrlVerif.Model.FRDDyn` (driver family `frd`, executed over Q(i))."""
import re
from fractions import Fraction

import numpy as np
import control as ct

from core.runner import Family, Verdict, AGREE, VIOLATES, DIFFERS
from core import exact
from core.exact import fr, tok, Tokens

DT01 = exact.dt_tok(0.1)
BIN = ("add", "sub", "mul", "div", "append", "iadd", "isub", "imul", "idiv")
AUG = {"iadd": "add", "isub": "sub", "imul": "mul", "idiv": "div"}
LEAVES = ("F", "S", "A", "LT", "LS", "R")
TAU = Fraction(1, 10 ** 9)          # regime T, well-conditioned
TAU_LOOSE = Fraction(1, 10 ** 5)    # regime T, conditioning guard not met
TAU_SPLINE = Fraction(1, 10 ** 7)   # interpolating FRD evaluated at its own knots

# ----------------------------------------------------------------------------
# case = {"tree": tree, "eval": None | {"ws": [q...], "via": "eval"|"call", "scalar": bool}}
#   ["F", p, m, smooth, dt, [w...], [[re, im]...]]      data in the order k, i, j
#   ["S", re, im, kind]   kind: int | float | complex | npfloat | npint | npcomplex
#   ["A", p, m, [q...], dtype]
#   ["LT", p, m, dt, [[num, den]...]]
#   ["LS", ns, p, m, dt, A, B, C, D]
#   ["neg", x] ["pow", k, x] ["fb", sign, via, x, y] ["sel", rows, cols, x] [binop, x, y]
#   [iop, x, y]   iop: iadd | isub | imul | idiv = `x op= y` on a temporary x (model: the plain operator)
#
# history case = {"hist": {"objs": [{"leaf": leaf, "copy_of": None | i}...], "steps": [{"tree", "eval"}...]}}
#   the objects are made ONCE (object i; "copy_of": through the copy constructor FRD(obj_i)) and the
#   steps run in order on the live objects; a step names object i by the leaf ["R", i]; the FRD
#   returned by step j (0-based, no eval) is object len(objs) + j.
# ----------------------------------------------------------------------------


def children(t):
    k = t[0]
    if k in LEAVES:
        return []
    if k == "neg":
        return [1]
    if k == "pow":
        return [2]
    if k == "fb":
        return [3, 4]
    if k == "sel":
        return [3]
    return [1, 2]


def flatten(t):
    k = t[0]
    if k == "F":
        _, p, m, sm, _dt, ws, data = t
        return "F %d %d %d %d %s %s" % (len(ws), p, m, sm, " ".join(ws),
                                        " ".join("%s %s" % (a, b) for a, b in data))
    if k == "S":
        return "S %s %s" % (t[1], t[2])
    if k == "A":
        return "A %d %d %s" % (t[1], t[2], " ".join(t[3]))
    if k == "LT":
        s = "LT %d %d %s" % (t[1], t[2], t[3])
        for (n, d) in t[4]:
            s += " %d %s %d %s" % (len(n), " ".join(n), len(d), " ".join(d))
        return s
    if k == "LS":
        _, ns, p, m, dt, A, B, C, D = t
        return "LS %d %d %d %s %s" % (ns, p, m, dt, " ".join(A + B + C + D))
    if k == "R":
        return "R %d" % t[1]
    if k in AUG:
        return flatten(t[1]) + " " + flatten(t[2]) + " " + AUG[k]
    if k == "neg":
        return flatten(t[1]) + " neg"
    if k == "pow":
        return flatten(t[2]) + " pow %d" % t[1]
    if k == "fb":
        return flatten(t[3]) + " " + flatten(t[4]) + " fb %s 0" % t[1]
    if k == "sel":
        return flatten(t[3]) + " sel %d %s %d %s" % (
            len(t[1]), " ".join(map(str, t[1])), len(t[2]), " ".join(map(str, t[2])))
    if k in BIN:
        return flatten(t[1]) + " " + flatten(t[2]) + " " + k
    raise ValueError(k)


def leaves(t, acc=None):
    acc = [] if acc is None else acc
    if t[0] in LEAVES:
        acc.append(t)
    for i in children(t):
        leaves(t[i], acc)
    return acc


def ops_in(t, acc=None):
    acc = [] if acc is None else acc
    if t[0] not in LEAVES:
        acc.append(t[0] if t[0] != "pow" else ("pow" if t[1] >= 0 else "pow-"))
    for i in children(t):
        ops_in(t[i], acc)
    return acc


def size(t):
    return 1 + sum(size(t[i]) for i in children(t))


def xcost(t):
    """rough number of leaf-entry reads per result entry when the whole tree is evaluated without
    tabulating intermediates (what the driver's `frdtree` cross-check does)"""
    k = t[0]
    if k in LEAVES:
        return 1
    f = 600 if k == "fb" else 3 if k in ("mul", "imul") else 3 ** min(abs(t[1]), 9) if k == "pow" else 1
    return f * sum(xcost(t[i]) for i in children(t))


def tf_left_div(t):
    """the tree contains `TransferFunction / x`"""
    if t[0] in ("div", "idiv") and t[1][0] == "LT":
        return True
    return any(tf_left_div(t[i]) for i in children(t))


def inexact_divisor(t):
    """some divisor of the tree is itself computed with rounding (feedback, division, an LTI
    response): where its exact value is 0 the floating-point value is a rounding residue, so the
    implementation cannot be required to notice the division by zero"""
    def rounded(x):
        return any(o in ("div", "idiv", "fb", "pow-") for o in ops_in(x)) or \
            any(l[0] in ("LT", "LS") for l in leaves(x))
    k = t[0]
    if k in ("div", "idiv") and rounded(t[2]):
        return True
    if k == "pow" and t[1] < 0 and rounded(t[2]):
        return True
    return any(inexact_divisor(t[i]) for i in children(t))


def dt_value(tokn):
    if tokn == "N":
        return None
    if tokn == "T":
        return True
    if tokn == "C":
        return 0
    return float(Fraction(tokn[1:]))


def grid_kind(t):
    """sorted | unsorted | single, over the FRD leaves of the tree"""
    kinds = set()
    for l in leaves(t):
        if l[0] == "F":
            ws = [Fraction(x) for x in l[5]]
            if len(ws) == 1:
                kinds.add("single")
            elif any(a >= b for a, b in zip(ws, ws[1:])):
                kinds.add("unsorted")
            else:
                kinds.add("sorted")
    for k in ("unsorted", "single", "sorted"):
        if k in kinds:
            return k
    return "none"


def expj_table(t):
    """NumPy's exp(1j*omega*dt) for every discrete LTI leaf on every grid of the tree, computed the
    way `_convert_to_frd` computes it (external routine: its values are given to the model)."""
    return expj_from_leaves(leaves(t))


def expj_from_leaves(ls):
    hs = set()
    for l in ls:
        if l[0] in ("LT", "LS"):
            dt = l[3] if l[0] == "LT" else l[4]
            if dt == "T":
                hs.add(("1", True))
            elif dt.startswith("D"):
                hs.add((dt[1:], float(Fraction(dt[1:]))))
    if not hs:
        return []
    ws = []
    for l in ls:
        if l[0] == "F":
            for w in l[5]:
                if w not in ws:
                    ws.append(w)
    out = []
    for (htok, h) in sorted(hs, key=str):
        for w in ws:
            z = np.exp(1j * np.array([float(Fraction(w))]) * h)[0]
            out.append("%s %s %s %s" % (htok, w, tok(fr(z.real)), tok(fr(z.imag))))
    return out


def num_value(re_, im_, kind):
    re_, im_ = Fraction(re_), Fraction(im_)
    if kind == "int":
        return int(re_)
    if kind == "npint":
        return np.int64(int(re_))
    if kind == "npfloat":
        return np.float64(float(re_))
    if kind == "complex":
        return complex(float(re_), float(im_))
    if kind == "npcomplex":
        return np.complex128(complex(float(re_), float(im_)))
    return float(re_)


def build_frd(t, omega=None, keep=None):
    """`omega`: a caller-owned frequency array shared by several objects; `keep`: list that
    receives (user array, pristine copy) for every array handed to the constructor"""
    _, p, m, sm, dt, ws, data = t
    n = len(ws)
    arr = np.zeros((p, m, n), dtype=complex)
    it = iter(data)
    for k in range(n):
        for i in range(p):
            for j in range(m):
                a, b = next(it)
                arr[i, j, k] = complex(float(Fraction(a)), float(Fraction(b)))
    if omega is None:
        omega = np.array([float(Fraction(w)) for w in ws])
    kw = {"smooth": True} if sm else {}
    if p == 1 and m == 1 and n % 2 == 0:
        arr = arr[0, 0, :]          # the 1-D constructor form
    if keep is not None:
        keep.append((arr, arr.copy()))
    if dt == "C":
        return ct.frd(arr, omega, **kw)
    return ct.frd(arr, omega, dt_value(dt), **kw)


def mat(vals, r, c):
    return np.array([float(Fraction(v)) for v in vals]).reshape(r, c)


class NonFinite(Exception):
    """an intermediate FRD holds inf/nan (NumPy's answer to a division by zero on the grid)"""


class SkipStep(Exception):
    """the step names an object that does not exist (the step that would have made it raised)"""


def refs_in(t, acc=None):
    acc = [] if acc is None else acc
    if t[0] == "R":
        acc.append(t[1])
    for i in children(t):
        refs_in(t[i], acc)
    return acc


def run_tree(t, env=None):
    r = run_node(t, env)
    if isinstance(r, ct.FrequencyResponseData) and not np.all(np.isfinite(r.frdata)):
        # later operators can hide it again (x ** 0, indexing), the model reports the division
        raise NonFinite()
    return r


def run_node(t, env=None):
    k = t[0]
    if k == "R":
        if env is None or env[t[1]] is None:
            raise SkipStep()
        return env[t[1]]
    if k == "F":
        return build_frd(t)
    if k == "S":
        return num_value(t[1], t[2], t[3])
    if k == "A":
        vals = [Fraction(x) for x in t[3]]
        if t[4] == "int" and all(v.denominator == 1 for v in vals):
            return np.array([int(v) for v in vals]).reshape(t[1], t[2])
        return np.array([float(v) for v in vals]).reshape(t[1], t[2])
    if k == "LT":
        _, p, m, dt, ents = t
        num = [[[float(Fraction(x)) for x in ents[i * m + j][0]] for j in range(m)] for i in range(p)]
        den = [[[float(Fraction(x)) for x in ents[i * m + j][1]] for j in range(m)] for i in range(p)]
        return ct.TransferFunction(num, den, dt_value(dt))
    if k == "LS":
        _, ns, p, m, dt, A, B, C, D = t
        return ct.StateSpace(mat(A, ns, ns), mat(B, ns, m), mat(C, p, ns), mat(D, p, m), dt_value(dt))
    if k == "neg":
        return -run_tree(t[1], env)
    if k == "pow":
        return run_tree(t[2], env) ** t[1]
    if k == "fb":
        a, b = run_tree(t[3], env), run_tree(t[4], env)
        s = Fraction(t[1])
        sign = int(s) if s.denominator == 1 else float(s)
        if t[2] == "func":
            return ct.feedback(a, b, sign)
        return a.feedback(b, sign)
    if k == "sel":
        return run_tree(t[3], env)[t[1], t[2]]
    a, b = run_tree(t[1], env), run_tree(t[2], env)
    if k == "iadd":
        a += b
        return a
    if k == "isub":
        a -= b
        return a
    if k == "imul":
        a *= b
        return a
    if k == "idiv":
        a /= b
        return a
    if k == "add":
        return a + b
    if k == "sub":
        return a - b
    if k == "mul":
        return a * b
    if k == "div":
        return a / b
    if k == "append":
        return a.append(b)
    raise ValueError(k)


def ctok(z):
    return [tok(fr(z.real)), tok(fr(z.imag))]


def canon_frd(r):
    p, m, n = r.frdata.shape
    if (p, m) != (r.noutputs, r.ninputs) or n != len(r.omega):
        return {"ok": {"type": "inconsistent", "p": p, "m": m, "n": n, "noutputs": r.noutputs,
                       "ninputs": r.ninputs, "nomega": len(r.omega)}}
    data = []
    for k in range(n):
        for i in range(p):
            for j in range(m):
                data.append(ctok(complex(r.frdata[i, j, k])))
    return {"ok": {"type": "frd", "n": n, "p": p, "m": m,
                   "smooth": int(r._ifunc is not None),
                   "omega": [tok(fr(w)) for w in r.omega], "data": data}}


def classify_exc(e):
    msg = str(e)
    if isinstance(e, ZeroDivisionError):
        return "zeroDen"
    if isinstance(e, np.linalg.LinAlgError):
        return "illPosed"
    if isinstance(e, NotImplementedError):
        return "notImplemented"
    if isinstance(e, TypeError):
        return "notImplemented"
    if isinstance(e, IndexError):
        return "indexRange"
    if isinstance(e, ValueError):
        if "not all frequencies" in msg:
            return "missing"
        return "shape"
    return type(e).__name__


def norm_msg(msg):
    return re.sub(r"[0-9]+", "#", msg.strip())[:70]



# ---- histories --------------------------------------------------------------
def freeze(x):
    """everything the property lets an operator call READ of an operand, as comparable bytes:
    [(component name, value)...]"""
    if isinstance(x, ct.FrequencyResponseData):
        return [("frdata", (x.frdata.shape, str(x.frdata.dtype), x.frdata.tobytes())),
                ("omega", (x.omega.shape, str(x.omega.dtype), x.omega.tobytes())),
                ("smooth", x._ifunc is not None),
                ("shape", (x.noutputs, x.ninputs))]
    if isinstance(x, ct.TransferFunction):
        def cells(a):
            return tuple(tuple((np.asarray(c).dtype.str, np.asarray(c).tobytes()) for c in row) for row in a)
        return [("num", cells(x.num_array if hasattr(x, "num_array") else x.num)),
                ("den", cells(x.den_array if hasattr(x, "den_array") else x.den)),
                ("shape", (x.noutputs, x.ninputs))]
    if isinstance(x, ct.StateSpace):
        return [(nm, (np.asarray(getattr(x, nm)).shape, np.asarray(getattr(x, nm)).tobytes()))
                for nm in ("A", "B", "C", "D")] + [("shape", (x.noutputs, x.ninputs))]
    if isinstance(x, np.ndarray):
        return [("array", (x.shape, str(x.dtype), x.tobytes()))]
    return [("scalar", (type(x).__name__, repr(x)))]


def first_change(before, now):
    for (nm, a), (_, b) in zip(before, now):
        if a != b:
            return nm
    return None


def resolve(t, objs, steps, depth=0):
    """the step's tree with every object name replaced by what made the object: the leaf of a
    created object, the (resolved) tree of the step that returned it"""
    if t[0] == "R":
        i = t[1]
        if i < len(objs):
            l = objs[i]["leaf"]
            if objs[i].get("copy_of") is not None:      # FRD(obj): same data, no interpolation
                l = ["F", l[1], l[2], 0] + list(l[4:])
            return l
        return resolve(steps[i - len(objs)]["tree"], objs, steps, depth + 1)
    if t[0] in LEAVES:
        return t
    t2 = list(t)
    for i in children(t):
        t2[i] = resolve(t[i], objs, steps, depth)
    return t2


def deps_of(j, h, memo):
    """indices of the steps whose results step j (transitively) reads"""
    if j not in memo:
        memo[j] = set()
        nobj = len(h["objs"])
        for i in refs_in(h["steps"][j]["tree"]):
            if i >= nobj:
                memo[j] |= {i - nobj} | deps_of(i - nobj, h, memo)
    return memo[j]


def map_tree(t, f):
    """rebuild with f applied to every leaf"""
    if t[0] in LEAVES:
        return f(t)
    t2 = list(t)
    for i in children(t):
        t2[i] = map_tree(t[i], f)
    return t2


def canon_step(sp):
    t = sp["tree"]

    def show(t):
        k = t[0]
        if k == "R":
            return "obj%d" % t[1]
        if k in LEAVES:
            return {"F": "frd", "S": "scalar", "A": "array", "LT": "tf", "LS": "ss"}[k]
        if k == "pow":
            return "%s**%d" % (show(t[2]), t[1])
        if k == "fb":
            return "feedback(%s, %s, %s)" % (show(t[3]), show(t[4]), t[1])
        if k == "sel":
            return "%s[%s,%s]" % (show(t[3]), t[1], t[2])
        if k == "neg":
            return "-" + show(t[1])
        return "%s(%s, %s)" % (k, show(t[1]), show(t[2]))
    return show(t) + (".eval" if sp.get("eval") else "")


class C09(Family):
    prop = "C09"
    extra_modules = ["CtrlVerif.Props.C09Tree",     # tree theorem over run-time shapes
                     "CtrlVerif.Props.C09Hist",     # histories over live objects
                     # source-text tie (core/py2lean_frd.py): Generated/FRD*.lean = Model/FRDDyn.lean, per method
                     "CtrlVerif.Props.C09GenConvert", "CtrlVerif.Props.C09GenBasic", "CtrlVerif.Props.C09GenMul",
                     "CtrlVerif.Props.C09GenAdd", "CtrlVerif.Props.C09GenDiv", "CtrlVerif.Props.C09GenPow",
                     "CtrlVerif.Props.C09GenFeedback", "CtrlVerif.Props.C09GenIndex", "CtrlVerif.Props.C09Gen"]

    def pre_build(self):
        import os
        from core import py2lean_frd, leanproj
        problems, self.gen_info = py2lean_frd.regenerate(os.environ.get("VERIF_REPO") or "/repo", leanproj.LEAN)
        return problems
    externals = ["numpy.linalg.inv (exact counterpart det^-1 * adjugate in the model, validated by the same runs)",
                 "numpy.exp(1j*omega*dt) for discrete-time LTI operands (values supplied to the model)",
                 "scipy.interpolate.splprep/splev (only its interpolation property at the knots is used)"]
    assumptions = [
        "IEEE arithmetic is exact on the generated Gaussian-integer/dyadic data for + - * append neg "
        "index while every intermediate stays below 2^24 (the model reports the largest bit length); "
        "otherwise values are compared to a relative tolerance of 1e-9 (1e-5 when the model's "
        "conditioning proxy max|entry|/min|nonzero entry| over all intermediates exceeds 2^12)",
        "timebases are not compared (C05); all operands of one tree share a timebase",
        "evaluation of an interpolating FRD between grid points is outside the claim",
        "histories: an operator call (also eval / __call__) must leave every FRD, array, TransferFunction and "
        "StateSpace object it is given bit-identical (frdata, omega, interpolation flag, shape; num/den; "
        "A,B,C,D); `x op= y` is only exercised on a temporary x, so an in-place __iadd__ would not be an alarm"]
    rule = ("random expression trees (depth <= 3 quick, <= 4 thorough) over FRD leaves of shapes {1,2,3}^2 on "
            "grids of 1-6 rational frequencies with Gaussian-integer/dyadic data, operands FRD / "
            "TransferFunction / StateSpace (continuous and discrete) / Python and NumPy real and complex "
            "scalars / arrays on either side, feedback with both signs through the method and "
            "control.feedback, eval/__call__ requests in permuted order with repeats and missing "
            "frequencies, plus streams for unsorted grids, grid mismatch, singular loops and zero "
            "divisors; plus HISTORIES (160 quick / 1600 thorough): 3-13 live objects made once (FRD objects of "
            "related shapes sharing one caller-owned omega array, copy-constructed FRDs, arrays, TF/SS systems) "
            "and 3-7 operator calls on them - the same object on either side, on both sides of one call, as "
            "feedback path with either sign, calls repeated verbatim or with another sign, results of earlier "
            "calls as operands, eval requests and op= on temporaries in between - every step compared with "
            "the model and every live object (and constructor argument) byte-compared with its creation "
            "snapshot after every call; a case is non-trivial when it has an FRD leaf with non-constant data, at least one "
            "binary operator or feedback or an eval request, and the model result is not an error (a history: "
            "some object is named at least twice and a call with a binary operator or feedback returns); "
            "distinct = distinct canonical serialisation")

    # ---- generation -------------------------------------------------------
    POOL = ["1/4", "1/2", "1", "3/2", "2", "3", "4", "5", "8", "10"]

    def rgrid(self, rng, n=None):
        n = n or rng.choice([1, 2, 2, 3, 3, 4, 5, 6])
        ws = rng.sample(self.POOL, n)
        ws.sort(key=Fraction)
        return ws

    def rc(self, rng, dyadic=False):
        v = Fraction(rng.randint(-3, 3))
        if dyadic and rng.random() < 0.3:
            v = v / 2
        return tok(v)

    def frd_leaf(self, rng, shape, st):
        p, m = shape
        pool = st.get("pool")
        if pool and pool.get(shape) and rng.random() < 0.75:
            return ["R", rng.choice(pool[shape])]        # a live object of the history
        ws = st["grid"]
        dy = rng.random() < 0.3
        data = []
        for _ in range(len(ws) * p * m):
            if rng.random() < 0.08:
                data.append(["0", "0"])
            elif rng.random() < 0.2:
                data.append([self.rc(rng, dy), "0"])
            else:
                data.append([self.rc(rng, dy), self.rc(rng, dy)])
        sm = 1 if (st.get("smooth_ok") and len(ws) >= 2 and rng.random() < 0.15) else 0
        return ["F", p, m, sm, st["dt"], list(ws), data]

    def scalar(self, rng, nonzero=False):
        kind = rng.choice(["int", "float", "complex", "npfloat", "npint", "npcomplex"])
        vals = [-3, -2, -1, 1, 2, 3] + ([] if nonzero else [0])
        re_ = rng.choice(vals)
        im_ = rng.choice([-2, -1, 1, 2, 0]) if kind in ("complex", "npcomplex") else 0
        if kind in ("float", "npfloat") and rng.random() < 0.3:
            return ["S", tok(Fraction(re_, 2)), "0", kind]
        return ["S", str(re_), str(im_), kind]

    def array(self, rng, shape):
        p, m = shape
        return ["A", p, m, [str(rng.randint(-3, 3)) for _ in range(p * m)], rng.choice(["int", "float"])]

    def lti(self, rng, shape, st):
        p, m = shape
        dt = st["ltidt"]
        if rng.random() < 0.5:
            ents = []
            for _ in range(p * m):
                dn = rng.choice([0, 1, 1, 2])
                nn = rng.randint(0, dn)
                num = [str(rng.randint(-3, 3)) for _ in range(nn + 1)]
                # denominators with positive coefficients: no roots on the imaginary axis for
                # degree <= 2; discrete case: |leading| dominates so no root on the unit circle
                if dt in ("C", "N"):
                    den = [str(rng.randint(1, 3)) for _ in range(dn + 1)]
                else:
                    den = ["4"] + [str(rng.randint(-1, 1)) for _ in range(dn)]
                ents.append([num, den])
            return ["LT", p, m, dt, ents]
        ns = rng.choice([0, 1, 1, 2])
        if st.get("lti_cheap") and p * m > 4:
            ns = min(ns, 1)      # (histories) the model's 3x3 response of a 2-state system costs seconds
        if dt in ("C", "N"):
            # A = -(L L^T + I)-like: negative definite symmetric part -> no imaginary-axis eigenvalues
            A = [[0] * ns for _ in range(ns)]
            for i in range(ns):
                A[i][i] = -rng.randint(1, 3)
            if ns == 2:
                c = rng.randint(-1, 1)
                A[0][1], A[1][0] = c, -c
            Af = [str(x) for row in A for x in row]
        else:
            # small entries: spectral radius < 1
            A = [[Fraction(0)] * ns for _ in range(ns)]
            for i in range(ns):
                A[i][i] = Fraction(rng.randint(-1, 1), 2)
            if ns == 2:
                A[0][1] = Fraction(rng.randint(-1, 1), 4)
            Af = [tok(x) for row in A for x in row]
        B = [str(rng.randint(-2, 2)) for _ in range(ns * m)]
        C = [str(rng.randint(-2, 2)) for _ in range(p * ns)]
        D = [str(rng.randint(-2, 2)) for _ in range(p * m)]
        return ["LS", ns, p, m, dt, Af, B, C, D]

    def rshape(self, rng):
        return (rng.choice([1, 1, 2, 2, 3]), rng.choice([1, 1, 2, 2, 3]))

    def other(self, rng, d, shape, st, kinds="FLA"):
        """an operand of the given shape: FRD subtree, LTI, or array"""
        r = rng.random()
        if "L" in kinds and r < 0.22:
            return self.pooled(rng, st, "L", shape) or self.lti(rng, shape, st)
        if "A" in kinds and r < 0.32:
            return self.pooled(rng, st, "A", shape) or self.array(rng, shape)
        return self.gen(rng, d, shape, st)

    def pooled(self, rng, st, kind, shape):
        """a live non-FRD object (array / LTI system) of the history, when there is one"""
        have = (st.get("opool") or {}).get((kind, shape))
        if have and rng.random() < 0.7:
            return ["R", rng.choice(have)]
        return None

    def gen(self, rng, depth, shape, st):
        """FRD-valued tree of the requested shape (mostly valid)"""
        p, m = shape
        if depth <= 0 or rng.random() < 0.2:
            return self.frd_leaf(rng, shape, st)
        ops = ["add", "add", "sub", "mul", "mul", "mul", "neg", "div", "sel", "fb", "fb"]
        if p == m:
            ops += ["pow"]
        if p == 1 and m == 1:
            ops += ["div", "pow"]
        if p >= 2 and m >= 2:
            ops += ["append", "append"]
        op = rng.choice(ops)
        d = depth - 1
        bad = rng.random() < 0.04
        if op in ("add", "sub"):
            r = rng.random()
            osh = self.rshape(rng) if bad else shape
            if r < 0.5:
                a, b = self.gen(rng, d, shape, st), self.other(rng, d, osh, st)
            elif r < 0.6:
                a, b = self.other(rng, d, osh, st, "LA"), self.gen(rng, d, shape, st)
            elif r < 0.7:
                a, b = self.gen(rng, d, shape, st), self.other(rng, d, (1, 1), st, "FL")
            elif r < 0.8:
                a, b = self.gen(rng, d, (1, 1), st), self.other(rng, d, shape, st, "F")
            elif r < 0.9:
                a, b = self.gen(rng, d, shape, st), self.scalar(rng)
            else:
                a, b = self.scalar(rng), self.gen(rng, d, shape, st)
            return [op, a, b]
        if op == "mul":
            k = rng.choice([1, 2, 2, 3])
            k2 = rng.choice([1, 2, 3]) if bad else k
            r = rng.random()
            if r < 0.45:
                return [op, self.gen(rng, d, (p, k), st), self.other(rng, d, (k2, m), st)]
            if r < 0.6:
                return [op, self.other(rng, d, (p, k), st, "LA"), self.gen(rng, d, (k2, m), st)]
            if r < 0.68:
                return [op, self.gen(rng, d, shape, st), self.other(rng, d, (1, 1), st, "FL")]
            if r < 0.76:
                return [op, self.other(rng, d, (1, 1), st, "FL"), self.gen(rng, d, shape, st)]
            if r < 0.88:
                return [op, self.gen(rng, d, shape, st), self.scalar(rng)]
            return [op, self.scalar(rng), self.gen(rng, d, shape, st)]
        if op == "neg":
            return [op, self.gen(rng, d, shape, st)]
        if op == "div":
            r = rng.random()
            if r < 0.45:
                return [op, self.gen(rng, d, shape, st), self.other(rng, min(d, 1), (1, 1), st, "FL")]
            if r < 0.65:
                return [op, self.gen(rng, d, shape, st), self.scalar(rng, nonzero=rng.random() < 0.9)]
            if r < 0.8 and shape == (1, 1):
                return [op, self.scalar(rng), self.gen(rng, d, shape, st)]
            if r < 0.9 and shape == (1, 1):
                x = self.lti(rng, (1, 1), st)
                if x[0] == "LT" and not st.get("tf_left_div"):
                    x = self.array(rng, (1, 1))
                return [op, x, self.gen(rng, d, shape, st)]
            if r < 0.95:
                return [op, self.array(rng, shape), self.gen(rng, min(d, 1), (1, 1), st)]
            return [op, self.gen(rng, d, shape, st), self.gen(rng, min(d, 1), self.rshape(rng), st)]
        if op == "pow":
            if shape == (1, 1):
                k = rng.choice([-2, -1, -1, 0, 1, 2, 3])
            else:
                k = rng.choice([0, 1, 2, 2, 3, -1])
            return [op, k, self.gen(rng, min(d, 1), shape, st)]
        if op == "fb":
            sign = rng.choice(["-1", "-1", "1", "1", "1", "2", "-1/2"])
            via = rng.choice(["method", "func"])
            hs = self.rshape(rng) if bad else (m, p)
            r = rng.random()
            if r < 0.12 and p == 1 and m == 1:
                # scalar / array forward path through control.feedback
                x = self.scalar(rng) if rng.random() < 0.5 else self.array(rng, (1, 1))
                if x[0] == "S" and x[3] in ("complex", "npcomplex"):
                    x = ["S", x[1], "0", "float"]
                return [op, sign, "func", x, self.gen(rng, d, (1, 1), st)]
            if r < 0.2 and p == 1 and m == 1:
                h = self.scalar(rng)
            else:
                h = self.other(rng, min(d, 1), hs, st)
            return [op, sign, via, self.gen(rng, d, shape, st), h]
        if op == "sel":
            P, M = p + rng.choice([0, 1]), m + rng.choice([0, 1])
            rows = rng.sample(range(P), p)
            cols = rng.sample(range(M), m)
            return [op, rows, cols, self.gen(rng, d, (P, M), st)]
        if op == "append":
            p1, m1 = rng.randint(1, p - 1), rng.randint(1, m - 1)
            b = self.other(rng, d, (p - p1, m - m1), st, "FL")
            return [op, self.gen(rng, d, (p1, m1), st), b]
        raise AssertionError(op)

    def new_state(self, rng, grid=None):
        r = rng.random()
        if r < 0.6:
            dt, ltidt = "C", rng.choice(["C", "C", "N"])
        elif r < 0.8:
            dt = ltidt = DT01
        elif r < 0.9:
            dt = ltidt = "D1/4"
        else:
            dt = ltidt = "T"
        return {"grid": grid or self.rgrid(rng), "dt": dt, "ltidt": ltidt, "smooth_ok": True}

    def eval_request(self, rng, grid, missing=None):
        ws = [rng.choice(grid) for _ in range(rng.choice([1, 1, 2, 3, 4]))]
        if rng.random() < 0.4 and len(grid) >= 2:
            ws = rng.sample(grid, rng.randint(2, len(grid)))
            ws.sort(key=Fraction, reverse=rng.random() < 0.6)
        if missing is None:
            missing = rng.random() < 0.25
        if missing:
            if rng.random() < 0.5:
                # a request next to a stored frequency (2^-40 .. 2^-30 away, exactly a binary64 number): it
                # is NOT stored, eval must refuse it like any other missing frequency (seeded C09-m9)
                w = Fraction(rng.choice(grid))
                near = w + rng.choice([1, -1]) * Fraction(1, 2 ** rng.choice([30, 34, 40]))
                ws[rng.randrange(len(ws))] = tok(near) if near > 0 and tok(near) not in grid else "7"
            else:
                ws[rng.randrange(len(ws))] = rng.choice(["7", "1/8", "9/2", "0"])
        return {"ws": ws, "via": rng.choice(["eval", "call"]),
                "scalar": len(ws) == 1 and rng.random() < 0.5}

    def special(self, rng):
        r = rng.random()
        st = self.new_state(rng)
        st["smooth_ok"] = False
        if r < 0.08:
            # two stored frequencies 2^-40 .. 2^-30 apart (distinct binary64 numbers): every request must
            # return the data stored at exactly that frequency, never its neighbour's (seeded C09-m9)
            g = self.rgrid(rng, rng.choice([2, 3, 4]))
            k = rng.randrange(len(g))
            twin = tok(Fraction(g[k]) + Fraction(1, 2 ** rng.choice([30, 34, 40])))
            if twin not in g:
                g = g[:k + 1] + [twin] + g[k + 1:]
            st["grid"] = g
            t = self.frd_leaf(rng, self.rshape(rng), st)
            ws = [g[k + 1], g[k]] if rng.random() < 0.5 else [g[k + 1]]
            return {"tree": t, "eval": {"ws": ws, "via": rng.choice(["eval", "call"]), "scalar": False}}
        if r < 0.3:
            # unsorted grid
            g = self.rgrid(rng, rng.choice([2, 3, 3, 4]))
            while all(Fraction(a) < Fraction(b) for a, b in zip(g, g[1:])):
                rng.shuffle(g)
            st["grid"] = g
            t = self.gen(rng, rng.choice([1, 1, 2]), self.rshape(rng), st)
            ev = self.eval_request(rng, g) if rng.random() < 0.3 else None
            return {"tree": t, "eval": ev}
        if r < 0.45:
            # grid mismatch between two FRD operands
            st2 = dict(st)
            st2["grid"] = self.rgrid(rng, len(st["grid"]) if rng.random() < 0.5 else None)
            sh = self.rshape(rng)
            op = rng.choice(["add", "sub", "mul", "div", "fb", "append"])
            a = self.frd_leaf(rng, sh, st)
            if op == "fb":
                return {"tree": ["fb", "-1", "method", a, self.frd_leaf(rng, (sh[1], sh[0]), st2)], "eval": None}
            if op == "div":
                return {"tree": ["div", a, self.frd_leaf(rng, (1, 1), st2)], "eval": None}
            if op == "mul":
                return {"tree": ["mul", a, self.frd_leaf(rng, (sh[1], sh[1]), st2)], "eval": None}
            return {"tree": [op, a, self.frd_leaf(rng, sh, st2)], "eval": None}
        if r < 0.6:
            # singular loop: H = sign / G at one grid point (SISO), or G = I, H = sign I (MIMO)
            sign = rng.choice(["1", "-1"])
            if rng.random() < 0.6:
                g = self.frd_leaf(rng, (1, 1), st)
                h = self.frd_leaf(rng, (1, 1), st)
                k = rng.randrange(len(st["grid"]))
                g[6][k] = [rng.choice(["1", "2", "-1"]), "0"]
                h[6][k] = [tok(Fraction(sign) / Fraction(g[6][k][0])), "0"]
                return {"tree": ["fb", sign, rng.choice(["method", "func"]), g, h], "eval": None}
            n = len(st["grid"])
            eye = [["1", "0"] if i == j else ["0", "0"] for _ in range(n) for i in range(2) for j in range(2)]
            seye = [[sign, "0"] if i == j else ["0", "0"] for _ in range(n) for i in range(2) for j in range(2)]
            return {"tree": ["fb", sign, "method", ["F", 2, 2, 0, st["dt"], st["grid"], eye],
                             ["F", 2, 2, 0, st["dt"], st["grid"], seye]], "eval": None}
        if r < 0.75:
            # zero divisor
            g = self.frd_leaf(rng, self.rshape(rng) if rng.random() < 0.5 else (1, 1), st)
            h = self.frd_leaf(rng, (1, 1), st)
            h[6][rng.randrange(len(st["grid"]))] = ["0", "0"]
            c = rng.random()
            if c < 0.5:
                return {"tree": ["div", g, h], "eval": None}
            if c < 0.7:
                return {"tree": ["pow", -1, h], "eval": None}
            if c < 0.85:
                return {"tree": ["div", self.scalar(rng, True), h], "eval": None}
            z = ["S", "0", "0", rng.choice(["int", "float", "npfloat", "complex"])]
            return {"tree": ["div", g, z], "eval": None}
        if r < 0.9:
            # MIMO powers and scalar / MIMO
            sh = rng.choice([(2, 2), (2, 2), (3, 3), (2, 3)])
            g = self.frd_leaf(rng, sh, st)
            if rng.random() < 0.7:
                return {"tree": ["pow", rng.choice([0, 1, 2, 3, -1]), g], "eval": None}
            return {"tree": ["div", self.scalar(rng, True), g], "eval": None}
        # TransferFunction / FRD
        st["tf_left_div"] = True
        x = self.lti(rng, (1, 1), st)
        return {"tree": ["div", x, self.frd_leaf(rng, (1, 1), st)], "eval": None}

    def history(self, rng, tier):
        """objects made once, then 3-7 operator calls on the live objects: the same object on
        either side / on both sides / as feedback path with either sign, calls repeated verbatim,
        results of earlier calls as operands, eval requests and `op=` in between"""
        st0 = self.new_state(rng, grid=self.rgrid(rng, rng.choice([2, 2, 3, 3, 4, 5])))
        st0["lti_cheap"] = True
        p, m = self.rshape(rng)
        shapes = [(p, m), (m, p), (1, 1)]
        if rng.random() < 0.5:
            shapes.append((p, p))
        if rng.random() < 0.5:
            shapes.append((m, m))
        if rng.random() < 0.3:
            shapes.append(self.rshape(rng))
        objs, pool, opool = [], {}, {}
        for sh in shapes:
            for _ in range(rng.choice([1, 1, 2]) if len(objs) < 7 else 1):
                pool.setdefault(sh, []).append(len(objs))
                objs.append({"leaf": self.frd_leaf(rng, sh, st0), "copy_of": None})
        if rng.random() < 0.3:
            i = rng.randrange(len(objs))
            l = objs[i]["leaf"]
            pool[(l[1], l[2])].append(len(objs))
            objs.append({"leaf": list(l), "copy_of": i})
        for sh in ((m, p), (1, 1), (p, m)):
            if rng.random() < 0.4:
                opool.setdefault(("A", sh), []).append(len(objs))
                objs.append({"leaf": self.array(rng, sh), "copy_of": None})
            if rng.random() < 0.3:
                opool.setdefault(("L", sh), []).append(len(objs))
                objs.append({"leaf": self.lti(rng, sh, st0), "copy_of": None})
        st = dict(st0, pool=pool, opool=opool)
        nobj = len(objs)
        steps = []
        frds = lambda: [i for l in pool.values() for i in l]
        # one object that receives many calls with different arguments, one that is the argument of
        # many calls with different receivers (state kept on / written to either would show)
        hr, ha = rng.choice(pool[(p, m)]), rng.choice(pool[(m, p)])
        fbsign = lambda: rng.choice(["-1", "-1", "1", "1", "1", "2", "-1/2"])
        for j in range(rng.choice([3, 4, 4, 5, 6] if tier == "quick" else [3, 4, 5, 6, 7])):
            r = rng.random()
            plain = [k for k, sp in enumerate(steps) if not sp["eval"]]
            if plain and r < 0.15:
                k = rng.choice(plain)                     # the same call again
                steps.append({"tree": steps[k]["tree"], "eval": None, "shape": steps[k].get("shape")})
            elif plain and r < 0.22 and any(steps[k]["tree"][0] == "fb" for k in plain):
                k = rng.choice([k for k in plain if steps[k]["tree"][0] == "fb"])
                t = list(steps[k]["tree"])                # the same loop with another sign
                t[1] = rng.choice([x for x in ("1", "-1", "2", "-1/2") if x != t[1]])
                steps.append({"tree": t, "eval": None, "shape": steps[k].get("shape")})
            elif r < 0.5:
                k = rng.choice([1, 2, 3])
                c = rng.random()
                if c < 0.4:
                    t, sh = ["fb", fbsign(), rng.choice(["method", "func"]), ["R", hr],
                             self.other(rng, 0, (m, p), st)], (p, m)
                elif c < 0.6:
                    t, sh = ["mul", ["R", hr], self.other(rng, 0, (m, k), st)], (p, k)
                elif c < 0.7:
                    t, sh = ["mul", self.other(rng, 0, (k, p), st), ["R", hr]], (k, m)
                elif c < 0.9:
                    b = self.other(rng, 0, (p, m), st) if rng.random() < 0.7 else self.scalar(rng)
                    t, sh = [rng.choice(["add", "sub"]), ["R", hr], b], (p, m)
                else:
                    t, sh = ["div", ["R", hr], self.other(rng, 0, (1, 1), st, "FL")], (p, m)
                steps.append({"tree": t, "eval": None, "shape": sh})
            elif r < 0.62:
                k = rng.choice([1, 2, 3])
                c = rng.random()
                if c < 0.5:
                    t, sh = ["fb", fbsign(), rng.choice(["method", "func"]),
                             self.gen(rng, rng.choice([0, 0, 1]), (p, m), st), ["R", ha]], (p, m)
                elif c < 0.7:
                    t, sh = ["mul", self.other(rng, 0, (k, m), st), ["R", ha]], (k, p)
                elif c < 0.8:
                    t, sh = ["mul", ["R", ha], self.other(rng, 0, (p, k), st)], (m, k)
                else:
                    t, sh = [rng.choice(["add", "sub"]), self.other(rng, 0, (m, p), st), ["R", ha]], (m, p)
                steps.append({"tree": t, "eval": None, "shape": sh})
            elif r < 0.72:
                t = ["R", rng.choice(frds())] if rng.random() < 0.7 else \
                    self.gen(rng, 1, rng.choice(list(pool)), st)
                steps.append({"tree": t, "eval": self.eval_request(rng, st["grid"]), "shape": None})
            elif r < 0.8:
                sh = rng.choice(list(pool))               # x op= y on a temporary x
                op = rng.choice(["iadd", "isub", "imul", "idiv"] if sh == (1, 1) else ["iadd", "isub", "imul"])
                a = self.gen(rng, 1, sh, st)
                if a[0] == "R":
                    a = ["neg", a]
                if op == "imul":
                    b = self.other(rng, 0, (sh[1], sh[1]), st) if rng.random() < 0.7 else self.scalar(rng)
                elif op == "idiv":
                    b = self.other(rng, 0, (1, 1), st, "FL") if rng.random() < 0.6 else self.scalar(rng, True)
                else:
                    b = self.other(rng, 0, sh, st) if rng.random() < 0.7 else self.scalar(rng)
                steps.append({"tree": [op, a, b], "eval": None, "shape": sh})
            else:
                sh = rng.choice(list(pool))
                steps.append({"tree": self.gen(rng, rng.choice([1, 1, 2]), sh, st), "eval": None, "shape": sh})
            sh = steps[-1].pop("shape")
            if sh is not None:
                steps[-1]["shape"] = sh
            # later calls may use the result (its expected shape: the requested one)
            if not steps[-1]["eval"] and sh is not None and rng.random() < 0.6 and \
                    size(resolve(steps[-1]["tree"], objs, steps)) <= 14:
                pool.setdefault(tuple(sh), []).append(nobj + j)
        for sp in steps:
            sp.pop("shape", None)
        return {"hist": {"objs": objs, "steps": steps}}

    def generate(self, rng, tier):
        n = 1000 if tier == "quick" else 15000
        maxd = 3 if tier == "quick" else 4
        out = []
        for i in range(n):
            if i % 6 == 5:
                out.append(self.special(rng))
                continue
            st = self.new_state(rng)
            depth = rng.choice([1, 2, 2, 3]) if maxd == 3 else rng.choice([1, 2, 3, 3, 4])
            if i % 6 == 4:
                # eval stream: shallow tree, then a request
                t = self.gen(rng, rng.choice([0, 0, 1, 2]), self.rshape(rng), st)
                out.append({"tree": t, "eval": self.eval_request(rng, st["grid"])})
                continue
            out.append({"tree": self.gen(rng, depth, self.rshape(rng), st), "eval": None})
        # histories over live objects (after the trees: the tree stream of a seed is unchanged)
        for i in range(160 if tier == "quick" else 1600):
            out.append(self.history(rng, tier))
        return out

    def corpus(self):
        F = lambda data, ws=("1", "2", "3"), sm=0: ["F", 1, 1, sm, "C", list(ws), [list(d) for d in data]]
        g = F([("1", "1"), ("2", "0"), ("0", "3")])
        M = ["F", 2, 2, 0, "C", ["1", "2"],
             [[str(i), "1"] for i in (0, 2, 4, 6)] + [[str(i), "1"] for i in (1, 3, 5, 7)]]
        U = F([("0", "3"), ("0", "1"), ("0", "2")], ws=("3", "1", "2"))
        return [
            {"tree": ["fb", "1", "method", g, g], "eval": None},                # sign ignored
            {"tree": ["fb", "1", "func", M, M], "eval": None},
            {"tree": g, "eval": {"ws": ["3", "1"], "via": "eval", "scalar": False}},   # request order
            {"tree": g, "eval": {"ws": ["1", "1"], "via": "eval", "scalar": False}},   # repeated request
            {"tree": ["add", U, U], "eval": None},                               # caller's omega sorted in place
            {"tree": ["pow", 1, M], "eval": None},                               # M**1 != M
            {"tree": ["div", ["S", "2", "0", "int"], M], "eval": None},          # entrywise reciprocal
            {"tree": ["mul", M, ["sel", [1, 0], [0, 1], M]], "eval": None},      # non-commuting product
            # histories on live objects: the same feedback path twice, one object on both sides
            {"hist": {"objs": [{"leaf": g, "copy_of": None}, {"leaf": F([("1", "0"), ("0", "1"), ("1/2", "0")]),
                                                               "copy_of": None}],
                      "steps": [{"tree": ["fb", "1", "method", ["R", 0], ["R", 1]], "eval": None},
                                {"tree": ["fb", "1", "method", ["R", 0], ["R", 1]], "eval": None},
                                {"tree": ["fb", "-1", "func", ["R", 2], ["R", 1]], "eval": None}]}},
            {"hist": {"objs": [{"leaf": M, "copy_of": None}],
                      "steps": [{"tree": ["fb", "1", "method", ["R", 0], ["R", 0]], "eval": None},
                                {"tree": ["mul", ["R", 0], ["R", 0]], "eval": None},
                                {"tree": ["sub", ["R", 2], ["R", 0]], "eval": None}]}},
        ]

    # ---- execution ----------------------------------------------------------
    def hist_line(self, h):
        """one `frdhist` line: the objects, then the steps (flag T: also executed as a model
        `Step` by `stepE` — the function of the history theorems — and compared)"""
        objs = []
        for o in h["objs"]:
            l = o["leaf"]
            if o.get("copy_of") is not None:
                l = ["F", l[1], l[2], 0] + list(l[4:])
            objs.append(l)
        ls = list(objs)
        for sp in h["steps"]:
            ls += leaves(sp["tree"])
        tab = expj_from_leaves(ls)
        steps = []
        for sp in h["steps"]:
            ev = sp.get("eval")
            # (a loop around a wide LTI response is slow in the untabulated evaluator)
            wide = any(l[0] in ("LT", "LS") and l[1 if l[0] == "LT" else 2] * l[2 if l[0] == "LT" else 3] > 4
                       for l in leaves(resolve(sp["tree"], h["objs"], h["steps"])))
            f = "T" if not ev and xcost(sp["tree"]) <= 5000 and not (wide and "fb" in ops_in(sp["tree"])) else "N"
            x = f + " " + flatten(sp["tree"])
            if ev:
                x += " eval %d %s" % (len(ev["ws"]), " ".join(ev["ws"]))
            steps.append(x)
        return "frdhist X %d %s %d %s %s" % (len(tab), " ".join(tab), len(objs),
                                             " ".join(flatten(l) for l in objs), " ; ".join(steps))

    def line(self, case):
        if "hist" in case:
            return self.hist_line(case["hist"])
        tab = expj_table(case["tree"])
        ev = case.get("eval")
        # `frdtree` = `frd` + cross-check of the postfix interpreter against Expr.evalModel (the
        # evaluator of the tree theorem, Props/C09Tree.lean); same answer format
        fam = "frdtree" if not ev and xcost(case["tree"]) <= 5000 else "frd"
        s = "%s X %d %s %s" % (fam, len(tab), " ".join(tab), flatten(case["tree"]))
        if ev:
            s += " eval %d %s" % (len(ev["ws"]), " ".join(ev["ws"]))
        return s

    def impl_hist(self, h):
        """run the history on LIVE objects: every object is made once; after every call every
        object that exists (also the arrays handed to the constructors) must still hold the bytes
        it held when it was made"""
        keep, live, frozen = [], [], []
        omegas = {}
        try:
            for o in h["objs"]:
                l = o["leaf"]
                if o.get("copy_of") is not None:
                    x = ct.FrequencyResponseData(live[o["copy_of"]])
                elif l[0] == "F":
                    # one frequency vector for all objects on the grid, as a user would write it
                    w = omegas.setdefault(tuple(l[5]), np.array([float(Fraction(v)) for v in l[5]]))
                    if not any(w is k[0] for k in keep):
                        keep.append((w, w.copy()))
                    x = build_frd(l, omega=w, keep=keep)
                else:
                    x = run_node(l)
                live.append(x)
                frozen.append(freeze(x))
        except Exception as e:  # noqa
            return {"err": classify_exc(e), "exc": "%s: %s" % (type(e).__name__, str(e)[:200]), "stage": "build"}
        out = {"steps": [], "mutated": None}
        nobj = len(live)
        for j, sp in enumerate(h["steps"]):
            if any(live[i] is None for i in refs_in(sp["tree"])):
                out["steps"].append({"skip": True})
                live.append(None)
                frozen.append(None)
                continue
            res, r = self.impl_tree(sp["tree"], sp.get("eval"), live)
            out["steps"].append(res)
            # what the calls before left behind must not have been written to
            for i, (x, fz) in enumerate(zip(live, frozen)):
                if x is None:
                    continue
                try:
                    what = first_change(fz, freeze(x))
                except Exception as e:  # noqa  (the object cannot even be read any more)
                    what = "unreadable:" + type(e).__name__
                if what:
                    kind = h["objs"][i]["leaf"][0] if i < nobj else "result"
                    if i < nobj and h["objs"][i].get("copy_of") is not None:
                        kind = "copy"
                    out["mutated"] = {"step": j, "obj": i, "objkind": kind, "what": what}
                    break
            if out["mutated"] is None:
                for (u, u0) in keep:
                    if u.shape != u0.shape or u.tobytes() != u0.tobytes():
                        out["mutated"] = {"step": j, "obj": -1, "objkind": "user-array", "what": "array"}
                        break
            if out["mutated"] is not None:
                break
            ok = (sp.get("eval") is None and isinstance(r, ct.FrequencyResponseData)
                  and res.get("ok", {}).get("type") == "frd")
            live.append(r if ok else None)
            frozen.append(freeze(r) if ok else None)
        return out

    def impl(self, case):
        if "hist" in case:
            return self.impl_hist(case["hist"])
        return self.impl_tree(case["tree"], case.get("eval"))[0]

    def impl_tree(self, tree, ev, env=None):
        """(canonical result, the object returned)"""
        self._last = None
        try:
            res = self.impl_tree0(tree, ev, env)
        except SkipStep:
            return {"skip": True}, None
        return res, self._last

    def impl_tree0(self, tree, ev, env):
        try:
            r = run_tree(tree, env)
            self._last = r
            if ev is not None and isinstance(r, ct.FrequencyResponseData) and \
                    not np.all(np.isfinite(r.frdata)):
                return {"ok": {"type": "nonfinite"}}     # a division by zero somewhere on the grid
            if ev is not None and isinstance(r, ct.FrequencyResponseData) and \
                    r.frdata.shape[:2] != (r.noutputs, r.ninputs):
                return canon_frd(r)
            if ev is not None and isinstance(r, ct.FrequencyResponseData):
                ws = [float(Fraction(w)) for w in ev["ws"]]
                if ev["via"] == "call":
                    arg = 1j * ws[0] if ev["scalar"] else [1j * w for w in ws]
                    v = r(arg, squeeze=False)
                else:
                    arg = ws[0] if ev["scalar"] else ws
                    v = r.eval(arg, squeeze=False)
                v = np.asarray(v).reshape(r.noutputs, r.ninputs, -1)
                data = []
                for k in range(v.shape[2]):
                    for i in range(r.noutputs):
                        for j in range(r.ninputs):
                            data.append(ctok(complex(v[i, j, k])))
                return {"ok": {"type": "eval", "smooth": int(r._ifunc is not None), "k": v.shape[2],
                               "p": r.noutputs, "m": r.ninputs, "data": data}}
        except NonFinite:
            return {"ok": {"type": "nonfinite"}}
        except SkipStep:
            raise
        except Exception as e:  # noqa
            return {"err": classify_exc(e), "exc": "%s: %s" % (type(e).__name__, str(e)[:200])}
        try:
            if isinstance(r, ct.FrequencyResponseData):
                return canon_frd(r)
            return {"ok": {"type": "other", "repr": type(r).__name__}}
        except ValueError:
            return {"ok": {"type": "nonfinite"}}
        except Exception as e:  # noqa  (a result object that cannot even be read)
            return {"ok": {"type": "unreadable", "exc": "%s: %s" % (type(e).__name__, str(e)[:100])}}

    def parse_model(self, case, out):
        if "hist" in case:
            assert out.startswith("ok "), out[:80]
            parts = out[3:].split(" | ")
            assert len(parts) == len(case["hist"]["steps"]), out[:80]
            return {"steps": ["skip" if x.strip() == "skip" else self.parse_one(x.strip()) for x in parts]}
        return self.parse_one(out)

    def parse_one(self, out):
        if out.startswith("err "):
            return {"err": out.split()[1]}
        tk = Tokens(out)
        assert tk.next() == "ok"
        bits = int(tk.next().split("=")[1])
        lo2 = Fraction(tk.next().split("=")[1])
        hi2 = Fraction(tk.next().split("=")[1])
        extra = {"bits": bits, "lo2": tok(lo2), "hi2": tok(hi2)}
        kind = tk.next()
        if kind == "frd":
            n, p, m, sm = tk.nat(), tk.nat(), tk.nat(), tk.nat()
            om = [tk.next() for _ in range(n)]
            data = [[tk.next(), tk.next()] for _ in range(n * p * m)]
            return dict({"ok": {"type": "frd", "n": n, "p": p, "m": m, "smooth": sm, "omega": om,
                                "data": data}}, **extra)
        if kind == "eval":
            sm, k, p, m = tk.nat(), tk.nat(), tk.nat(), tk.nat()
            data = [[tk.next(), tk.next()] for _ in range(k * p * m)]
            return dict({"ok": {"type": "eval", "smooth": sm, "k": k, "p": p, "m": m, "data": data}}, **extra)
        if kind == "interp":
            p, m = tk.nat(), tk.nat()
            return dict({"ok": {"type": "interp", "p": p, "m": m}}, **extra)
        raise ValueError(out)

    # ---- comparison ----------------------------------------------------------
    def features(self, case, kind, impl, model=None):
        t = case["tree"]
        feat = {"kind": kind, "grid": grid_kind(t)}
        lk = sorted({l[0] for l in leaves(t)})
        feat["operands"] = "+".join(lk)
        if "err" in impl:
            feat["exc"] = impl["exc"].split(":")[0]
            feat["msg"] = norm_msg(impl["exc"].split(":", 1)[1])
        feat["ops"] = "+".join(sorted(set(ops_in(t)))) or "leaf"
        if case.get("eval"):
            feat["ops"] += "+eval"
        cause = self.cause(t, feat)
        if cause:
            feat["cause"] = cause
        return feat

    SPLINE_MSGS = ("Error on input data",
                   "Can't convert given type '<class 'numpy.ndarray'>' to FRD system.")

    def cause(self, t, feat):
        """recognised defect classes that are recorded as known findings (narrow: grid class x
        operand class x exact exception text)"""
        msg = feat.get("msg")
        non_frd = any(l[0] != "F" for l in leaves(t))
        promotes = any(o in ("add", "sub") for o in ops_in(t))     # np.ones((p, m)) * siso
        converts = non_frd or promotes
        if feat["kind"] == "raises" and feat.get("exc") == "TypeError" and \
                msg == "Can't convert given FRD to TransferFunction system." and tf_left_div(t):
            return "tf-truediv-frd"
        if feat["grid"] == "single" and converts and feat["kind"] == "raises" and \
                msg in ("can't smooth with only # frequency", self.SPLINE_MSGS[1]):
            return "single-frequency-grid-conversion"
        if feat["grid"] == "unsorted" and non_frd:
            if feat["kind"] in ("value", "omega", "eval-value", "eval-request-order"):
                return "unsorted-grid-conversion"
            if feat["kind"] == "raises" and msg in self.SPLINE_MSGS + (
                    "Frequency ranges of FRD do not match, conversion not implemented",):
                return "unsorted-grid-conversion"
        if feat["grid"] == "unsorted" and promotes and feat["kind"] == "raises" and \
                msg == self.SPLINE_MSGS[1]:
            return "unsorted-grid-conversion"
        return None

    def exact_regime(self, case, model):
        t = case["tree"]
        if model.get("bits", 99) > 24:
            return False
        if any(l[0] in ("LT", "LS") for l in leaves(t)):
            return False
        if any(l[0] == "F" and l[3] for l in leaves(t)) and case.get("eval"):
            return False
        return not any(o in ("div", "idiv", "fb", "pow-") for o in ops_in(t))

    def tolerance(self, case, model):
        lo2, hi2 = Fraction(model.get("lo2", "0")), Fraction(model.get("hi2", "0"))
        well = lo2 > 0 and hi2 <= lo2 * 2 ** 24 and hi2 <= 2 ** 24 and lo2 >= Fraction(1, 2 ** 24)
        return TAU if well else TAU_LOOSE

    def compare_data(self, case, a, b, model, count, width):
        """entrywise comparison of `count` matrices of `width` entries; returns None or (k, idx, err)"""
        ex = self.exact_regime(case, model)
        tau = self.tolerance(case, model)
        if b.get("smooth") and case.get("eval"):
            tau = max(tau, TAU_SPLINE)
        worst = Fraction(0)
        for k in range(count):
            blk_a = a["data"][k * width:(k + 1) * width]
            blk_b = b["data"][k * width:(k + 1) * width]
            zb = [(Fraction(x), Fraction(y)) for x, y in blk_b]
            scale = max([Fraction(1)] + [max(abs(x), abs(y)) for x, y in zb])
            for idx, ((xa, ya), (xb, yb)) in enumerate(zip(blk_a, zb)):
                xa, ya = Fraction(xa), Fraction(ya)
                if ex:
                    if xa != xb or ya != yb:
                        return (k, idx, "exact")
                else:
                    err = max(abs(xa - xb), abs(ya - yb)) / scale
                    worst = max(worst, err)
                    if err > tau:
                        return (k, idx, "tol %s" % float(err))
        self._worst = float(worst)
        return None

    def compare(self, case, impl, model):
        if "hist" in case:
            return self.compare_hist(case["hist"], impl, model)
        return self.compare_one(case, impl, model)

    def hist_sub(self, h, j, model):
        """step j as a stand-alone case (names resolved) and its model answer with the exactness /
        conditioning proxies of every step whose result it reads"""
        sp = h["steps"][j]
        sub = {"tree": resolve(sp["tree"], h["objs"], h["steps"]), "eval": sp.get("eval")}
        mo = model["steps"][j]
        if isinstance(mo, dict) and "ok" in mo:
            mo = dict(mo)
            for k in sorted(deps_of(j, h, {})):
                d = model["steps"][k]
                if isinstance(d, dict) and "bits" in d:
                    mo["bits"] = max(mo["bits"], d["bits"])
                    mo["hi2"] = tok(max(Fraction(mo["hi2"]), Fraction(d["hi2"])))
                    los = [Fraction(x) for x in (mo["lo2"], d["lo2"]) if Fraction(x) > 0]
                    mo["lo2"] = tok(min(los)) if los else "0"
        return sub, mo

    def reuse_class(self, h, j):
        """how step j uses live objects: alias (one object twice in the call) | reused (an object
        an earlier call has used) | result (the result of an earlier call) | first"""
        mine = refs_in(h["steps"][j]["tree"])
        before = {i for sp in h["steps"][:j] for i in refs_in(sp["tree"])}
        if len(mine) != len(set(mine)):
            return "alias"
        if any(i >= len(h["objs"]) for i in mine):
            return "result"
        if any(i in before for i in mine):
            return "reused"
        return "first" if mine else "none"

    def compare_hist(self, h, impl, model):
        if "err" in impl:
            return Verdict(VIOLATES, "making the objects raises %s" % impl["exc"],
                           {"kind": "build-raises", "exc": impl["exc"].split(":")[0],
                            "msg": norm_msg(impl["exc"].split(":", 1)[1])})
        for j, sp in enumerate(h["steps"]):
            if j >= len(impl["steps"]):
                break                                   # stopped at a modified operand (below)
            mo = model["steps"][j]
            im = impl["steps"][j]
            if mo == "skip":
                continue
            if im.get("skip"):
                return Verdict(DIFFERS, "step %d: an operand exists in the model only" % j,
                               {"kind": "harness-skip"})
            sub, mo = self.hist_sub(h, j, model)
            v = self.compare_one(sub, im, mo)
            if v.status != AGREE:
                feat = dict(v.features, history=self.reuse_class(h, j))
                return Verdict(v.status, "step %d of the history (%s): %s" % (
                    j, canon_step(sp), v.detail), feat)
        mt = impl.get("mutated")
        if mt:
            sp = h["steps"][mt["step"]]
            role = "other"
            t = sp["tree"]
            names = refs_in(t)
            if mt["obj"] in names:
                role = "operand"
                if t[0] == "fb" and t[4] == ["R", mt["obj"]]:
                    role = "feedback-path"
                elif t[0] not in LEAVES and any(t[i] == ["R", mt["obj"]] for i in children(t)):
                    role = "operand-%d" % [i for i in children(t) if t[i] == ["R", mt["obj"]]][0]
            return Verdict(VIOLATES, "step %d of the history (%s) modified the %s of object %d (%s, %s): "
                           "an operator call must leave its operands as they were" % (
                               mt["step"], canon_step(sp), mt["what"], mt["obj"], mt["objkind"], role),
                           {"kind": "operand-modified", "what": mt["what"], "objkind": mt["objkind"]})
        return Verdict(AGREE)

    def compare_one(self, case, impl, model):
        self._worst = 0.0
        t = case["tree"]
        if "err" in model:
            me = model["err"]
            if "err" in impl:
                return Verdict(AGREE)
            if impl["ok"]["type"] == "nonfinite" and me in ("zeroDen", "illPosed"):
                return Verdict(AGREE)
            if me == "illPosed" or (me == "zeroDen" and any(l[0] in ("LT", "LS") for l in leaves(t))):
                # exactly singular loop / pole on the grid: LAPACK need not detect it in floating point
                return Verdict(AGREE)
            if me == "zeroDen" and inexact_divisor(t):
                # the divisor is a computed quantity whose exact zero is a rounding residue in floats
                return Verdict(AGREE)
            return Verdict(VIOLATES, "a result was returned where none exists (model: %s)" % me,
                           self.features(case, "returns-" + me, impl))
        if "err" in impl:
            return Verdict(VIOLATES, "implementation raises %s where the result exists" % impl["exc"],
                           self.features(case, "raises", impl))
        a, b = impl["ok"], model["ok"]
        if a["type"] == "nonfinite":
            return Verdict(VIOLATES, "non-finite data where the result exists",
                           self.features(case, "nonfinite", impl))
        if b["type"] == "interp":
            ok = a["type"] == "eval" and (a["p"], a["m"]) == (b["p"], b["m"])
            return Verdict(AGREE if ok else VIOLATES, "interpolating eval", self.features(case, "interp", impl))
        if a["type"] != b["type"]:
            return Verdict(VIOLATES, "result type %s vs %s: %s" % (a["type"], b["type"], str(a)[:200]),
                           self.features(case, "type-" + a["type"], impl))
        if (a["p"], a["m"]) != (b["p"], b["m"]):
            return Verdict(VIOLATES, "shape %dx%d vs model %dx%d" % (a["p"], a["m"], b["p"], b["m"]),
                           self.features(case, "shape", impl))
        if a["type"] == "frd":
            if a["n"] != b["n"] or a["omega"] != b["omega"]:
                return Verdict(VIOLATES, "omega %s vs model %s" % (a["omega"], b["omega"]),
                               self.features(case, "omega", impl))
            bad = self.compare_data(case, a, b, model, a["n"], a["p"] * a["m"])
            if bad:
                k, idx, how = bad
                w = a["p"] * a["m"]
                return Verdict(VIOLATES, "data at omega[%d] entry (%d,%d): implementation %s, model %s (%s)"
                               % (k, idx // a["m"], idx % a["m"], a["data"][k * w + idx],
                                  b["data"][k * w + idx], how), self.features(case, "value", impl))
            if a["smooth"] != b["smooth"]:
                return Verdict(DIFFERS, "smooth flag %s vs model %s" % (a["smooth"], b["smooth"]),
                               self.features(case, "smooth", impl))
            return Verdict(AGREE)
        # eval
        if a["k"] != b["k"]:
            return Verdict(VIOLATES, "eval returned %d matrices for %d requests" % (a["k"], b["k"]),
                           self.features(case, "eval-count", impl))
        bad = self.compare_data(case, a, b, model, a["k"], a["p"] * a["m"])
        if bad:
            k, idx, how = bad
            ws = case["eval"]["ws"]
            stored = [w for l in leaves(t) if l[0] == "F" for w in l[5]]
            order = "request-order" if ws != sorted(ws, key=lambda w: stored.index(w) if w in stored else -1) \
                else "value"
            return Verdict(VIOLATES, "eval(%s): answer %d differs from the stored matrix (%s)" % (ws, k, how),
                           self.features(case, "eval-" + order, impl))
        return Verdict(AGREE)

    def nontrivial(self, case, model):
        if "hist" in case:
            # an object is used by at least two calls (or twice in one), and some call with a
            # binary operator / feedback returns
            h = case["hist"]
            names = [i for sp in h["steps"] for i in refs_in(sp["tree"])]
            if len(names) == len(set(names)):
                return False
            return any(isinstance(mo, dict) and "ok" in mo and
                       any(o in BIN or o == "fb" for o in ops_in(sp["tree"]))
                       for sp, mo in zip(h["steps"], model.get("steps", [])))
        t = case["tree"]
        if "ok" not in model:
            return False
        fl = [l for l in leaves(t) if l[0] == "F"]
        if not fl or not any(len({tuple(d) for d in l[6]}) > 1 for l in fl):
            return False
        return bool(case.get("eval")) or any(o in BIN or o == "fb" for o in ops_in(t))

    def stats(self, case, impl, model):
        if "hist" in case:
            h = case["hist"]
            st = {"root": "history", "hist_steps": len(h["steps"]), "hist_objs": min(len(h["objs"]), 12)}
            for j, sp in enumerate(h["steps"]):
                mo = model.get("steps", [None] * (j + 1))[j] if "steps" in model else None
                if mo == "skip":
                    st["hist_skip"] = "some"
                    continue
                st["hist_use_" + self.reuse_class(h, j)] = "some"
                if sp["tree"][0] == "fb" and sp["tree"][4][0] == "R" and Fraction(sp["tree"][1]) > 0:
                    st["hist_posfb_live_path"] = "some"
            kinds = {("copy" if o.get("copy_of") is not None else o["leaf"][0]) for o in h["objs"]}
            st["operands"] = "+".join(sorted(kinds))
            return st
        t = case["tree"]
        st = {"root": t[0], "size": min(size(t), 12), "grid": grid_kind(t),
              "outcome": ("err:" + model["err"]) if "err" in model else "ok"}
        lk = {l[0] for l in leaves(t)}
        st["operands"] = "+".join(sorted(lk))
        if "ok" in model:
            st["shape"] = "%dx%d" % (model["ok"]["p"], model["ok"]["m"])
            st["regime"] = "E" if self.exact_regime(case, model) else (
                "T" if self.tolerance(case, model) == TAU else "T-loose")
            a, b = impl.get("ok"), model["ok"]
            if st["regime"] != "E" and a and a.get("type") == b["type"] and "data" in b and \
                    len(a.get("data", [])) == len(b["data"]):
                w = 0.0
                wd = b["p"] * b["m"]
                for k in range(len(b["data"]) // max(wd, 1)):
                    zb = [(Fraction(x), Fraction(y)) for x, y in b["data"][k * wd:(k + 1) * wd]]
                    scale = max([Fraction(1)] + [max(abs(x), abs(y)) for x, y in zb])
                    for (xa, ya), (xb, yb) in zip(a["data"][k * wd:(k + 1) * wd], zb):
                        w = max(w, float(max(abs(Fraction(xa) - xb), abs(Fraction(ya) - yb)) / scale))
                st["relerr"] = "0" if w == 0 else "1e%d" % int(np.ceil(np.log10(w)))
        if case.get("eval"):
            st["eval"] = case["eval"]["via"]
        if "err" in model and "err" in impl:
            st["errkind_equal"] = impl["err"] == model["err"]
        for l in leaves(t):
            if l[0] in ("LT", "LS"):
                st["ltidt"] = (l[3] if l[0] == "LT" else l[4])[:1]
        return st

    # ---- shrinking / search ----------------------------------------------------
    def shrink_hist(self, h):
        objs, steps = h["objs"], h["steps"]
        nobj = len(objs)

        def renum(t, gone):
            return map_tree(t, lambda l: ["R", l[1] - (1 if l[1] > gone else 0)] if l[0] == "R" else l)

        def used(i, skip=None):
            return any(i in refs_in(sp["tree"]) for k, sp in enumerate(steps) if k != skip) or \
                any(o.get("copy_of") == i for o in objs)
        # keep a prefix of the steps
        for k in range(1, len(steps)):
            yield {"hist": {"objs": objs, "steps": steps[:k]}}
        # drop one step whose result nobody reads
        for k in range(len(steps)):
            if not used(nobj + k):
                rest = [dict(sp, tree=renum(sp["tree"], nobj + k)) for j, sp in enumerate(steps) if j != k]
                if rest:
                    yield {"hist": {"objs": objs, "steps": rest}}
        # drop one object nobody reads
        for i in range(nobj):
            if not used(i):
                o2 = [dict(o, copy_of=(o["copy_of"] - 1 if o.get("copy_of") is not None and o["copy_of"] > i
                                       else o.get("copy_of"))) for j, o in enumerate(objs) if j != i]
                yield {"hist": {"objs": o2, "steps": [dict(sp, tree=renum(sp["tree"], i)) for sp in steps]}}
        # a step becomes one of its operands
        for k, sp in enumerate(steps):
            t = sp["tree"]
            if t[0] not in LEAVES:
                for i in children(t):
                    if t[i][0] not in ("S", "A", "LT", "LS"):
                        yield {"hist": {"objs": objs, "steps": steps[:k] + [dict(sp, tree=t[i])] + steps[k + 1:]}}
        # one grid point less, everywhere
        fl = [o["leaf"] for o in objs if o["leaf"][0] == "F"] + \
             [l for sp in steps for l in leaves(sp["tree"]) if l[0] == "F"]
        if fl and all(len(l[5]) == len(fl[0][5]) for l in fl) and len(fl[0][5]) > 2 and \
                not any(sp.get("eval") for sp in steps):
            def cut(l):
                if l[0] != "F":
                    return l
                n = len(l[5]) - 1
                return ["F", l[1], l[2], l[3] if n >= 2 else 0, l[4], l[5][:n], l[6][:n * l[1] * l[2]]]
            yield {"hist": {"objs": [dict(o, leaf=cut(o["leaf"])) for o in objs],
                            "steps": [dict(sp, tree=map_tree(sp["tree"], cut)) for sp in steps]}}

    def shrink(self, case):
        if "hist" in case:
            yield from self.shrink_hist(case["hist"])
            return
        t = case["tree"]
        ev = case.get("eval")

        def subtrees(t):
            for i in children(t):
                yield t[i]
                yield from subtrees(t[i])
        for s in subtrees(t):
            if s[0] not in ("S", "A", "LT", "LS"):
                yield {"tree": s, "eval": ev}
        if ev and len(ev["ws"]) > 1:
            for i in range(len(ev["ws"])):
                yield {"tree": t, "eval": dict(ev, ws=ev["ws"][:i] + ev["ws"][i + 1:], scalar=False)}

        def rebuild(t, path, new):
            if not path:
                return new
            t = list(t)
            t[path[0]] = rebuild(t[path[0]], path[1:], new)
            return t

        def paths(t, pre=()):
            for i in children(t):
                yield pre + (i,)
                yield from paths(t[i], pre + (i,))
        for pth in paths(t):
            sub = t
            for i in pth:
                sub = sub[i]
            if sub[0] not in LEAVES:
                for i in children(sub):
                    yield {"tree": rebuild(t, list(pth), sub[i]), "eval": ev}
        # drop the last grid point everywhere
        fl = [l for l in leaves(t) if l[0] == "F"]
        if fl and all(len(l[5]) == len(fl[0][5]) for l in fl) and len(fl[0][5]) > 1 and not ev:
            def cut(t):
                if t[0] == "F":
                    n = len(t[5]) - 1
                    return ["F", t[1], t[2], t[3] if n >= 2 else 0, t[4], t[5][:n], t[6][:n * t[1] * t[2]]]
                if t[0] in LEAVES:
                    return t
                t2 = list(t)
                for i in children(t):
                    t2[i] = cut(t[i])
                return t2
            yield {"tree": cut(t), "eval": ev}

    def search(self, rng, case, tier):
        out = []
        for _ in range(300):
            st = self.new_state(rng)
            out.append({"tree": self.gen(rng, 2, self.rshape(rng), st), "eval": None})
        return out


FAMILY = C09
