"""C20 — flat-system maps and generated trajectories: correspondence between
control.flatsys (LinearFlatSystem.forward / reverse, PolyFamily / BezierFamily, _basis_flag_matrix,
point_to_point without cost or constraints, SystemTrajectory.eval) and the Lean model
`CtrlVerif.Model.Flat` (driver family `flat`).

case = {"sys": {dt, p, m, n, A, B, (C, D implied)}, "fr": {x, u, z}, "p2p": {...} | None}
All numbers are rational tokens whose values are exactly representable binary64 numbers, so the
model and the implementation receive the same inputs.

Property oracle (evaluated on the implementation's own outputs, in exact arithmetic):
  * reverse(forward(x, u)) = (x, u)  and  forward(reverse(z)) = z;
  * traj.eval(T0) = (x0, u0), traj.eval(Tf) = (xf, uf);
  * d/dt x(t) = A x(t) + B u(t): x(.) returned by traj.eval is a polynomial of degree < N for
    the polynomial and Bezier families, so its derivative at a node is obtained exactly from
    the values at N nodes (Lagrange differentiation over Fractions).
"""
import re
import warnings
from fractions import Fraction
from math import comb, factorial

import numpy as np
import control as ct
import control.flatsys as fs

from core.runner import Family, Verdict, AGREE, VIOLATES, DIFFERS
from core import exact, exmat
from core.exact import fr, tok
# >>> C20-multi (user-defined flat systems with several flat outputs: families/c20_multi.py)
from families import c20_multi
# <<< C20-multi
# >>> C20-hist (call histories on kept objects; typed time stamps / long horizons: families/c20_hist.py)
from families import c20_hist
# <<< C20-hist
# >>> C20-par (user-defined flat systems that declare default parameters; planning calls with params=: families/c20_par.py)
from families import c20_par
# <<< C20-par
# >>> C20-scale (problems far from unit scaling: long / short horizons against the basis horizon, tiny / huge data: families/c20_scale.py)
from families import c20_scale
# <<< C20-scale

TOL = Fraction(1, 10 ** 6)        # regime T (solve / lstsq); observed worst error ~1e-10
NINTERIOR = 3


def F(x):
    return Fraction(x)


def ftok(x):
    """token of the exact value of float(x)"""
    return tok(fr(float(Fraction(x))))


def vals(v):
    return [float(Fraction(x)) for x in v]


def classify_exc(e):
    msg = str(e)
    if isinstance(e, ct.ControlNotImplemented) or isinstance(e, NotImplementedError):
        return "notImplemented"
    if isinstance(e, np.linalg.LinAlgError):
        return "illPosed"
    if isinstance(e, IndexError):
        return "indexRange"
    if isinstance(e, ValueError):
        if "not controllable" in msg or "singular" in msg:
            return "illPosed"
        if "too small" in msg or "index too high" in msg:
            return "badArg"
        return "shape"
    if isinstance(e, TypeError):
        return "badArg"
    return type(e).__name__


def dt_value(tokn):
    if tokn == "N":
        return None
    if tokn == "T":
        return True
    if tokn == "C":
        return 0
    return float(Fraction(tokn[1:]))


def build_sys(s):
    n, p, m = s["n"], s["p"], s["m"]
    A = np.array(vals(s["A"]), dtype=float).reshape(n, n)
    B = np.array(vals(s["B"]), dtype=float).reshape(n, m)
    C = np.array(vals(s["C"]), dtype=float).reshape(p, n)
    D = np.zeros((p, m))
    return ct.ss(A, B, C, D, dt_value(s["dt"]))


def make_basis(b):
    if b["kind"] == "D":
        return None
    T = float(Fraction(b["T"]))
    if b["kind"] == "P":
        return fs.PolyFamily(b["N"], T) if not b.get("defaultT") else fs.PolyFamily(b["N"])
    if b["kind"] == "B":
        return fs.BezierFamily(b["N"], T) if not b.get("defaultT") else fs.BezierFamily(b["N"])
    raise ValueError(b["kind"])


def model_basis(b, n):
    """(kind, N, T) as the model sees the basis"""
    if b["kind"] == "D":
        return "P", 2 * (n + 1), "1"
    return b["kind"], b["N"], ("1" if b.get("defaultT") else b["T"])


def eval_times(pp):
    T0, Tf = F(pp["T0"]), F(pp["Tf"])
    ts = [T0, Tf] + [T0 + (Tf - T0) * Fraction(k, 8) for k in pp["interior"]]
    return ts


def basis_exact(kind, N, T, j, k, t):
    """k-th derivative of the j-th basis function at t (Fractions), written independently of the
    implementation; used only for the generator's conditioning guard"""
    if kind == "P":
        if j < k:
            return Fraction(0)
        return Fraction(factorial(j), factorial(j - k)) * (t / T) ** (j - k) / T ** k
    n = N - 1
    if k >= N:
        return Fraction(0)
    u = t / T
    return comb(n, j) * sum(((-1) ** (l - j) * comb(n - j, l - j) * Fraction(factorial(l), factorial(l - k))
                             * u ** (l - k) / T ** k for l in range(max(j, k), n + 1)), Fraction(0))


def cond_guard(kind, N, T, n, T0, Tf):
    """2-norm condition number of the stacked boundary matrix (float)"""
    M = [[float(basis_exact(kind, N, T, j, k, t)) for j in range(N)] for t in (T0, Tf) for k in range(n + 1)]
    return float(np.linalg.cond(np.array(M)))


COND_MAX = 1e5


def nodes_for(pp, N):
    """N interpolation abscissae in [T0, Tf], as exact values of floats"""
    T0, Tf = F(pp["T0"]), F(pp["Tf"])
    if N == 1:
        return [T0]
    return [fr(float(T0 + (Tf - T0) * Fraction(i, N - 1))) for i in range(N)]


def lagrange_diff_rows(ts, rows):
    """rows of the differentiation matrix of the interpolating polynomial through abscissae ts"""
    n = len(ts)
    w = []
    for j in range(n):
        d = Fraction(1)
        for k in range(n):
            if k != j:
                d *= (ts[j] - ts[k])
        w.append(1 / d)
    out = {}
    for i in rows:
        r = [Fraction(0)] * n
        for j in range(n):
            if j != i:
                r[j] = (w[j] / w[i]) / (ts[i] - ts[j])
        r[i] = -sum(r)
        out[i] = r
    return out


class C20(Family):
    prop = "C20"
    # source-text tie (notes/NOTES-py2lean-arith.md): Generated/{Poly,Bezier}EvalDeriv.lean are rewritten
    # from the text of PolyFamily.eval_deriv / BezierFamily.eval_deriv of the tree under check on every
    # run and proved equal to the model `Basis.evalDeriv?`
    extra_modules = ["CtrlVerif.Props.C20Cert",    # the construction always passes its certificate
                     "CtrlVerif.Props.C20Gen"]
    # >>> C20-multi (user-defined flat systems with several flat outputs: families/c20_multi.py)
    extra_modules = extra_modules + ["CtrlVerif.Props.C20Multi"]   # several flat outputs, any flag lengths
    # <<< C20-multi
    # >>> C20-hist (call histories on kept objects; typed time stamps / long horizons: families/c20_hist.py)
    extra_modules = extra_modules + ["CtrlVerif.Props.C20Hist"]    # inverse laws along every call history
    # <<< C20-hist
    # >>> C20-par (user-defined flat systems that declare default parameters; planning calls with params=: families/c20_par.py)
    extra_modules = extra_modules + ["CtrlVerif.Props.C20Params"]  # which dict forward / reverse / dynamics see
    # <<< C20-par
    # >>> C20-flat (source-text tie of LinearFlatSystem.__init__ / forward / reverse, _basis_flag_matrix, the
    # boundary-condition statements of point_to_point, SystemTrajectory.eval: notes/NOTES-py2lean-flat.md)
    extra_modules = extra_modules + ["CtrlVerif.Props.C20GenFlatInit", "CtrlVerif.Props.C20GenFlatMaps",
                                     "CtrlVerif.Props.C20GenFlatMat", "CtrlVerif.Props.C20GenFlatP2P",
                                     "CtrlVerif.Props.C20GenFlatEval", "CtrlVerif.Props.C20GenFlat"]
    # <<< C20-flat
    # >>> C20-p2phead (source-text tie of the argument processing at the head of point_to_point /
    # solve_flat_optimal: notes/NOTES-py2lean-p2phead.md)
    extra_modules = extra_modules + ["CtrlVerif.Props.C20GenHead", "CtrlVerif.Props.C20GenHeadKw"]
    # <<< C20-p2phead

    def pre_build(self):
        import os
        from core import py2lean_arith, leanproj
        repo = os.environ.get("VERIF_REPO") or "/repo"
        problems, self.gen_info = py2lean_arith.regenerate(
            repo, leanproj.LEAN, ("poly_eval_deriv", "bezier_eval_deriv"))
        # >>> C20-flat
        from core import py2lean_flat
        problems_flat, gen_info_flat = py2lean_flat.regenerate(repo, leanproj.LEAN)
        problems = list(problems) + list(problems_flat)
        self.gen_info = dict(self.gen_info or {}, **gen_info_flat)
        # <<< C20-flat
        # >>> C20-p2phead
        from core import py2lean_p2phead
        problems_head, gen_info_head = py2lean_p2phead.regenerate(repo, leanproj.LEAN)
        problems = list(problems) + list(problems_head)
        self.gen_info = dict(self.gen_info or {}, **gen_info_head)
        # <<< C20-p2phead
        return problems
    externals = ["numpy.linalg.lstsq (minimum-norm solution; the model computes M^T (M M^T)^-1 Z by a "
                 "certified exact solve, agreement is part of the correspondence)",
                 "numpy.poly / numpy.linalg.solve / inv / matrix_rank in reachable_form (exact "
                 "counterparts in the model, final chain-of-integrators equations certified)",
                 "scipy.special.factorial / binom (exact integers in the generated range)",
                 "scipy.interpolate B-splines (BSplineFamily): not modelled, end points validated only"]
    assumptions = [
        "regime T: results of the solves are compared within 1e-6 relative (worst observed ~1e-9)",
        "horizons Tf - T0 in [1/2, 3], |T0| <= 1, basis sizes 2(n+1) .. 2(n+1)+3: the range in which the "
        "boundary-condition system is conditioned well enough for binary64",
        "cost / constraint optimisation (scipy.optimize.minimize) and user-defined nonlinear flat "
        "systems are outside the model",
        "point_to_point with T0 = Tf (rank-deficient boundary system, warning branch) is not generated"]
    rule = ("random reachable SISO systems of order 1..4 with integer A, b in -3..3 (plus unreachable, "
            "discrete-time, MIMO and zero-state systems for the raising branches), random rational "
            "states / inputs / flags, boundary conditions and horizons, PolyFamily / BezierFamily / "
            "default basis with 2(n+1)..2(n+1)+3 coefficients (plus too-small bases); a case is "
            "non-trivial when the system has order >= 2, is reachable and the state/input data are "
            "not all zero; distinct = distinct canonical serialisation")
    # >>> C20-multi (user-defined flat systems with several flat outputs: families/c20_multi.py)
    rule = rule + (
        "; multi-output part: user-defined flat systems FlatSystem(forward, reverse[, updfcn]) with 1..3 flat "
        "outputs, chains of 0..3 states per output (flag lengths 1..5, mostly DIFFERENT between the "
        "outputs, optionally one redundant flag entry), 1..5 states, seen through unimodular integer and "
        "triangular quadratic changes of state / input coordinates (forward, reverse, dynamics are "
        "polynomial maps of degree <= 4 with dyadic coefficients, computed symbolically); bases with "
        "2 max(len)..2 max(len)+3 coefficients per output, plus bases that fail the size test, bases "
        "that pass it but are too small for one output (warning branch) and T0 = Tf; B-spline bases with "
        "a shared variable or one variable per output; non-trivial = at least two flat outputs and "
        "non-zero data")
    assumptions = [a.replace(" and user-defined nonlinear flat systems are outside the model",
                             " are outside the model (user-defined flat systems: polynomial maps only, "
                             "see the multi-output part)")
                   .replace("point_to_point with T0 = Tf (rank-deficient boundary system, warning branch) is not "
                            "generated", "point_to_point with T0 = Tf (rank-deficient boundary system, warning "
                            "branch) is generated in the multi-output part only")
                   for a in assumptions] + [
        "multi-output part: the same horizons / conditioning guard cond(M) <= 1e5 on the block-diagonal "
        "boundary matrix; a rank-deficient boundary system (some output with fewer than 2 len_i "
        "coefficients, or T0 = Tf) is only checked for the warning the code emits, its least-squares "
        "result is not modelled",
        "multi-output part: mutual inverseness of the generated forward / reverse maps and their "
        "consistency with the generated dynamics are established symbolically by the harness "
        "(c20_multi.selftest), in Lean they are hypotheses of the theorems"]
    externals = externals + [
        "scipy.optimize.minimize / scipy.linalg.null_space (point_to_point with cost or constraints, "
        "multi-output part): not modelled, the returned trajectory is validated (end points, dynamics)"]
    # <<< C20-multi
    # >>> C20-hist (call histories on kept objects; typed time stamps / long horizons: families/c20_hist.py)
    rule = rule + (
        "; history part: on a reachable SISO system a random program of 3..8 calls forward / reverse whose "
        "arguments are objects the caller already holds (literals as float64 / int64 arrays or lists, or results "
        "of earlier calls; the most recent object is re-used with probability 1/2) - every result is kept and "
        "all objects are read back at the end; typed-time part: point_to_point / SystemTrajectory.eval with "
        "integer horizons 1 .. 10^7 (basis rescaled to the horizon, horizon^order <= 2.5e8), the times given as "
        "Python int, NumPy integer scalars / arrays (int8 .. uint64), tuples, ranges or floats, the boundary "
        "data as float / int arrays or lists, 70 % of the long-horizon moves rest to rest between integer "
        "equilibria, half of the cases followed by a second trajectory planned with the same objects")
    assumptions = assumptions + [
        "typed-time part: conditioning guard on the boundary matrix in the rescaled time t/T (cond <= 1e5) and "
        "horizon^order <= 2.5e8 (the rows of the boundary matrix are scaled by T^-k; beyond ~1e14 numpy.linalg.lstsq "
        "with rcond=None treats them as zero and point_to_point warns 'basis too small' - not generated)",
        "history / typed-time parts: an object of the caller that a call writes to is reported as a violation "
        "(the inverse laws / the end-point conditions are read on the objects the caller holds)"]
    # <<< C20-hist
    # >>> C20-par (user-defined flat systems that declare default parameters; planning calls with params=: families/c20_par.py)
    rule = rule + (
        "; parameter part: user-defined flat systems (1..2 flat outputs, 1..4 states) whose forward / reverse / "
        "update callables read 1..3 parameters by params.get(key, fallback) or params[key], constructed with "
        "params={...} declaring all, some or none of them (declared value equal to or different from the callable's "
        "fallback, sometimes a key nobody reads); point_to_point (plain, 20 % also with a cost), 20 % "
        "solve_flat_optimal, with params omitted / None / {} / overriding every read key / a proper subset of "
        "them (override values always different from the declared ones); non-trivial = a params argument is "
        "passed and the data are non-zero")
    assumptions = [a.replace("(user-defined flat systems: polynomial maps only, see the multi-output part)",
                             "(user-defined flat systems: polynomial maps only, see the multi-output and the "
                             "parameter part)") for a in assumptions] + [
        "parameter part: 'the system dynamics' of the property are sys.dynamics(t, x, u, params=arg), i.e. the update "
        "function on {**sys.params, **arg} (NonlinearIOSystem._update_params); parameters enter the maps "
        "polynomially (coefficients of the coordinate changes), every read parameter occurs in the dynamics",
        "parameter part: when the dict flatsys.py hands to forward / reverse (the argument REPLACES sys.params) reads "
        "other values than the dynamics do and no property failure is visible on the case, the trajectory is not "
        "compared with the model's (which is planned for the requested values)"]
    # <<< C20-par
    # >>> C20-scale
    rule = rule + (
        "; scaling part: point_to_point / eval on reachable SISO systems of order 1..3 with the unscaled bases "
        "PolyFamily(N) / BezierFamily(N) (T = 1) on horizons 3 .. 200, bases rescaled to horizons 50 .. 3600, horizons "
        "1/8 .. 1/1024, and boundary data of magnitude 1e-14 .. 1e9 in every class (30 % rest to rest), 25 % also "
        "with a B-spline basis; non-trivial = non-zero boundary data")
    assumptions = assumptions + [
        "scaling part: no absolute scale enters a comparison; end points are judged within 1000 eps ||M||_2 ||alpha||_2 "
        "(residual of a backward-stable least-squares solve of the boundary system M alpha = Z; the unchanged code "
        "reaches ~1 eps ||M|| ||alpha||) plus 1e-9 sum_j |alpha_j M_kj(t)|, mapped through |Tinv|, |F| of the exact flat "
        "structure; feasibility within the same evaluation bound propagated through the exact differentiation row; "
        "guard cond_2(M) <= 1e12 (numpy.linalg.lstsq cuts singular values below ~2e-15 sigma_max; beyond that "
        "point_to_point warns 'basis too small' and misses the end points - not generated); the model's trajectory "
        "is compared only when cond_2(M) <= 1e5"]
    # <<< C20-scale

    def __init__(self):
        self._cache = {}
        # >>> C20-multi (user-defined flat systems with several flat outputs: families/c20_multi.py)
        self.multi = c20_multi.Multi()
        # <<< C20-multi
        # >>> C20-hist (call histories on kept objects; typed time stamps / long horizons: families/c20_hist.py)
        self.hist = c20_hist.Hist(self)
        # <<< C20-hist
        # >>> C20-par
        self.par = c20_par.Par(self.multi)
        # <<< C20-par
        # >>> C20-scale
        self.scale = c20_scale.Scale(self)
        # <<< C20-scale

    # ---- generation -------------------------------------------------------
    def rq(self, rng):
        r = rng.random()
        if r < 0.4:
            return Fraction(rng.randint(-4, 4))
        if r < 0.7:
            return Fraction(rng.randint(-8, 8), rng.choice([2, 4]))
        return Fraction(rng.randint(-9, 9), rng.choice([3, 5, 7, 10]))

    def gen_sys(self, rng, n, want="reach"):
        for _ in range(200):
            A = [[Fraction(rng.randint(-3, 3)) for _ in range(n)] for _ in range(n)]
            b = [[Fraction(rng.randint(-3, 3))] for _ in range(n)]
            if rng.random() < 0.25:     # sparse / structured systems
                for i in range(n):
                    for j in range(n):
                        if rng.random() < 0.5:
                            A[i][j] = Fraction(0)
            W = []
            col = b
            for _k in range(n):
                W.append([r[0] for r in col])
                col = exmat.mul(A, col)
            Wm = [[W[j][i] for j in range(n)] for i in range(n)]
            d = exmat.det(Wm) if n else Fraction(1)
            if want == "reach" and d != 0 and abs(d) <= 2000:
                break
            if want == "unreach" and d == 0:
                break
        C = [Fraction(rng.randint(-2, 2)) for _ in range(n)]
        return {"dt": "C", "p": 1, "m": 1, "n": n,
                "A": [tok(x) for r in A for x in r], "B": [tok(r[0]) for r in b],
                "C": [tok(x) for x in C]}

    def gen_case(self, rng, tier):
        r = rng.random()
        n = rng.choice([1, 2, 2, 3, 3, 4])
        if r < 0.05:
            s = self.gen_sys(rng, n)
            s["dt"] = rng.choice(["T", "D1/4", exact.dt_tok(0.1)])
        elif r < 0.10:
            s = self.gen_sys(rng, n)
            p, m = rng.choice([(1, 2), (2, 1), (2, 2)])
            s["p"], s["m"] = p, m
            s["B"] = [tok(Fraction(rng.randint(-3, 3))) for _ in range(n * m)]
            s["C"] = [tok(Fraction(rng.randint(-2, 2))) for _ in range(p * n)]
        elif r < 0.16:
            s = self.gen_sys(rng, rng.choice([2, 3]), want="unreach")
        elif r < 0.18:
            s = {"dt": "C", "p": 1, "m": 1, "n": 0, "A": [], "B": [], "C": []}
        else:
            s = self.gen_sys(rng, n)
            if rng.random() < 0.2:
                s["dt"] = "N"
        n = s["n"]
        case = {"sys": s}
        zero = rng.random() < 0.03
        q = (lambda: Fraction(0)) if zero else (lambda: self.rq(rng))
        case["fr"] = {"x": [ftok(q()) for _ in range(n)], "u": ftok(q()),
                      "z": [ftok(q()) for _ in range(n + 1)]}
        case["p2p"] = None
        if rng.random() < 0.75:
            for _try in range(30):
                T0 = rng.choice([0, 0, 0, 0, Fraction(1, 2), -1, 1, Fraction(-1, 4)])
                H = rng.choice([Fraction(1, 2), 1, 1, Fraction(3, 2), 2, 2, 3])
                Tf = Fraction(T0) + H
                kind = rng.choice(["P", "P", "B", "B", "D"])
                extra = rng.choice([0, 0, 0, 1, 1, 2, 3])
                if rng.random() < 0.06:
                    extra = -rng.choice([1, 2])
                N = max(1, 2 * (n + 1) + extra)
                Ts = [Fraction(1), H, Fraction(2)] + ([Tf] if Tf != 0 else [])
                b = {"kind": kind, "N": N, "T": tok(rng.choice(Ts))}
                if kind != "D" and rng.random() < 0.15:
                    b["defaultT"] = True
                mk, mN, mT = model_basis(b, n)
                # conditioning guard (part of the case): the boundary system must be solvable
                # to ~1e-10 in binary64
                if mN >= 2 * (n + 1) and cond_guard(mk, mN, Fraction(mT), n, Fraction(T0), Tf) > COND_MAX:
                    continue
                via = rng.choice(["list", "list", "scalar", "list3"])
                ks = sorted(rng.sample(range(1, 8), NINTERIOR))
                bsp = None
                if rng.random() < 0.25:
                    # B-splines (external evaluator): end points only.  3 or 4 breakpoints,
                    # degree 2n+1, default smoothness -> at least 2(n+1) coefficients
                    bsp = {"nbreak": rng.choice([3, 4]), "degree": 2 * n + 1}
                case["p2p"] = {"T0": tok(T0), "Tf": tok(Tf), "basis": b, "via": via, "bspline": bsp,
                               "x0": [ftok(q()) for _ in range(n)], "u0": ftok(q()),
                               "xf": [ftok(q()) for _ in range(n)], "uf": ftok(q()),
                               "interior": ks}
                break
        return case

    def generate(self, rng, tier):
        n = 500 if tier == "quick" else 4000
        cases = [self.gen_case(rng, tier) for _ in range(n)]
        # >>> C20-multi (user-defined flat systems with several flat outputs: families/c20_multi.py)
        cases += self.multi.generate(rng, tier)
        # <<< C20-multi
        # >>> C20-hist (call histories on kept objects; typed time stamps / long horizons: families/c20_hist.py)
        cases += self.hist.generate(rng, tier)        # after the other streams: those are unchanged per seed
        # <<< C20-hist
        # >>> C20-par
        cases += self.par.generate(rng, tier)         # after the streams above: those are unchanged per seed
        # <<< C20-par
        # >>> C20-scale
        cases += self.scale.generate(rng, tier)       # last: the earlier streams are unchanged per seed
        # <<< C20-scale
        return cases

    def corpus(self):
        s2 = {"dt": "C", "p": 1, "m": 1, "n": 2, "A": ["1", "1", "0", "1"], "B": ["1", "2"], "C": ["1", "0"]}
        s3 = {"dt": "C", "p": 1, "m": 1, "n": 3, "A": ["0", "1", "0", "0", "0", "1", "-1", "-2", "-3"],
              "B": ["0", "0", "1"], "C": ["1", "0", "0"]}
        pp = lambda kind, N, T: {"T0": "0", "Tf": "2", "basis": {"kind": kind, "N": N, "T": T},
                                 "via": "list", "x0": ["1", "2"], "u0": "3", "xf": ["0", "0"], "uf": "0",
                                 "interior": [1, 4, 6]}
        c3 = {"sys": s3, "fr": {"x": ["1", "-2", "1/2"], "u": "2", "z": ["1", "0", "-1", "3"]},
              "p2p": {"T0": "0", "Tf": "1", "basis": {"kind": "B", "N": 9, "T": "1"}, "via": "list",
                      "x0": ["1", "0", "0"], "u0": "1", "xf": ["0", "1", "-1"], "uf": "-2",
                      "interior": [2, 4, 7]}}
        return [
            {"sys": s2, "fr": {"x": ["1", "2"], "u": "3", "z": ["1", "2", "3"]}, "p2p": pp("P", 6, "1")},
            {"sys": s2, "fr": {"x": ["1", "2"], "u": "3", "z": ["1", "2", "3"]}, "p2p": pp("B", 8, "2")},
            c3,
        # >>> C20-multi (user-defined flat systems with several flat outputs: families/c20_multi.py)
        ] + self.multi.corpus() + [
        # <<< C20-multi
        # >>> C20-hist (call histories on kept objects; typed time stamps / long horizons: families/c20_hist.py)
        ] + self.hist.corpus() + [
        # <<< C20-hist
        # >>> C20-par
        ] + self.par.corpus() + [
        # <<< C20-par
        # >>> C20-scale
        ] + self.scale.corpus() + [
        # <<< C20-scale
        ]

    # ---- execution ----------------------------------------------------------
    def sys_prefix(self, s):
        if s["dt"] in ("T",) or s["dt"].startswith("D") or (s["p"], s["m"]) != (1, 1):
            return "flat %s %d %d" % (s["dt"], s["p"], s["m"]), False
        return "flat %s 1 1 %d %s %s" % (s["dt"], s["n"], " ".join(s["A"]), " ".join(s["B"])), True

    def line(self, case):
        # >>> C20-multi (user-defined flat systems with several flat outputs: families/c20_multi.py)
        if case.get("kind") == "multi":
            return self.multi.line(case)
        # <<< C20-multi
        # >>> C20-hist (call histories on kept objects; typed time stamps / long horizons: families/c20_hist.py)
        if case.get("kind") in ("hist", "tt"):
            return self.hist.line(case)
        # <<< C20-hist
        # >>> C20-par
        if case.get("kind") == "par":
            return self.par.line(case)
        # <<< C20-par
        # >>> C20-scale
        if case.get("kind") == "sc":
            return self.scale.line(case)
        # <<< C20-scale
        s = case["sys"]
        pre, full = self.sys_prefix(s)
        if not full:
            return pre
        n = s["n"]
        f = case["fr"]
        line = pre + " sys fr %s %s %s" % (" ".join(f["x"]), f["u"], " ".join(f["z"]))
        pp = case.get("p2p")
        if pp:
            kind, N, T = model_basis(pp["basis"], n)
            ts = eval_times(pp)
            line += " p2p %s %d %s %s %s %s %s %s %s %d %s" % (
                kind, N, T, pp["T0"], pp["Tf"], " ".join(pp["x0"]), pp["u0"],
                " ".join(pp["xf"]), pp["uf"], len(ts), " ".join(tok(t) for t in ts))
        return " ".join(line.split())

    def impl(self, case):
        # >>> C20-multi (user-defined flat systems with several flat outputs: families/c20_multi.py)
        if case.get("kind") == "multi":
            return self.multi.impl(case)
        # <<< C20-multi
        # >>> C20-hist (call histories on kept objects; typed time stamps / long horizons: families/c20_hist.py)
        if case.get("kind") in ("hist", "tt"):
            return self.hist.impl(case)
        # <<< C20-hist
        # >>> C20-par
        if case.get("kind") == "par":
            return self.par.impl(case)
        # <<< C20-par
        # >>> C20-scale
        if case.get("kind") == "sc":
            return self.scale.impl(case)
        # <<< C20-scale
        s = case["sys"]
        n = s["n"]
        out = {}
        try:
            with warnings.catch_warnings():
                warnings.simplefilter("ignore")
                sys_ = build_sys(s)
                flat = fs.flatsys(sys_)
        except Exception as e:  # noqa
            return {"err": classify_exc(e), "exc": "%s: %s" % (type(e).__name__, str(e)[:160])}
        try:
            out["sys"] = {"F": [tok(fr(v)) for v in np.asarray(flat.F).flatten()],
                          "T": [tok(fr(v)) for v in np.asarray(flat.T).flatten()],
                          "Tinv": [tok(fr(v)) for v in np.asarray(flat.Tinv).flatten()],
                          "Cf": [tok(fr(v)) for v in np.asarray(flat.Cf).flatten()]}
        except Exception as e:  # noqa
            out["sys"] = {"err": "attr", "exc": "%s: %s" % (type(e).__name__, str(e)[:160])}
        f = case["fr"]
        try:
            x, u, z = np.array(vals(f["x"])), np.array([float(F(f["u"]))]), np.array(vals(f["z"]))
            fwd = flat.forward(x, u, None)
            rx, ru = flat.reverse([z.copy()], None)
            r1x, r1u = flat.reverse([np.array(fwd[0], dtype=float)], None)
            rt2 = flat.forward(rx, ru, None)
            flt = lambda a: [tok(fr(v)) for v in np.asarray(a, dtype=float).flatten()]
            out["fr"] = {"nflag": len(fwd), "fwd": flt(fwd[0]), "rev": flt(rx) + flt(ru),
                         "rt1": flt(r1x) + flt(r1u), "rt2": flt(rt2[0])}
        except Exception as e:  # noqa
            out["fr"] = {"err": classify_exc(e), "exc": "%s: %s" % (type(e).__name__, str(e)[:160])}
        pp = case.get("p2p")
        if pp:
            out["p2p"] = self.impl_p2p(flat, n, pp)
        return out

    def impl_p2p(self, flat, n, pp):
        try:
            with warnings.catch_warnings(record=True) as wl:
                warnings.simplefilter("always")
                basis = make_basis(pp["basis"])
                T0, Tf = float(F(pp["T0"])), float(F(pp["Tf"]))
                x0, xf = np.array(vals(pp["x0"])), np.array(vals(pp["xf"]))
                u0, uf = np.array([float(F(pp["u0"]))]), np.array([float(F(pp["uf"]))])
                kw = {} if basis is None else {"basis": basis}
                if pp["via"] == "scalar":
                    traj = fs.point_to_point(flat, Tf, x0, u0, xf, uf, initial_time=T0, **kw)
                elif pp["via"] == "list3":
                    traj = fs.point_to_point(flat, [T0, (T0 + Tf) / 2, Tf], x0, u0, xf, uf, **kw)
                else:
                    traj = fs.point_to_point(flat, [T0, Tf], x0, u0, xf, uf, **kw)
                ts = eval_times(pp)
                xs, us = traj.eval(np.array([float(t) for t in ts]))
                N = traj.basis.N
                nodes = nodes_for(pp, N)
                xn, un = traj.eval(np.array([float(t) for t in nodes]))
            res = {"N": N, "alpha": [tok(fr(v)) for v in np.asarray(traj.coeffs[0]).flatten()],
                   "xs": [[tok(fr(xs[i, k])) for i in range(n)] for k in range(len(ts))],
                   "us": [tok(fr(us[0, k])) for k in range(len(ts))],
                   "xn": [[tok(fr(xn[i, k])) for i in range(n)] for k in range(len(nodes))],
                   "un": [tok(fr(un[0, k])) for k in range(len(nodes))],
                   "warn": sorted({re.sub(r"[0-9.]+", "#", str(w.message))[:60] for w in wl
                                   if "basis too small" in str(w.message)})}
            bsp = pp.get("bspline")
            if bsp:
                try:
                    with warnings.catch_warnings():
                        warnings.simplefilter("ignore")
                        bb = fs.BSplineFamily(list(np.linspace(T0, Tf, bsp["nbreak"])), bsp["degree"])
                        tb = fs.point_to_point(flat, [T0, Tf], x0, u0, xf, uf, basis=bb)
                        xb, ub = tb.eval(np.array([T0, Tf]))
                    res["bspline"] = {"xs": [[tok(fr(xb[i, k])) for i in range(n)] for k in range(2)],
                                      "us": [tok(fr(ub[0, k])) for k in range(2)]}
                except Exception as e:  # noqa
                    res["bspline"] = {"err": classify_exc(e), "exc": "%s: %s" % (type(e).__name__, str(e)[:160])}
            return res
        except ValueError as e:
            if "non-finite" in str(e):
                return {"err": "nonfinite", "exc": "non-finite trajectory values"}
            return {"err": classify_exc(e), "exc": "%s: %s" % (type(e).__name__, str(e)[:160])}
        except Exception as e:  # noqa
            return {"err": classify_exc(e), "exc": "%s: %s" % (type(e).__name__, str(e)[:160])}

    def parse_model(self, case, out):
        # >>> C20-multi (user-defined flat systems with several flat outputs: families/c20_multi.py)
        if case.get("kind") == "multi":
            return self.multi.parse_model(case, out)
        # <<< C20-multi
        # >>> C20-hist (call histories on kept objects; typed time stamps / long horizons: families/c20_hist.py)
        if case.get("kind") in ("hist", "tt"):
            return self.hist.parse_model(case, out)
        # <<< C20-hist
        # >>> C20-par
        if case.get("kind") == "par":
            return self.par.parse_model(case, out)
        # <<< C20-par
        # >>> C20-scale
        if case.get("kind") == "sc":
            return self.scale.parse_model(case, out)
        # <<< C20-scale
        s = case["sys"]
        n = s["n"]
        if out.startswith("err "):
            return {"err": out.split()[1]}
        out = [o.strip() for o in out.split("|")]
        res = {}
        t = out[0].split()
        assert t[0] == "ok" and int(t[1]) == n, out[0]
        v = t[2:]
        res["sys"] = {"F": v[:n], "T": v[n:n + n * n], "Tinv": v[n + n * n:n + 2 * n * n],
                      "Cf": v[n + 2 * n * n:]}
        t = out[1].split()
        assert t[0] == "ok"
        v = t[1:]
        res["fr"] = {"fwd": v[:n + 1], "rev": v[n + 1:2 * n + 2], "rt1": v[2 * n + 2:3 * n + 3],
                     "rt2": v[3 * n + 3:4 * n + 4]}
        if case.get("p2p"):
            t = out[2].split()
            if t[0] == "err":
                res["p2p"] = {"err": t[1]}
            else:
                N = int(t[1])
                v = t[2:]
                alpha, rest = v[:N], v[N:]
                k = len(eval_times(case["p2p"]))
                xs = [rest[i * (n + 1):i * (n + 1) + n] for i in range(k)]
                us = [rest[i * (n + 1) + n] for i in range(k)]
                res["p2p"] = {"N": N, "alpha": alpha, "xs": xs, "us": us}
        return res

    # ---- comparison -------------------------------------------------------------
    def feat(self, case, kind, **kw):
        s = case["sys"]
        f = {"kind": kind}
        f.update(kw)
        return f

    @staticmethod
    def vclose(a, b, scale=None, tol=TOL):
        a = [Fraction(x) for x in a]
        b = [Fraction(x) for x in b]
        if len(a) != len(b):
            return False
        sc = max([Fraction(1)] + [abs(x) for x in b] + ([scale] if scale else []))
        return all(abs(x - y) <= tol * sc for x, y in zip(a, b))

    def excfeat(self, d):
        e = d.get("exc", "")
        return {"exc": e.split(":")[0], "msg": re.sub(r"[0-9]+", "#", e.split(":", 1)[-1].strip())[:60]}

    def compare(self, case, impl, model):
        # >>> C20-multi (user-defined flat systems with several flat outputs: families/c20_multi.py)
        if case.get("kind") == "multi":
            return self.multi.compare(case, impl, model)
        # <<< C20-multi
        # >>> C20-hist (call histories on kept objects; typed time stamps / long horizons: families/c20_hist.py)
        if case.get("kind") in ("hist", "tt"):
            return self.hist.compare(case, impl, model)
        # <<< C20-hist
        # >>> C20-par
        if case.get("kind") == "par":
            return self.par.compare(case, impl, model)
        # <<< C20-par
        # >>> C20-scale
        if case.get("kind") == "sc":
            return self.scale.compare(case, impl, model)
        # <<< C20-scale
        s = case["sys"]
        n = s["n"]
        if "err" in model:
            if "err" in impl:
                return Verdict(AGREE)
            return Verdict(DIFFERS, "model raises %s, implementation constructs a flat system" % model["err"],
                           self.feat(case, "constructs-" + model["err"]))
        if "err" in impl:
            return Verdict(VIOLATES, "reachable continuous SISO system rejected: " + impl["exc"],
                           self.feat(case, "construct-raises", **self.excfeat(impl)))
        # --- forward / reverse
        fi, fm = impl["fr"], model["fr"]
        f = case["fr"]
        if "err" in fi:
            return Verdict(VIOLATES, "forward/reverse raise: " + fi["exc"],
                           self.feat(case, "fr-raises", **self.excfeat(fi)))
        xu = f["x"] + [f["u"]]
        if fi["nflag"] != 1 or len(fi["fwd"]) != n + 1:
            return Verdict(VIOLATES, "flag shape", self.feat(case, "flag-shape"))
        scale = max([Fraction(1)] + [abs(F(v)) for v in xu + f["z"] + fm["fwd"] + fm["rev"]])
        if not self.vclose(fi["rt1"], xu, scale):
            return Verdict(VIOLATES, "reverse(forward(x,u)) = %s, (x,u) = %s" % (
                [float(F(v)) for v in fi["rt1"]], [float(F(v)) for v in xu]),
                self.feat(case, "roundtrip-xu"))
        if not self.vclose(fi["rt2"], f["z"], scale):
            return Verdict(VIOLATES, "forward(reverse(z)) = %s, z = %s" % (
                [float(F(v)) for v in fi["rt2"]], [float(F(v)) for v in f["z"]]),
                self.feat(case, "roundtrip-z"))
        # --- point_to_point
        pp = case.get("p2p")
        if pp:
            v = self.compare_p2p(case, impl["p2p"], model["p2p"], pp, s)
            if v is not None:
                return v
        # --- model vs implementation (flag values)
        if not self.vclose(fi["fwd"], fm["fwd"], scale):
            return Verdict(DIFFERS, "forward differs from the model: %s vs %s" % (
                [float(F(v)) for v in fi["fwd"]], [float(F(v)) for v in fm["fwd"]]),
                self.feat(case, "forward-value"))
        if not self.vclose(fi["rev"], fm["rev"], scale):
            return Verdict(DIFFERS, "reverse differs from the model: %s vs %s" % (
                [float(F(v)) for v in fi["rev"]], [float(F(v)) for v in fm["rev"]]),
                self.feat(case, "reverse-value"))
        return Verdict(AGREE)

    def compare_p2p(self, case, pi, pm, pp, s):
        n = s["n"]
        if "err" in pm:
            if "err" in pi:
                return None
            return Verdict(DIFFERS, "model raises %s, point_to_point returns" % pm["err"],
                           self.feat(case, "p2p-returns-" + pm["err"]))
        if "err" in pi:
            return Verdict(VIOLATES, "point_to_point raises: " + pi["exc"],
                           self.feat(case, "p2p-raises", **self.excfeat(pi)))
        bc = pp["x0"] + [pp["u0"]] + pp["xf"] + [pp["uf"]]
        allv = [F(v) for k in range(len(pm["xs"])) for v in pm["xs"][k] + [pm["us"][k]]]
        scale = max([Fraction(1)] + [abs(F(v)) for v in bc] + [abs(v) for v in allv])
        # end points (property, on the implementation)
        if not self.vclose(pi["xs"][0], pp["x0"], scale):
            return Verdict(VIOLATES, "x(T0) = %s, requested %s" % (vals(pi["xs"][0]), vals(pp["x0"])),
                           self.feat(case, "p2p-endpoint", which="initial"))
        if not self.vclose([pi["us"][0]], [pp["u0"]], scale):
            return Verdict(VIOLATES, "u(T0) = %s, requested %s" % (vals([pi["us"][0]]), vals([pp["u0"]])),
                           self.feat(case, "p2p-endpoint", which="initial"))
        if not self.vclose(pi["xs"][1], pp["xf"], scale):
            return Verdict(VIOLATES, "x(Tf) = %s, requested %s" % (vals(pi["xs"][1]), vals(pp["xf"])),
                           self.feat(case, "p2p-endpoint", which="final"))
        if not self.vclose([pi["us"][1]], [pp["uf"]], scale):
            return Verdict(VIOLATES, "u(Tf) = %s, requested %s" % (vals([pi["us"][1]]), vals([pp["uf"]])),
                           self.feat(case, "p2p-endpoint", which="final"))
        # B-spline basis (external evaluator): end points only
        bsr = pi.get("bspline")
        if bsr:
            if "err" in bsr:
                return Verdict(VIOLATES, "point_to_point with a B-spline basis raises: " + bsr["exc"],
                               self.feat(case, "bspline-raises", **self.excfeat(bsr)))
            if not (self.vclose(bsr["xs"][0] + [bsr["us"][0]], pp["x0"] + [pp["u0"]], scale, TOL * 10)
                    and self.vclose(bsr["xs"][1] + [bsr["us"][1]], pp["xf"] + [pp["uf"]], scale, TOL * 10)):
                return Verdict(VIOLATES, "B-spline trajectory end points %s / %s" % (
                    vals(bsr["xs"][0] + [bsr["us"][0]]), vals(bsr["xs"][1] + [bsr["us"][1]])),
                    self.feat(case, "bspline-endpoint"))
        # feasibility (property, on the implementation): exact derivative of the interpolant
        res = self.residual(pi, pp, s)
        if res is not None:
            worst, where, dscale = res
            if worst > TOL * 10 * max(scale, dscale):
                return Verdict(VIOLATES, "d/dt x - (A x + B u) = %.3g at t = %s (scale %.3g)" % (
                    float(worst), float(where), float(max(scale, dscale))),
                    self.feat(case, "p2p-infeasible"))
        # model vs implementation at the sampled times
        for k in range(len(pm["xs"])):
            if not self.vclose(pi["xs"][k] + [pi["us"][k]], pm["xs"][k] + [pm["us"][k]], scale):
                return Verdict(DIFFERS, "trajectory at sample %d: %s, model %s" % (
                    k, vals(pi["xs"][k] + [pi["us"][k]]), vals(pm["xs"][k] + [pm["us"][k]])),
                    self.feat(case, "p2p-trajectory"))
        if pi.get("warn"):
            return Verdict(DIFFERS, "unexpected warning %s" % pi["warn"], self.feat(case, "p2p-warning"))
        return None

    def residual(self, pi, pp, s):
        """max over some nodes of |xdot - A x - B u| computed exactly from the implementation's
        trajectory values at N nodes; None when the values do not determine the polynomial"""
        n = s["n"]
        N = pi["N"]
        ts = nodes_for(pp, N)
        if len(set(ts)) != len(ts) or N < 2:
            return None
        rows = sorted({0, N - 1, N // 2, N // 3, (2 * N) // 3})
        Dm = lagrange_diff_rows(ts, rows)
        A = exmat.from_flat(s["A"], n, n)
        B = [F(v) for v in s["B"]]
        X = [[F(v) for v in col] for col in pi["xn"]]     # X[node][state]
        U = [F(v) for v in pi["un"]]
        worst, where, dscale = Fraction(0), ts[0], Fraction(1)
        for i in rows:
            for st in range(n):
                xdot = sum((Dm[i][j] * X[j][st] for j in range(N)), Fraction(0))
                rhs = sum((A[st][l] * X[i][l] for l in range(n)), Fraction(0)) + B[st] * U[i]
                dscale = max(dscale, abs(xdot), abs(rhs))
                r = abs(xdot - rhs)
                if r > worst:
                    worst, where = r, ts[i]
        return worst, where, dscale

    def nontrivial(self, case, model):
        # >>> C20-multi (user-defined flat systems with several flat outputs: families/c20_multi.py)
        if case.get("kind") == "multi":
            return self.multi.nontrivial(case, model)
        # <<< C20-multi
        # >>> C20-hist (call histories on kept objects; typed time stamps / long horizons: families/c20_hist.py)
        if case.get("kind") in ("hist", "tt"):
            return self.hist.nontrivial(case, model)
        # <<< C20-hist
        # >>> C20-par
        if case.get("kind") == "par":
            return self.par.nontrivial(case, model)
        # <<< C20-par
        # >>> C20-scale
        if case.get("kind") == "sc":
            return self.scale.nontrivial(case, model)
        # <<< C20-scale
        s = case["sys"]
        if "err" in model or s["n"] < 2:
            return False
        f = case["fr"]
        data = f["x"] + [f["u"]] + f["z"]
        return any(F(v) != 0 for v in data)

    def stats(self, case, impl, model):
        # >>> C20-multi (user-defined flat systems with several flat outputs: families/c20_multi.py)
        if case.get("kind") == "multi":
            return self.multi.stats(case, impl, model)
        # <<< C20-multi
        # >>> C20-hist (call histories on kept objects; typed time stamps / long horizons: families/c20_hist.py)
        if case.get("kind") in ("hist", "tt"):
            return self.hist.stats(case, impl, model)
        # <<< C20-hist
        # >>> C20-par
        if case.get("kind") == "par":
            return self.par.stats(case, impl, model)
        # <<< C20-par
        # >>> C20-scale
        if case.get("kind") == "sc":
            return self.scale.stats(case, impl, model)
        # <<< C20-scale
        s = case["sys"]
        st = {"order": s["n"], "outcome": ("err:" + model["err"]) if "err" in model else "ok"}
        if "err" in model and "err" in impl:
            st["errkind_equal"] = impl["err"] == model["err"]
        pp = case.get("p2p")
        if pp and "err" not in model:
            st["basis"] = pp["basis"]["kind"]
            st["extra_coefs"] = pp["basis"]["N"] - 2 * (s["n"] + 1) if pp["basis"]["kind"] != "D" else 0
            st["p2p"] = ("err:" + model["p2p"]["err"]) if "err" in model["p2p"] else "ok"
            st["via"] = pp["via"]
            st["bspline_validated"] = bool(pp.get("bspline"))
        return st

    # ---- shrinking / search ----------------------------------------------------
    def shrink(self, case):
        # >>> C20-multi (user-defined flat systems with several flat outputs: families/c20_multi.py)
        if case.get("kind") == "multi":
            yield from self.multi.shrink(case)
            return
        # <<< C20-multi
        # >>> C20-hist (call histories on kept objects; typed time stamps / long horizons: families/c20_hist.py)
        if case.get("kind") in ("hist", "tt"):
            yield from self.hist.shrink(case)
            return
        # <<< C20-hist
        # >>> C20-par
        if case.get("kind") == "par":
            yield from self.par.shrink(case)
            return
        # <<< C20-par
        # >>> C20-scale
        if case.get("kind") == "sc":
            yield from self.scale.shrink(case)
            return
        # <<< C20-scale
        if case.get("p2p"):
            c = dict(case)
            c["p2p"] = None
            yield c
        z = lambda v: ["0"] * len(v)
        f = case["fr"]
        for key in ("x", "z"):
            if any(F(v) != 0 for v in f[key]):
                c = dict(case)
                c["fr"] = dict(f)
                c["fr"][key] = z(f[key])
                yield c
        if case.get("p2p"):
            pp = case["p2p"]
            for key in ("x0", "xf"):
                if any(F(v) != 0 for v in pp[key]):
                    c = dict(case)
                    c["p2p"] = dict(pp)
                    c["p2p"][key] = z(pp[key])
                    yield c
            for key in ("u0", "uf"):
                if F(pp[key]) != 0:
                    c = dict(case)
                    c["p2p"] = dict(pp)
                    c["p2p"][key] = "0"
                    yield c
            # round the data
            c = dict(case)
            c["p2p"] = dict(pp)
            for key in ("x0", "xf"):
                c["p2p"][key] = [tok(Fraction(round(F(v)))) for v in pp[key]]
            for key in ("u0", "uf"):
                c["p2p"][key] = tok(Fraction(round(F(pp[key]))))
            yield c
        c = dict(case)
        c["fr"] = {"x": [tok(Fraction(round(F(v)))) for v in f["x"]], "u": tok(Fraction(round(F(f["u"])))),
                   "z": [tok(Fraction(round(F(v)))) for v in f["z"]]}
        yield c

    def search(self, rng, case, tier):
        # >>> C20-multi (user-defined flat systems with several flat outputs: families/c20_multi.py)
        if case.get("kind") == "multi":
            return self.multi.search(rng, case, tier)
        # <<< C20-multi
        # >>> C20-hist (call histories on kept objects; typed time stamps / long horizons: families/c20_hist.py)
        if case.get("kind") in ("hist", "tt"):
            return self.hist.search(rng, case, tier)
        # <<< C20-hist
        # >>> C20-par
        if case.get("kind") == "par":
            return self.par.search(rng, case, tier)
        # <<< C20-par
        # >>> C20-scale
        if case.get("kind") == "sc":
            return self.scale.search(rng, case, tier)
        # <<< C20-scale
        return [self.gen_case(rng, tier) for _ in range(200)]


FAMILY = C20
