"""C03 — conversions between representations: correspondence between the public conversion API
(ss, tf, ss2tf, tf2ss, to_ss, to_tf, zpk, ssdata, tfdata, frd(sys, omega), mixed-type + - *) and
the Lean model `CtrlVerif.Model.Convert` (driver family `cv`; FRD-with-LTI operators through the
`frd` family of C09)."""
import operator
import re
from fractions import Fraction

import numpy as np
import control as ct

from core.runner import Family, Verdict, AGREE, VIOLATES, DIFFERS
from core import exact, exmat
from core.exact import fr, tok, Tokens

DT01 = exact.dt_tok(0.1)
DT025 = exact.dt_tok(0.25)
DTS = ["C", "C", "N", "T", DT01, DT025]
TAU = Fraction(1, 10 ** 10)         # per unit of conditioning (see `cond`)
COND_MAX = Fraction(10 ** 4)
TAU_FRD = Fraction(1, 10 ** 8)
POINTS = [Fraction(7, 3), Fraction(-11, 5), Fraction(13, 7), Fraction(-17, 4), Fraction(23, 6),
          Fraction(29, 9), Fraction(-31, 8), Fraction(37, 10), Fraction(-41, 12), Fraction(43, 5),
          Fraction(47, 11), Fraction(-53, 13), Fraction(59, 14), Fraction(61, 15), Fraction(-67, 16),
          Fraction(5, 7), Fraction(-3, 8), Fraction(9, 4), Fraction(-19, 3), Fraction(71, 9),
          Fraction(-5, 2), Fraction(11, 2), Fraction(-13, 3), Fraction(17, 5), Fraction(-23, 7),
          Fraction(1, 3), Fraction(-2, 5), Fraction(31, 4), Fraction(-37, 6), Fraction(41, 7),
          Fraction(53, 6), Fraction(-59, 7), Fraction(67, 8), Fraction(-73, 9), Fraction(79, 10),
          Fraction(83, 11), Fraction(-89, 12), Fraction(97, 13), Fraction(-101, 14), Fraction(103, 15)]
OMEGAS = ["1/2", "3/2", "5/2", "3/4", "7/4", "9/4", "1/4", "5/4", "7/2", "11/4"]
NAMES = ["P", "Q", "plant", "ctrl"]
LABS = ["a", "b", "c", "d", "e", "f", "in1", "in2", "in3", "out1", "out2", "out3"]
OPS = {"add": operator.add, "sub": operator.sub, "mul": operator.mul}
STEPS = ("tf", "ss2tf", "ss", "tfdata", "ssdata")
GEN = "sys[*]"


# ----------------------------------------------------------------------------
# case = {"prog": [item...]}   (postfix stack program)   or   {"frdop": {...}}
#   ["SS", [name, ins, outs], n, p, m, dt, A, B, C, D]        flat row-major rational tokens
#   ["TF", [name, ins, outs], p, m, dt, [[num, den]...], dtype]
#   ["ZPK", [name, ins, outs], dt, zs, ps, k]
#   ["tf", kw, via] ["ss2tf", kw] ["ss", kw, via] ["tfdata", via?] ["ssdata", via?]     kw = [name, ins, outs]
#   (via: tf | to_tf;  ss | to_ss | tf2ss;  tfdata = tf(*tfdata(x), x.dt) | ss2tf4 = ss2tf(A, B, C, D, dt);
#    ssdata = ss(*ssdata(x), x.dt) | tf2ss3 = tf2ss(num, den, dt))
#   ["op", name]     ["frd", ws, kw]
#   option remove_useless_states (statesp.py:239-279, 350-377):
#   ["SS", ..., D, rus]          11th element: keyword on ss(A, B, C, D, dt, ...)   (True | False; absent/None = not given)
#   ["ss", kw, via, rus]         4th element: keyword on ss(sys) / sys.to_ss() / tf2ss(sys)
#   ["cfg", "on" | "off" | "legacy" | "reset"]    set_defaults('statesp', remove_useless_states=True|False) /
#                                use_legacy_defaults('0.8.4') / reset_defaults() at this point of the session
# ----------------------------------------------------------------------------

def canon_key(case):
    import json
    return json.dumps(case, sort_keys=True, separators=(",", ":"), default=str)


def dlabels(pre, n):
    return ["%s[%d]" % (pre, i) for i in range(n)]


def names_tok(mt):
    name, ins, outs = mt
    return "%s %d %s %d %s" % (name, len(ins), " ".join(ins), len(outs), " ".join(outs))


def kw_tok(kw):
    name, ins, outs = kw
    s = "-" if name is None else "= " + name
    s += " -" if ins is None else " = %d %s" % (len(ins), " ".join(ins))
    s += " -" if outs is None else " = %d %s" % (len(outs), " ".join(outs))
    return s


def flag_tok(v):
    return "-" if v is None else ("1" if v else "0")


def item_tok(it):
    k = it[0]
    if k == "SS":
        _, mt, n, p, m, dt, A, B, C, D = it[:10]
        rus = it[10] if len(it) > 10 else None
        head = "SS" if rus is None else "SSK %s" % flag_tok(rus)
        return "%s %s %d %d %d %s %s" % (head, names_tok(mt), n, p, m, dt, " ".join(A + B + C + D))
    if k == "TF":
        _, mt, p, m, dt, ents, _dtype = it
        s = "TF %s %d %d %s" % (names_tok(mt), p, m, dt)
        for (n, d) in ents:
            s += " %d %s %d %s" % (len(n), " ".join(n), len(d), " ".join(d))
        return s
    if k == "ZPK":
        _, mt, dt, zs, ps, kk = it
        return "ZPK %s %s %d %s %d %s %s" % (names_tok(mt), dt, len(zs), " ".join(zs),
                                              len(ps), " ".join(ps), kk)
    if k == "ss" and len(it) > 3 and it[3] is not None:
        return "ssk %s %s" % (flag_tok(it[3]), kw_tok(it[1]))
    if k in ("tf", "ss2tf", "ss"):
        return "%s %s" % (k, kw_tok(it[1]))
    if k == "tfdata":
        # ss2tf(A, B, C, D, dt) calls the StateSpace constructor before converting
        base = "ss2tf4" if len(it) > 1 and it[1] == "ss2tf4" else "tfdata"
        # factory form with keywords: ss2tf(A, B, C, D, dt, name=, inputs=, outputs=) / tf(num, den, dt, ...)
        # names the result like tf(<the data-route result>, name=, inputs=, outputs=)
        return base + " tf " + kw_tok(it[2]) if len(it) > 2 and it[2] is not None else base
    if k == "ssdata":
        return k + " ss " + kw_tok(it[2]) if len(it) > 2 and it[2] is not None else k
    if k == "cfg":
        return "cfg " + it[1]
    if k == "op":
        return "op " + it[1]
    if k == "frd":
        return "frd %d %s %s" % (len(it[1]), " ".join(it[1]), kw_tok(it[2]))
    raise ValueError(k)


def dt_value(tokn):
    if tokn == "N":
        return None
    if tokn == "T":
        return True
    if tokn == "C":
        return 0
    return float(Fraction(tokn[1:]))


def prog_dts(prog):
    out = set()
    for it in prog:
        if it[0] == "SS":
            out.add(it[5])
        elif it[0] == "TF":
            out.add(it[4])
        elif it[0] == "ZPK":
            out.add(it[2])
    return out


def expj_table(prog):
    """NumPy's exp(1j*omega*dt) on the grid of the terminal frd() call, computed the way the
    FrequencyResponseData constructor computes it (external: its values are given to the model)."""
    ws = None
    for it in prog:
        if it[0] == "frd":
            ws = it[1]
    if ws is None:
        return []
    out = []
    for dt in sorted(prog_dts(prog)):
        if dt == "T":
            htok, h = "1", True
        elif dt.startswith("D"):
            htok, h = dt[1:], float(Fraction(dt[1:]))
        else:
            continue
        for w in sorted(set(ws)):
            z = np.exp(1j * np.array([float(Fraction(w))]) * h)[0]
            out.append("%s %s %s %s" % (htok, w, tok(fr(z.real)), tok(fr(z.imag))))
    return out


def norm_name(s):
    return re.sub(r"sys\[\d+\]", GEN, s)


def classify_exc(e):
    msg = str(e)
    if isinstance(e, ZeroDivisionError):
        return "zeroDen"
    if type(e).__name__ == "ControlMIMONotImplemented":
        return "notImplemented"
    if isinstance(e, ValueError):
        if "non-proper" in msg or "Improper" in msg:
            return "nonProper"
        if "timebase" in msg or "Time steps" in msg:
            return "timebase"
        if "zero denominator" in msg:
            return "zeroDen"
        return "shape"
    if isinstance(e, TypeError):
        if "must be a StateSpace" in msg:
            return "badArg"
        return "notImplemented"
    if isinstance(e, NotImplementedError):
        return "notImplemented"
    return type(e).__name__


# ---- exact oracle on system data -------------------------------------------------

def flv_exact(A, B, C, D, p, m):
    """exact (den, num[i][j]) of C (sI-A)^-1 B + D by Faddeev-LeVerrier over Fractions"""
    n = len(A)
    den = [Fraction(1)]
    num = [[[D[i][j]] for j in range(m)] for i in range(p)]
    M = exmat.eye(n)
    for k in range(1, n + 1):
        CMB = exmat.mul(exmat.mul(C, M), B) if (p and m) else []
        AM = exmat.mul(A, M)
        c = -sum((AM[i][i] for i in range(n)), Fraction(0)) / k
        den.append(c)
        for i in range(p):
            for j in range(m):
                num[i][j].append(CMB[i][j] + c * D[i][j])
        M = exmat.add(AM, exmat.scale(c, exmat.eye(n)))
    return den, num


def obj_fracs(o):
    """exact (num, den) per entry of a canonical ss/tf object"""
    p, m = o["p"], o["m"]
    if o["type"] == "tf":
        return [[([Fraction(x) for x in o["ent"][i * m + j][0]],
                  [Fraction(x) for x in o["ent"][i * m + j][1]]) for j in range(m)] for i in range(p)]
    n = o["n"]
    A, B = exmat.from_flat(o["A"], n, n), exmat.from_flat(o["B"], n, m)
    C, D = exmat.from_flat(o["C"], p, n), exmat.from_flat(o["D"], p, m)
    den, num = flv_exact(A, B, C, D, p, m)
    return [[(num[i][j], den) for j in range(m)] for i in range(p)]


def obj_eval(o, s):
    """exact value of the transfer matrix of a canonical ss/tf object at s (None at a pole)"""
    p, m = o["p"], o["m"]
    if o["type"] == "tf":
        Y = []
        for i in range(p):
            row = []
            for j in range(m):
                nn, dd = o["ent"][i * m + j]
                d = exact.pval([Fraction(x) for x in dd], s)
                if d == 0:
                    return None
                row.append(exact.pval([Fraction(x) for x in nn], s) / d)
            Y.append(row)
        return Y
    n = o["n"]
    return exmat.ss_eval(exmat.from_flat(o["A"], n, n), exmat.from_flat(o["B"], n, m),
                         exmat.from_flat(o["C"], p, n), exmat.from_flat(o["D"], p, m), s, p, m)


def leaf_value(it, s):
    """exact transfer matrix of a leaf of a program at s (None at a pole / unknown leaf kind)"""
    try:
        if it[0] == "SS":
            _, _mt, n, p, m, _dt, A, B, C, D = it[:10]
            return exmat.ss_eval(exmat.from_flat(A, n, n), exmat.from_flat(B, n, m),
                                 exmat.from_flat(C, p, n), exmat.from_flat(D, p, m), s, p, m)
        if it[0] == "TF":
            _, _mt, p, m, _dt, ents, _dtype = it
            Y = []
            for i in range(p):
                row = []
                for j in range(m):
                    nn, dd = ents[i * m + j]
                    d = exact.pval([Fraction(x) for x in dd], s)
                    if d == 0:
                        return None
                    row.append(exact.pval([Fraction(x) for x in nn], s) / d)
                Y.append(row)
            return Y
        if it[0] == "ZPK":
            _, _mt, _dt, zs, ps, kk = it
            num = Fraction(kk)
            for z in zs:
                num *= (s - Fraction(z))
            den = Fraction(1)
            for q in ps:
                den *= (s - Fraction(q))
            return None if den == 0 else [[num / den]]
    except Exception:  # noqa  (complex roots etc.: no bound, the plain tolerance applies)
        return None
    return None


def op_term_scale(prog, s):
    """for a program whose value is a sum of terms that may cancel (mixed-type + - *): the largest
    entry of |A|+|B| resp. |A| |B| (entrywise absolute values, matrix product) at s - the magnitude the
    rounding errors of the operands are relative to.  Conversions keep the value (that is the property),
    so the stack is evaluated on the leaves.  None when it cannot be evaluated exactly."""
    st = []
    for it in prog:
        k = it[0]
        if k in ("SS", "TF", "ZPK"):
            v = leaf_value(it, s)
            if v is None:
                return None
            a = [[abs(x) for x in r] for r in v]
            st.append((v, a))
        elif k == "op":
            if len(st) < 2:
                return None
            (vb, ab), (va, aa) = st.pop(), st.pop()
            try:
                if it[1] == "mul":
                    if len(va) and len(vb) and len(va[0]) == 1 and len(va) == 1 and (len(vb), len(vb[0])) != (1, 1):
                        va, aa = [[va[0][0] if i == j else Fraction(0) for j in range(len(vb))] for i in range(len(vb))], \
                                 [[aa[0][0] if i == j else Fraction(0) for j in range(len(vb))] for i in range(len(vb))]
                    elif len(vb) == 1 and len(vb[0]) == 1 and (len(va), len(va[0])) != (1, 1):
                        k2 = len(va[0])
                        vb, ab = [[vb[0][0] if i == j else Fraction(0) for j in range(k2)] for i in range(k2)], \
                                 [[ab[0][0] if i == j else Fraction(0) for j in range(k2)] for i in range(k2)]
                    if len(va[0]) != len(vb):
                        return None
                    st.append((exmat.mul(va, vb), exmat.mul(aa, ab)))
                else:
                    if (len(va), len(va[0])) != (len(vb), len(vb[0])):
                        return None
                    v = exmat.add(va, vb) if it[1] == "add" else exmat.sub(va, vb)
                    st.append((v, exmat.add(aa, ab)))
            except Exception:  # noqa
                return None
        elif k in ("cfg",):
            continue
        elif k in STEPS or k == "frd":
            continue
        else:
            return None
    if len(st) != 1:
        return None
    return exmat.maxabs(st[0][1]) if st[0][1] and st[0][1][0] else None



def cond(fracs, s):
    """conditioning of the value at s with respect to relative perturbations of the coefficients:
    max over entries of (sum|n_k||s|^k + |Y| sum|d_k||s|^k) / (|d(s)| max(1,|Y|)); None at a pole"""
    worst = Fraction(0)
    a = abs(s)
    for row in fracs:
        for (nn, dd) in row:
            d = exact.pval(dd, s)
            if d == 0:
                return None
            y = abs(exact.pval(nn, s) / d)
            nbar = exact.pval([abs(x) for x in nn], a)
            dbar = exact.pval([abs(x) for x in dd], a)
            worst = max(worst, (nbar + y * dbar) / (abs(d) * max(Fraction(1), y)))
    return worst


# ---- running the real code ----------------------------------------------------------

def kwargs_of(kw):
    name, ins, outs = kw
    d = {}
    if name is not None:
        d["name"] = name
    if ins is not None:
        d["inputs"] = list(ins)
    if outs is not None:
        d["outputs"] = list(outs)
    return d


def leaf_kwargs(mt, p, m):
    name, ins, outs = mt
    d = {}
    if name != GEN:
        d["name"] = name
    if ins != dlabels("u", m):
        d["inputs"] = list(ins)
    if outs != dlabels("y", p):
        d["outputs"] = list(outs)
    return d


def build_leaf(it):
    k = it[0]
    if k == "SS":
        _, mt, n, p, m, dt, A, B, C, D = it[:10]
        f = lambda v, r, c: np.array([float(Fraction(x)) for x in v], dtype=float).reshape(r, c)
        kw = leaf_kwargs(mt, p, m)
        if len(it) > 10 and it[10] is not None:
            kw["remove_useless_states"] = bool(it[10])
        return ct.ss(f(A, n, n), f(B, n, m), f(C, p, n), f(D, p, m), dt_value(dt), **kw)
    if k == "TF":
        _, mt, p, m, dt, ents, dtype = it

        def arr(v):
            q = [Fraction(x) for x in v]
            if dtype == "int" and all(x.denominator == 1 for x in q):
                return [int(x) for x in q]
            return [float(x) for x in q]
        if p == 1 and m == 1 and dtype != "nested":
            num, den = arr(ents[0][0]), arr(ents[0][1])
        else:
            num = [[arr(ents[i * m + j][0]) for j in range(m)] for i in range(p)]
            den = [[arr(ents[i * m + j][1]) for j in range(m)] for i in range(p)]
        return ct.tf(num, den, dt_value(dt), **leaf_kwargs(mt, p, m))
    if k == "ZPK":
        _, mt, dt, zs, ps, kk = it
        f = lambda v: [float(Fraction(x)) for x in v]
        return ct.zpk(f(zs), f(ps), float(Fraction(kk)), dt_value(dt), **leaf_kwargs(mt, 1, 1))
    raise ValueError(k)


def apply_cfg(what):
    """a configuration event of the session (control/config.py)"""
    import warnings
    if what == "on":
        ct.set_defaults("statesp", remove_useless_states=True)
    elif what == "off":
        ct.set_defaults("statesp", remove_useless_states=False)
    elif what == "legacy":
        with warnings.catch_warnings():
            warnings.simplefilter("ignore")
            ct.use_legacy_defaults("0.8.4")
    elif what == "reset":
        ct.reset_defaults()
    else:
        raise ValueError(what)


def run_prog(prog):
    if not any(it[0] == "cfg" for it in prog):
        return run_prog0(prog)
    try:
        return run_prog0(prog)
    finally:
        ct.reset_defaults()         # the session ends here: the next case starts from the defaults


def run_prog0(prog):
    st = []
    for it in prog:
        k = it[0]
        if k in ("SS", "TF", "ZPK"):
            st.append(build_leaf(it))
        elif k == "cfg":
            apply_cfg(it[1])
        elif k == "tf":
            x = st.pop()
            st.append(x.to_tf(**kwargs_of(it[1])) if it[2] == "to_tf" else ct.tf(x, **kwargs_of(it[1])))
        elif k == "ss2tf":
            x = st.pop()
            st.append(ct.ss2tf(x, **kwargs_of(it[1])))
        elif k == "ss":
            x = st.pop()
            kw = kwargs_of(it[1])
            if len(it) > 3 and it[3] is not None:
                kw["remove_useless_states"] = bool(it[3])
            if it[2] == "to_ss":
                st.append(x.to_ss(**kw))
            elif it[2] == "tf2ss":
                st.append(ct.tf2ss(x, **kw))
            else:
                st.append(ct.ss(x, **kw))
        elif k == "tfdata":
            x = st.pop()
            via = it[1] if len(it) > 1 else "tfdata"
            fkw = kwargs_of(it[2]) if len(it) > 2 and it[2] is not None else {}
            if via == "ss2tf4" and isinstance(x, ct.StateSpace):
                st.append(ct.ss2tf(x.A, x.B, x.C, x.D, x.dt, **fkw))      # ss2tf(A, B, C, D, dt)
            else:
                num, den = ct.tfdata(x)
                st.append(ct.tf(num, den, x.dt, **fkw))
        elif k == "ssdata":
            x = st.pop()
            via = it[1] if len(it) > 1 else "ssdata"
            fkw = kwargs_of(it[2]) if len(it) > 2 and it[2] is not None else {}
            if via == "tf2ss3" and isinstance(x, ct.TransferFunction):
                st.append(ct.tf2ss(x.num, x.den, x.dt, **fkw))             # tf2ss(num, den, dt)
            else:
                A, B, C, D = ct.ssdata(x)
                st.append(ct.ss(A, B, C, D, x.dt, **fkw))
        elif k == "op":
            b = st.pop()
            a = st.pop()
            st.append(OPS[it[1]](a, b))
        elif k == "frd":
            x = st.pop()
            st.append(ct.frd(x, [float(Fraction(w)) for w in it[1]], **kwargs_of(it[2])))
        else:
            raise ValueError(k)
    assert len(st) == 1
    return st[0]


def canon_result(r):
    base = {"name": norm_name(r.name), "ins": list(r.input_labels), "outs": list(r.output_labels),
            "dt": exact.dt_canon(r.dt), "p": r.noutputs, "m": r.ninputs}
    p, m = r.noutputs, r.ninputs
    if isinstance(r, ct.StateSpace):
        n = r.nstates
        base.update({"type": "ss", "n": n,
                     "A": exmat.flat_tokens(exmat.from_np(r.A, n, n)),
                     "B": exmat.flat_tokens(exmat.from_np(r.B, n, m)),
                     "C": exmat.flat_tokens(exmat.from_np(r.C, p, n)),
                     "D": exmat.flat_tokens(exmat.from_np(r.D, p, m))})
        return {"ok": base}
    if isinstance(r, ct.TransferFunction):
        ents = []
        for i in range(p):
            for j in range(m):
                ents.append([[tok(fr(x)) for x in np.atleast_1d(r.num_array[i, j])],
                             [tok(fr(x)) for x in np.atleast_1d(r.den_array[i, j])]])
        base.update({"type": "tf", "ent": ents})
        return {"ok": base}
    if isinstance(r, ct.FrequencyResponseData):
        data = []
        for k in range(len(r.omega)):
            for i in range(p):
                for j in range(m):
                    z = complex(r.frdata[i, j, k])
                    data.append([tok(fr(z.real)), tok(fr(z.imag))])
        base.update({"type": "frd", "omega": [tok(fr(w)) for w in r.omega], "data": data})
        return {"ok": base}
    return {"ok": {"type": "other", "repr": type(r).__name__}}


# ---- FRD (op) LTI cases use the `frd` family of C09 ----------------------------------

def frdop_line(c):
    from families import c09
    tree = frdop_tree(c)
    tab = c09.expj_table(tree)
    return "frd X %d %s %s" % (len(tab), " ".join(tab), c09.flatten(tree))


def frdop_tree(c):
    F = ["F", c["p"], c["m"], 0, "C", c["ws"], c["data"]]
    L = c["lti"]
    return [c["op"], F, L] if c["order"] == "FL" else [c["op"], L, F]


def frdop_run(c):
    ws = [float(Fraction(w)) for w in c["ws"]]
    n, p, m = len(ws), c["p"], c["m"]
    data = np.zeros((p, m, n), dtype=complex)
    it = iter(c["data"])
    for k in range(n):
        for i in range(p):
            for j in range(m):
                re_, im_ = next(it)
                data[i, j, k] = complex(float(Fraction(re_)), float(Fraction(im_)))
    L = frd_build_lti(c["lti"])
    # the FRD operand gets the timebase of the LTI operand (timebase mismatches belong to C05)
    F = ct.frd(data, ws, dt=L.dt)
    a, b = (F, L) if c["order"] == "FL" else (L, F)
    return OPS[c["op"]](a, b)


def frd_build_lti(l):
    if l[0] == "LS":
        _, ns, p, m, dt, A, B, C, D = l
        f = lambda v, r, cc: np.array([float(Fraction(x)) for x in v], dtype=float).reshape(r, cc)
        return ct.ss(f(A, ns, ns), f(B, ns, m), f(C, p, ns), f(D, p, m), dt_value(dt))
    _, p, m, dt, ents = l
    arr = lambda v: [float(Fraction(x)) for x in v]
    if p == 1 and m == 1:
        return ct.tf(arr(ents[0][0]), arr(ents[0][1]), dt_value(dt))
    num = [[arr(ents[i * m + j][0]) for j in range(m)] for i in range(p)]
    den = [[arr(ents[i * m + j][1]) for j in range(m)] for i in range(p)]
    return ct.tf(num, den, dt_value(dt))


class C03(Family):
    prop = "C03"
    extra_modules = ["CtrlVerif.Props.C03FL",     # Faddeev-LeVerrier correct as an algorithm (no certificate hypothesis)
                     "CtrlVerif.Props.C03Rus"]    # remove_useless_states / configuration history preserve the map
    extra_modules = extra_modules + ["CtrlVerif.Props.C03GenSS", "CtrlVerif.Props.C03GenTF",
                                     "CtrlVerif.Props.C03GenData"]   # source-text tie (py2lean_conv)
    extra_modules = extra_modules + ["CtrlVerif.Props.C03GenFrdCtor"]   # source-text tie of FRD.__init__ / frd (py2lean_frdctor)

    def pre_build(self):
        import os
        from core import py2lean_conv, leanproj
        problems, self.gen_info_conv = py2lean_conv.regenerate(os.environ.get("VERIF_REPO") or "/repo", leanproj.LEAN)
        from core import py2lean_frdctor
        problems_fc, self.gen_info_frdctor = py2lean_frdctor.regenerate(os.environ.get("VERIF_REPO") or "/repo", leanproj.LEAN)
        problems = problems + problems_fc
        return problems
    externals = ["scipy.signal.tf2ss (exact counterpart in the model: normalize + controller canonical form)",
                 "scipy.signal.ss2tf / numpy.poly of eigenvalues (model: certified Faddeev-LeVerrier; "
                 "values compared at rational points within a conditioning-scaled tolerance)",
                 "scipy.signal.zpk2tf / numpy.poly (exact counterpart in the model)",
                 "numpy.exp(1j*omega*dt) (values supplied to the model)",
                 "numpy.linalg.solve inside StateSpace.horner (frd(sys, omega); model: det^-1 * adjugate)",
                 "numpy.any / where / intersect1d / union1d / delete inside _remove_useless_states (model: exact "
                 "zero tests on rows and columns, restriction to the kept states)"]
    assumptions = [
        "Slycot is absent (MIMO tf -> ss raises ControlMIMONotImplemented; ss -> tf goes through "
        "scipy.signal.ss2tf)",
        "regime T: the implementation's coefficient arrays / state matrices are evaluated exactly "
        "(Fractions of the floats) at rational points that are not poles and compared with the model's "
        "exact values within 1e-10 * cond(s) * max(1,|Y|), cond <= 1e4 (points with larger "
        "conditioning are skipped); FRD data within 1e-8 relative",
        "the timebase of the result of a mixed-type operator is decided by C05 (operands are generated "
        "with compatible timebases); the timebase of FRD (op) LTI results is not compared (FRD "
        "operators drop dt: C05)",
        "systems whose transfer matrix is identically zero although B and C are not (so that the "
        "static/dynamic branch of a later MIMO tf -> ss would depend on rounding) are not generated",
        "remove_useless_states: the zero tests of the code act on floats, those of the model on the exact "
        "values; they coincide on integer leaves, on SciPy's controller form (zero iff the coefficient is "
        "zero) and on block operators of such data; where they could differ (after an eigenvalue-based "
        "ss -> tf) only the number of states differs, which is not compared (values are)",
        "use_legacy_defaults('0.8.4') is modelled by its effect on statesp.remove_useless_states only; the "
        "generated sessions pass every timebase explicitly, so control.default_dt does not matter"]
    rule = ("postfix programs: a leaf (StateSpace 0..4 states, shapes {1,2,3}^2, integer matrices -3..3; "
            "TransferFunction SISO degree 0..3 proper / biproper / non-proper, MIMO static / dynamic / "
            "non-proper in every position of the nested length comparison; zpk with rational zeros and "
            "poles), all four timebase kinds, custom or generic names and labels, followed by a chain of "
            "conversions (tf, to_tf, ss2tf, ss, to_ss, tf2ss, tfdata, ssdata; keyword overrides of "
            "name/inputs/outputs) of length <= 4 (quick) / <= 8 (thorough), optionally ended by "
            "frd(sys, omega) on an unsorted grid or by a mixed-type + - * with a second such object; plus "
            "the full (class x class x op) table over {ss, tf, frd} with SISO, MIMO, static and "
            "non-proper operands; plus sessions around structured systems (integrator chains, nilpotent / "
            "triangular A, zero rows and columns of A, B, C in every pairing, transfer functions a0 s^k q(s) with "
            "sparse numerators) with the keyword remove_useless_states on ss(A,B,C,D) / ss(sys) / to_ss / tf2ss "
            "and the configuration events set_defaults('statesp', remove_useless_states=...) / "
            "use_legacy_defaults / reset_defaults at any point of the session.  A case is non-trivial when it converts a system with states / "
            "non-constant entries at least once; distinct = distinct canonical serialisation")

    # ---- generation ------------------------------------------------------------
    def meta(self, rng, p, m):
        if rng.random() < 0.45:
            return [GEN, dlabels("u", m), dlabels("y", p)]
        name = rng.choice(NAMES) if rng.random() < 0.8 else GEN
        ins = rng.sample(LABS, m) if rng.random() < 0.8 else dlabels("u", m)
        outs = rng.sample(LABS, p) if rng.random() < 0.8 else dlabels("y", p)
        return [name, ins, outs]

    def kw(self, rng, p, m):
        if rng.random() < 0.7:
            return [None, None, None]
        return [rng.choice(NAMES) if rng.random() < 0.5 else None,
                rng.sample(LABS, m) if rng.random() < 0.4 else None,
                rng.sample(LABS, p) if rng.random() < 0.4 else None]

    def leaf_ss(self, rng, shape, dt, n=None, maxn=4):
        p, m = shape
        if n is None:
            n = rng.choice([0, 1, 1, 2, 2, 3, 3, 4][:maxn + 4])
            n = min(n, maxn)
        for _ in range(50):
            A = [rng.randint(-3, 3) for _ in range(n * n)]
            B = [rng.randint(-3, 3) for _ in range(n * m)]
            C = [rng.randint(-3, 3) for _ in range(p * n)]
            D = [0] * (p * m) if rng.random() < 0.35 else [rng.randint(-3, 3) for _ in range(p * m)]
            if n == 0 or not self.degenerate(A, B, C, D, n, p, m):
                break
        s = lambda v: [tok(Fraction(x)) for x in v]
        return ["SS", self.meta(rng, p, m), n, p, m, dt, s(A), s(B), s(C), s(D)]

    @staticmethod
    def degenerate(A, B, C, D, n, p, m):
        """some entry of the transfer matrix has an identically zero numerator although the
        corresponding row of C and column of B are not zero: its floating-point image need not be
        exactly zero, so later structural branches would depend on rounding"""
        Am, Bm = exmat.from_flat(A, n, n), exmat.from_flat(B, n, m)
        Cm, Dm = exmat.from_flat(C, p, n), exmat.from_flat(D, p, m)
        _, num = flv_exact(Am, Bm, Cm, Dm, p, m)
        for i in range(p):
            for j in range(m):
                if all(x == 0 for x in num[i][j]):
                    if any(Bm[k][j] != 0 for k in range(n)) and any(Cm[i][k] != 0 for k in range(n)):
                        return True
        return False

    def poly(self, rng, deg, lead_nonzero=True):
        c = [rng.randint(-4, 4) for _ in range(deg + 1)]
        if lead_nonzero and c[0] == 0:
            c[0] = rng.choice([-2, -1, 1, 2, 3])
        return c

    def frac(self, rng, kind):
        """kind: static | proper | strict | biproper | nonproper"""
        if kind == "static":
            return [self.poly(rng, 0), self.poly(rng, 0)] if rng.random() < 0.8 else [[0], self.poly(rng, 0)]
        dd = rng.choice([1, 2, 2, 3])
        if kind == "nonproper":
            dd = rng.choice([0, 1, 2])
            nd = dd + rng.choice([1, 1, 2])
        elif kind == "biproper":
            nd = dd
        elif kind == "strict":
            nd = rng.randint(0, dd - 1)
        else:
            nd = rng.randint(0, dd)
        den = self.poly(rng, dd)
        if rng.random() < 0.5:
            den[0] = 1
        num = self.poly(rng, nd)
        if kind == "strict" and rng.random() < 0.1:
            num = [0]
        return [num, den]

    def leaf_tf(self, rng, shape, dt, kind=None):
        p, m = shape
        if kind is None:
            if (p, m) == (1, 1):
                kind = rng.choice(["proper", "proper", "biproper", "biproper", "strict", "static", "nonproper"])
            else:
                kind = rng.choice(["static", "static", "proper", "mixed-nonproper", "mixed-nonproper"])
        ents = []
        for i in range(p):
            for j in range(m):
                if kind == "mixed-nonproper":
                    k2 = rng.choice(["nonproper", "strict", "biproper", "static"])
                else:
                    k2 = kind
                ents.append(self.frac(rng, k2))
        dtype = rng.choice(["int", "float", "float"]) if (p, m) != (1, 1) else \
            rng.choice(["int", "float", "float", "nested"])
        s = lambda v: [tok(Fraction(x)) for x in v]
        return ["TF", self.meta(rng, p, m), p, m, dt, [[s(n), s(d)] for (n, d) in ents], dtype]

    def leaf_zpk(self, rng, dt):
        nz_pool = ["0", "1", "-1", "2", "-2", "-3", "1/2", "-1/2", "3/2", "-1/4", "1/3", "-2/3"]
        npl = rng.choice([0, 1, 2, 2, 3])
        nz = rng.randint(0, npl) if rng.random() < 0.9 else npl + 1
        zs = [rng.choice(nz_pool) for _ in range(nz)]
        ps = [rng.choice(nz_pool) for _ in range(npl)]
        k = rng.choice(["1", "2", "-3", "1/2", "-5/4", "0"] if rng.random() < 0.3 else ["1", "2", "-3", "1/2", "-5/4"])
        return ["ZPK", self.meta(rng, 1, 1), dt, zs, ps, k]

    def rshape(self, rng):
        return (rng.choice([1, 1, 1, 2, 2, 3]), rng.choice([1, 1, 1, 2, 2, 3]))

    def leaf(self, rng, shape, dt, maxn=4):
        r = rng.random()
        if r < 0.5:
            return self.leaf_ss(rng, shape, dt, maxn=maxn)
        if r < 0.9 or shape != (1, 1):
            return self.leaf_tf(rng, shape, dt)
        return self.leaf_zpk(rng, dt)

    def step(self, rng, shape, cur, dynamic_mimo):
        """one conversion step; `cur` is the class of the current object ('ss' | 'tf')"""
        p, m = shape
        r = rng.random()
        if cur == "tf" and dynamic_mimo and r < 0.85:
            # a MIMO transfer function with dynamics cannot go to state space without Slycot
            return ["tf", self.kw(rng, p, m), rng.choice(["tf", "to_tf"])] if r < 0.55 else ["tfdata"]
        if cur == "ss":
            if r < 0.3:
                return ["tf", self.kw(rng, p, m), rng.choice(["tf", "to_tf"])]
            if r < 0.55:
                return ["ss2tf", self.kw(rng, p, m)]
            if r < 0.7:
                return ["tfdata", rng.choice(["tfdata", "ss2tf4"])]
            if r < 0.9:
                return ["ss", self.kw(rng, p, m), rng.choice(["ss", "to_ss", "tf2ss"])]
            return ["ssdata"]
        if r < 0.5:
            return ["ss", self.kw(rng, p, m), rng.choice(["ss", "to_ss", "tf2ss"])]
        if r < 0.65:
            return ["ssdata", rng.choice(["ssdata", "tf2ss3"])]
        if r < 0.85:
            return ["tf", self.kw(rng, p, m), rng.choice(["tf", "to_tf"])]
        if r < 0.98:
            return ["tfdata"]
        return ["ss2tf", self.kw(rng, p, m)]     # TypeError: not a StateSpace object

    def chain(self, rng, shape, maxlen, leaf):
        cur = "ss" if leaf[0] == "SS" else "tf"
        dyn = shape != (1, 1) and (leaf[0] == "SS" and leaf[2] > 0 or
                                   leaf[0] == "TF" and any(len(n) > 1 or len(d) > 1 for n, d in leaf[5]))
        out = []
        for _ in range(rng.randint(0, maxlen)):
            st = self.step(rng, shape, cur, dyn)
            out.append(st)
            cur = "tf" if st[0] in ("tf", "ss2tf", "tfdata") else "ss"
        return out

    def grid(self, rng):
        k = rng.choice([2, 3, 3, 4])
        ws = rng.sample(OMEGAS, k)
        if rng.random() < 0.4:
            ws = sorted(ws, key=Fraction)
        return ws

    def gen_prog(self, rng, maxlen):
        dt = rng.choice(DTS)
        shape = self.rshape(rng)
        maxn = 4 if maxlen <= 4 else 3
        lf = self.leaf(rng, shape, dt, maxn=maxn)
        prog = [lf] + self.chain(rng, shape, maxlen, lf)
        r = rng.random()
        if r < 0.45:
            return prog
        if r < 0.65:
            return prog + [["frd", self.grid(rng), self.kw(rng, *shape)]]
        # mixed-type operator with a second object
        op = rng.choice(["add", "sub", "mul"])
        dt2 = dt if rng.random() < 0.8 else "N"
        p, m = shape
        q = rng.random()
        if op == "mul":
            k = rng.choice([1, 2, 3])
            shape2 = (m, k) if q < 0.7 else ((1, 1) if q < 0.9 else self.rshape(rng))
        else:
            shape2 = shape if q < 0.7 else ((1, 1) if q < 0.9 else self.rshape(rng))
        lf2 = self.leaf(rng, shape2, dt2, maxn=3)
        right = [lf2] + self.chain(rng, shape2, min(maxlen, 2), lf2)
        return prog + right + [["op", op]]

    def gen_table(self, rng):
        """one cell of the (class x class x op) promotion table"""
        cl = rng.choice(["ss", "tf", "frd"])
        cr = rng.choice(["ss", "tf", "frd"])
        op = rng.choice(["add", "sub", "mul"])
        return self.table_case(rng, cl, cr, op)

    def lti_leaf(self, rng, cls, shape, dt, simple=False):
        if cls == "ss":
            return self.leaf_ss(rng, shape, dt, maxn=3)
        if simple:
            kind = "static" if shape != (1, 1) else rng.choice(["proper", "biproper", "strict"])
            return self.leaf_tf(rng, shape, dt, kind)
        return self.leaf_tf(rng, shape, dt)

    def table_case(self, rng, cl, cr, op):
        dt = rng.choice(DTS)
        shape = self.rshape(rng)
        if "frd" in (cl, cr):
            if cl == cr:
                cl = rng.choice(["ss", "tf"])
            dtl = rng.choice(["C", "C", "N", "T", DT01])
            if rng.random() < 0.6:
                shape = (1, 1)
            p, m = shape
            cls = cl if cr == "frd" else cr
            it = self.lti_leaf(rng, cls, shape, dtl, simple=rng.random() < 0.8)
            if it[0] == "SS":
                lti = ["LS", it[2], p, m, dtl] + it[6:10]
            else:
                lti = ["LT", p, m, dtl, it[5]]
            ws = sorted(rng.sample(OMEGAS, rng.choice([2, 3])), key=Fraction)
            # FRD operand of a shape compatible with the operator
            if op == "mul":
                k = rng.choice([1, 2])
                fshape = (k, p) if cl == "frd" else (m, k)
            else:
                fshape = shape
            if rng.random() < 0.15:
                fshape = (1, 1)
            fp, fm = fshape
            data = [[tok(Fraction(rng.randint(-4, 4), rng.choice([1, 2]))),
                     tok(Fraction(rng.randint(-4, 4), rng.choice([1, 2])))] for _ in range(len(ws) * fp * fm)]
            return {"frdop": {"p": fp, "m": fm, "ws": ws, "data": data, "lti": lti, "op": op,
                              "order": "FL" if cl == "frd" else "LF"}}
        p, m = shape
        dt2 = dt if rng.random() < 0.8 else "N"
        if op == "mul":
            shape2 = (m, rng.choice([1, 2, 3])) if rng.random() < 0.8 else (1, 1)
        else:
            shape2 = shape if rng.random() < 0.8 else (1, 1)
        a = self.lti_leaf(rng, cl, shape, dt, simple=rng.random() < 0.5)
        b = self.lti_leaf(rng, cr, shape2, dt2, simple=rng.random() < 0.5)
        return {"prog": [a, b, ["op", op]]}

    def generate(self, rng, tier):
        n = 700 if tier == "quick" else 30000
        maxlen = 4 if tier == "quick" else 8
        out = []
        # the full table first
        for cl in ("ss", "tf", "frd"):
            for cr in ("ss", "tf", "frd"):
                for op in ("add", "sub", "mul"):
                    if cl == cr == "frd":
                        continue
                    for _ in range(2 if tier == "quick" else 12):
                        out.append(self.table_case(rng, cl, cr, op))
        for i in range(n):
            if i % 6 == 5:
                out.append(self.gen_table(rng))
            elif i % 6 == 4:
                out.append(self.special(rng))
            else:
                out.append({"prog": self.gen_prog(rng, maxlen)})
        # structured (sparse) systems, the option remove_useless_states and the configuration history
        for i in range(260 if tier == "quick" else 9000):
            out.append({"prog": self.gen_structured(rng, maxlen)})
        # factory forms with naming keywords (generated last: the earlier streams are unchanged per seed):
        # ss2tf(A, B, C, D, dt, name=, inputs=, outputs=), tf(num, den, dt, ...), tf2ss(num, den, dt, ...),
        # ss(A, B, C, D, dt, ...) on the data of a system, possibly followed by further conversions
        for i in range(60 if tier == "quick" else 2400):
            out.append({"prog": self.gen_factory(rng)})
        return out

    def gen_factory(self, rng):
        dt = rng.choice(DTS)
        if rng.random() < 0.5:
            shape = rng.choice([(1, 1), (1, 1), (2, 1), (1, 2), (2, 2), (2, 3)])
            leaf = self.leaf_ss(rng, shape, dt, maxn=3)
            cur_tf = False
        else:
            shape = (1, 1)
            leaf = self.leaf_tf(rng, shape, dt)
            cur_tf = True
        p, m = shape
        def kw():
            k = [rng.choice(NAMES) if rng.random() < 0.5 else None,
                 rng.sample(LABS, m) if rng.random() < 0.7 else None,
                 rng.sample(LABS, p) if rng.random() < 0.7 else None]
            return k
        prog = [leaf]
        for _ in range(rng.choice([1, 1, 2, 3])):
            if cur_tf:
                if shape == (1, 1) and rng.random() < 0.6:
                    prog.append(["ssdata", rng.choice(["ssdata", "tf2ss3"]), kw()])
                    cur_tf = False
                else:
                    prog.append(["tfdata", "tfdata", kw()])
            else:
                if rng.random() < 0.7:
                    prog.append(["tfdata", rng.choice(["ss2tf4", "ss2tf4", "tfdata"]), kw()])
                    cur_tf = True
                else:
                    prog.append(["ssdata", "ssdata", kw()])
        return prog

    # ---- structured systems / remove_useless_states ----------------------------------
    def leaf_ss_sparse(self, rng, shape, dt, n=None):
        """a state-space leaf with structure: zero rows / columns in A, B, C in every pairing
        (states nothing drives, states that drive nothing, states fed only by the input, states
        read only by the output), integrator chains, decoupled blocks"""
        p, m = shape
        if n is None:
            n = rng.choice([1, 2, 2, 3, 3, 4])
        for _ in range(60):
            dens = rng.choice([0.3, 0.5, 0.7])
            ent = lambda: rng.choice([-3, -2, -1, 1, 2, 3]) if rng.random() < dens else 0
            A = [[ent() for _ in range(n)] for _ in range(n)]
            B = [[ent() for _ in range(m)] for _ in range(n)]
            C = [[ent() for _ in range(n)] for _ in range(p)]
            style = rng.random()
            if style < 0.25:        # integrator chain (the controller form of b(s)/s^n), possibly reversed
                A = [[(1 if i == j + 1 else 0) for j in range(n)] for i in range(n)]
                if rng.random() < 0.3:
                    A = [list(r) for r in zip(*A)]
                if rng.random() < 0.5:
                    k = rng.randrange(n)
                    B = [[(rng.choice([1, 2, -1]) if i == k else 0) for _ in range(m)] for i in range(n)]
            elif style < 0.4:       # strictly triangular (nilpotent)
                up = rng.random() < 0.5
                A = [[(A[i][j] if ((j > i) if up else (j < i)) else 0) for j in range(n)] for i in range(n)]
            # zero out rows / columns of randomly chosen states
            for k in range(n):
                r = rng.random()
                if r < 0.5:
                    continue
                what = rng.choice(["Arow+Brow", "Acol+Ccol", "Arow+Ccol", "Acol+Brow", "Arow", "Acol",
                                   "Brow", "Ccol", "Arow+Acol", "Arow+Brow+Ccol"])
                if "Arow" in what:
                    A[k] = [0] * n
                if "Acol" in what:
                    for i in range(n):
                        A[i][k] = 0
                if "Brow" in what:
                    B[k] = [0] * m
                if "Ccol" in what:
                    for i in range(p):
                        C[i][k] = 0
            D = [0] * (p * m) if rng.random() < 0.5 else [rng.randint(-2, 2) for _ in range(p * m)]
            Af = [x for r in A for x in r]
            Bf = [x for r in B for x in r]
            Cf = [x for r in C for x in r]
            if not self.degenerate(Af, Bf, Cf, D, n, p, m):
                break
        else:                       # a chain b/s^n from the first input to the last output
            Af = [(1 if i == j + 1 else 0) for i in range(n) for j in range(n)]
            Bf = [(1 if (i == 0 and j == 0) else 0) for i in range(n) for j in range(m)]
            Cf = [(1 if (i == p - 1 and j == n - 1) else 0) for i in range(p) for j in range(n)]
            D = [0] * (p * m)
        s = lambda v: [tok(Fraction(x)) for x in v]
        return ["SS", self.meta(rng, p, m), n, p, m, dt, s(Af), s(Bf), s(Cf), s(D)]

    def leaf_tf_sparse(self, rng, dt):
        """SISO transfer function with poles at the origin: den = a0 s^k q(s), sparse numerator
        (zero coefficients in every position, common factors s with the denominator)"""
        k = rng.choice([1, 2, 2, 3])
        q = rng.choice([[], [], [rng.choice([-2, -1, 1, 3])], [rng.choice([-1, 2]), rng.choice([-3, 1, 2])]])
        if len(q) + k > 4:
            q = q[:4 - k]
        a0 = rng.choice([1, 1, 1, -1, 2, -2, 4])
        den = [a0] + q + [0] * k
        dd = len(den) - 1
        nd = rng.choice([dd, dd, dd - 1, rng.randint(0, dd)])
        num = [(rng.choice([-3, -2, -1, 1, 2, 3]) if rng.random() < 0.5 else 0) for _ in range(nd + 1)]
        if num[0] == 0:
            num[0] = rng.choice([-2, -1, 1, 2, 3])
        s = lambda v: [tok(Fraction(x)) for x in v]
        dtype = rng.choice(["int", "float", "float", "nested"])
        return ["TF", self.meta(rng, 1, 1), 1, 1, dt, [[s(num), s(den)]], dtype]

    def leaf_structured(self, rng, shape, dt):
        if shape == (1, 1) and rng.random() < 0.45:
            return self.leaf_tf_sparse(rng, dt)
        if rng.random() < 0.12:     # an ordinary leaf next to the option
            return self.leaf(rng, shape, dt, maxn=3)
        return self.leaf_ss_sparse(rng, shape, dt)

    def gen_structured(self, rng, maxlen):
        """a session around structured systems: conversions, the keyword remove_useless_states on
        ss(...) calls, configuration events (set_defaults / use_legacy_defaults / reset_defaults)
        at any point, optionally a final frd(sys, omega) or a mixed-type operator"""
        dt = rng.choice(DTS)
        shape = (1, 1) if rng.random() < 0.6 else self.rshape(rng)
        p, m = shape
        mode = rng.choice(["kw", "kw", "cfg", "cfg", "cfg", "both", "none"])
        lf = self.leaf_structured(rng, shape, dt)
        chain = self.chain(rng, shape, min(maxlen, 4), lf)
        # make sure at least one StateSpace constructor call follows the leaf
        if not any(st[0] in ("ss", "ssdata") or st == ["tfdata", "ss2tf4"] for st in chain):
            cur_tf = (lf[0] != "SS") if not chain else chain[-1][0] in ("tf", "ss2tf", "tfdata")
            dyn_mimo = shape != (1, 1) and cur_tf
            if not dyn_mimo:
                chain.append(["ss", self.kw(rng, p, m), rng.choice(["ss", "to_ss", "tf2ss"])])
                if rng.random() < 0.6:
                    chain.append(rng.choice([["tf", [None, None, None], "tf"], ["tfdata"],
                                             ["ss2tf", [None, None, None]], ["tfdata", "ss2tf4"]]))
        prog = [lf] + chain
        tail = rng.random()
        if tail < 0.3:
            op = rng.choice(["add", "sub", "mul"])
            q = rng.random()
            first = rng.random() < 0.6
            if op == "mul":
                shape2 = ((m, rng.choice([1, 2])) if first else (rng.choice([1, 2]), p)) if q < 0.6 else (1, 1)
            else:
                shape2 = shape if q < 0.6 else (1, 1)
            lf2 = self.leaf_structured(rng, shape2, dt)
            right = [lf2] + self.chain(rng, shape2, 1, lf2)
            prog = (prog + right) if first else (right + prog)
            prog = prog + [["op", op]]
        elif tail < 0.4:
            prog = prog + [["frd", self.grid(rng), self.kw(rng, p, m)]]
        if mode in ("kw", "both"):
            hit = False
            for i, it in enumerate(prog):
                if it[0] == "ss" and rng.random() < 0.8:
                    prog[i] = it[:3] + [rng.random() < 0.85]
                    hit = True
                elif it[0] == "SS" and rng.random() < 0.5:
                    prog[i] = it[:10] + [rng.random() < 0.85]
                    hit = True
            if not hit:
                for i, it in enumerate(prog):
                    if it[0] in ("ss", "SS"):
                        prog[i] = (it[:3] if it[0] == "ss" else it[:10]) + [True]
                        break
        if mode in ("cfg", "both"):
            ev = rng.choice(["on", "on", "on", "legacy"])
            # positions where a statement of the session can stand: before any item
            # (the final frd / operator stays the last statement)
            pos = 0 if rng.random() < 0.5 else rng.randrange(len(prog))
            prog.insert(pos, ["cfg", ev])
            if rng.random() < 0.3:      # ... and switched off again later
                pos2 = rng.randint(pos + 1, len(prog) - 1)
                prog.insert(pos2, ["cfg", rng.choice(["off", "reset"])])
                if rng.random() < 0.3 and pos2 + 1 <= len(prog) - 1:
                    prog.insert(rng.randint(pos2 + 1, len(prog) - 1), ["cfg", "on"])
            if mode == "cfg" and rng.random() < 0.2:    # keyword False overrides the configured default
                for i, it in enumerate(prog):
                    if it[0] == "ss" and len(it) == 3:
                        prog[i] = it + [False]
                        break
        return prog

    def special(self, rng):
        """streams that need something specific"""
        dt = rng.choice(DTS)
        r = rng.random()
        if r < 0.3:     # SISO tf -> ss of every properness kind, then back
            kind = rng.choice(["biproper", "biproper", "strict", "proper", "nonproper", "static"])
            t = self.leaf_tf(rng, (1, 1), dt, kind)
            tail = rng.choice([[], [["tf", [None, None, None], "tf"]], [["tfdata"]],
                               [["ssdata"]], [["tf", [None, None, None], "to_tf"], ["ss", [None, None, None], "ss"]]])
            return {"prog": [t, ["ss", self.kw(rng, 1, 1), rng.choice(["ss", "tf2ss", "to_ss"])]] + tail}
        if r < 0.5:     # MIMO tf -> ss: static, dynamic, non-proper at different positions
            shape = rng.choice([(1, 2), (2, 1), (2, 2), (2, 3), (3, 2)])
            t = self.leaf_tf(rng, shape, dt, rng.choice(["static", "mixed-nonproper", "mixed-nonproper", "proper"]))
            if rng.random() < 0.2:
                return {"prog": [t, ["ssdata"]]}
            return {"prog": [t, ["ss", self.kw(rng, *shape), rng.choice(["ss", "tf2ss"])]]}
        if r < 0.7:     # MIMO ss -> tf -> frd with labels and every timebase
            shape = rng.choice([(1, 2), (2, 1), (2, 2), (2, 3), (3, 2), (3, 3)])
            s = self.leaf_ss(rng, shape, dt, n=rng.choice([1, 2, 3]))
            st = ["tf", self.kw(rng, *shape), "tf"] if rng.random() < 0.5 else ["ss2tf", self.kw(rng, *shape)]
            prog = [s, st]
            if rng.random() < 0.5:
                prog.append(["frd", self.grid(rng), self.kw(rng, *shape)])
            return {"prog": prog}
        if r < 0.8:     # zpk -> ss -> tf
            z = self.leaf_zpk(rng, dt)
            return {"prog": [z] + self.chain(rng, (1, 1), 3, z)}
        if r < 0.93:    # products that do not commute / SISO promotion across classes
            k = rng.choice([2, 2, 3])
            p, m = rng.choice([1, 2, 3]), rng.choice([1, 2, 3])
            op = rng.choice(["mul", "mul", "add", "sub"])
            if rng.random() < 0.6:
                sh1, sh2 = ((p, k), (k, m)) if op == "mul" else ((p, k), (p, k))
                a = self.leaf_ss(rng, sh1, dt, n=rng.choice([1, 2]))
                b = self.leaf_tf(rng, sh2, dt, "static")
            else:       # SISO transfer function with dynamics against a MIMO state-space system
                a = self.leaf_ss(rng, (p, k), dt, n=rng.choice([1, 2]))
                b = self.leaf_tf(rng, (1, 1), dt, rng.choice(["proper", "biproper", "strict"]))
            return {"prog": [a, b, ["op", op]] if rng.random() < 0.5 else [b, a, ["op", op]]}
        # direct frd(sys, omega) of a leaf with labels, dt = None included
        shape = self.rshape(rng)
        return {"prog": [self.leaf(rng, shape, rng.choice(["N", "N", "T", "C", DT01]), maxn=3),
                         ["frd", self.grid(rng), self.kw(rng, *shape)]]}

    def corpus(self):
        g = [GEN, ["u[0]"], ["y[0]"]]
        nk = [None, None, None]
        return [
            # biproper SISO tf -> ss (C = b - b0 a)
            {"prog": [["TF", g, 1, 1, "C", [[["2", "3", "1"], ["1", "4", "5"]]], "float"], ["ss", nk, "ss"]]},
            # labels and dt = True through ss -> tf -> ss
            {"prog": [["SS", ["P", ["a"], ["b"]], 2, 1, 1, "T", ["-1", "2", "0", "-3"], ["1", "1"], ["1", "0"], ["0"]],
                      ["tf", nk, "tf"], ["ss", nk, "tf2ss"]]},
            # frd(sys, omega) of a system with dt = None
            {"prog": [["SS", ["P", ["a"], ["b"]], 1, 1, 1, "N", ["-1"], ["1"], ["1"], ["0"]],
                      ["frd", ["3/2", "1/2"], nk]]},
            # non-proper entry hidden behind a strictly proper first entry (lexicographic test)
            {"prog": [["TF", [GEN, ["u[0]", "u[1]"], ["y[0]"]], 1, 2, "C",
                       [[["1"], ["1", "1", "1"]], [["1", "2", "3"], ["1", "2"]]], "float"], ["ss", nk, "ss"]]},
            # tf + ss keeps the left class
            {"prog": [["TF", g, 1, 1, "C", [[["1"], ["1", "2"]]], "float"],
                      ["SS", g, 1, 1, 1, "C", ["-1"], ["1"], ["1"], ["0"]], ["op", "add"]]},
            # remove_useless_states=True on the conversion of a double integrator (zero row of A whose
            # state the output does not read: nothing may be dropped), and back
            {"prog": [["TF", g, 1, 1, "C", [[["1"], ["1", "0", "0"]]], "float"], ["ss", nk, "ss", True],
                      ["tf", nk, "tf"]]},
            # the same through the configuration: set_defaults before the session, 1/z^3, tf2ss(num, den, dt)
            {"prog": [["cfg", "on"], ["TF", g, 1, 1, DT01, [[["1", "1"], ["1", "0", "0", "0"]]], "float"],
                      ["ssdata", "tf2ss3"]]},
            # use_legacy_defaults, mixed ss * tf with a triple integrator
            {"prog": [["cfg", "legacy"], ["SS", g, 1, 1, 1, "C", ["-1"], ["1"], ["1"], ["0"]],
                      ["TF", g, 1, 1, "C", [[["2", "0", "1"], ["1", "0", "0", "0"]]], "float"], ["op", "mul"]]},
            # states that really are useless (undriven state 1; state 2 drives nothing) are dropped, the
            # map stays; switched off again before the copy
            {"prog": [["SS", g, 3, 1, 1, "C", ["-1", "2", "0", "0", "0", "0", "1", "0", "0"], ["1", "0", "3"],
                       ["1", "1", "0"], ["2"], True], ["cfg", "on"], ["ss", nk, "ss"], ["cfg", "reset"],
                      ["ss", nk, "to_ss"], ["tfdata", "ss2tf4"]]},
        ]

    # ---- execution ----------------------------------------------------------------
    def line(self, case):
        if "frdop" in case:
            return frdop_line(case["frdop"])
        prog = case["prog"]
        tab = expj_table(prog)
        return "cv X %d %s %s" % (len(tab), " ".join(tab), " ".join(item_tok(it) for it in prog))

    def impl(self, case):
        try:
            r = frdop_run(case["frdop"]) if "frdop" in case else run_prog(case["prog"])
        except Exception as e:  # noqa
            return {"err": classify_exc(e), "exc": "%s: %s" % (type(e).__name__, str(e)[:200])}
        try:
            return canon_result(r)
        except ValueError:
            return {"ok": {"type": "nonfinite"}}

    def parse_model(self, case, out):
        if out.startswith("err "):
            return {"err": out.split()[1]}
        tk = Tokens(out)
        assert tk.next() == "ok"
        if "frdop" in case:
            # C09's driver: "ok bits=.. lo2=.. hi2=.. frd n p m smooth w... data..."
            while True:
                t = tk.next()
                if t == "frd":
                    break
            return {"ok": self.parse_frd(tk, {})}
        kind = tk.next()
        name = tk.next()
        ins = [tk.next() for _ in range(tk.nat())]
        outs = [tk.next() for _ in range(tk.nat())]
        o = {"name": name, "ins": ins, "outs": outs}
        if kind == "ss":
            n, p, m, dt = tk.nat(), tk.nat(), tk.nat(), tk.next()
            o.update({"type": "ss", "n": n, "p": p, "m": m, "dt": dt})
            for nm in "ABCD":
                r, c = tk.nat(), tk.nat()
                o[nm] = [tk.next() for _ in range(r * c)]
            return {"ok": o}
        if kind == "tf":
            p, m, dt = tk.nat(), tk.nat(), tk.next()
            ents = []
            for _ in range(p * m):
                nn = [tk.next() for _ in range(tk.nat())]
                dd = [tk.next() for _ in range(tk.nat())]
                ents.append([nn, dd])
            o.update({"type": "tf", "p": p, "m": m, "dt": dt, "ent": ents})
            return {"ok": o}
        if kind == "frd":
            o["dt"] = tk.next()
            assert tk.next() == "frd"
            return {"ok": self.parse_frd(tk, o)}
        raise ValueError(out)

    @staticmethod
    def parse_frd(tk, o):
        n, p, m, _sm = tk.nat(), tk.nat(), tk.nat(), tk.nat()
        o.update({"type": "frd", "p": p, "m": m})
        o["omega"] = [tk.next() for _ in range(n)]
        o["data"] = [[tk.next(), tk.next()] for _ in range(n * p * m)]
        return o

    # ---- comparison ---------------------------------------------------------------
    def summary(self, case):
        if "frdop" in case:
            c = case["frdop"]
            l = "ss" if c["lti"][0] == "LS" else "tf"
            return ("frd %s %s" % (c["op"], l)) if c["order"] == "FL" else ("%s %s frd" % (l, c["op"]))
        return "+".join(it[0] if it[0] != "op" else "op-" + it[1] for it in case["prog"]
                        if it[0] not in ("SS", "TF", "ZPK")) or "leaf"

    def features(self, case, kind, impl, extra=None):
        feat = {"kind": kind, "last": self.last_item(case)}
        if self.uses_rus(case):
            feat["rus"] = self.uses_rus(case)
        if "err" in impl:
            feat["exc"] = impl["exc"].split(":")[0]
            feat["msg"] = re.sub(r"[0-9]+", "#", impl["exc"].split(":", 1)[1].strip())[:60]
        if extra:
            feat.update(extra)
        return feat

    @staticmethod
    def uses_rus(case):
        """how remove_useless_states is switched on in the case: '' | 'kw' | 'cfg' | 'kw+cfg'"""
        if "frdop" in case:
            return ""
        how = []
        if any((it[0] == "SS" and len(it) > 10 and it[10]) or (it[0] == "ss" and len(it) > 3 and it[3])
               for it in case["prog"]):
            how.append("kw")
        if any(it[0] == "cfg" and it[1] in ("on", "legacy") for it in case["prog"]):
            how.append("cfg")
        return "+".join(how)

    @staticmethod
    def last_item(case):
        """the last instruction of the program (class of the conversion / operator that produced
        the result)"""
        if "frdop" in case:
            c = case["frdop"]
            l = "ss" if c["lti"][0] == "LS" else "tf"
            return ("frd %s %s" % (c["op"], l)) if c["order"] == "FL" else ("%s %s frd" % (l, c["op"]))
        it = [x for x in case["prog"] if x[0] != "cfg"][-1]
        if it[0] == "op":
            cl = [x[0] for x in case["prog"] if x[0] in ("SS", "TF", "ZPK")]
            return "%s.. %s %s.." % (cl[0], it[1], cl[-1])
        return it[0] if it[0] not in ("SS", "TF", "ZPK") else "leaf-" + it[0]

    def values_differ(self, a, b, prog=None):
        """transfer matrices of two canonical ss/tf objects at 2n+1 well-conditioned rational points;
        returns (message | None, points used, worst ratio error/tolerance).  For a program that ends in
        mixed-type arithmetic the error is judged relative to the terms that are added (`op_term_scale`):
        a result that is small or zero BY CANCELLATION (thorough seed 12: a 1x3 by 3x1 product that is
        identically zero, computed as 1e-10) carries the rounding of its terms."""
        fr_b = obj_fracs(b)
        deg = max(max(len(dd) for row in fr_b for (_, dd) in row) - 1, 0)
        need = 2 * deg + 1
        used = 0
        worst = 0.0
        for s in POINTS:
            k = cond(fr_b, s)
            if k is None or k > COND_MAX:
                continue
            Ya, Yb = obj_eval(a, s), obj_eval(b, s)
            if Yb is None:
                continue
            if Ya is None:
                return ("G(%s): implementation has a pole, model value %s" % (s, exmat.flat_tokens(Yb)),
                        used, worst)
            used += 1
            sc = max(Fraction(1), exmat.maxabs(Yb))
            if prog is not None and any(it[0] == "op" for it in prog):
                ts = op_term_scale(prog, s)
                if ts is not None:
                    sc = max(sc, ts)
            tol = TAU * max(k, Fraction(1)) * sc
            err = max((abs(x - y) for r1, r2 in zip(Ya, Yb) for x, y in zip(r1, r2)), default=Fraction(0))
            worst = max(worst, float(err / tol))
            if err > tol:
                return ("G(%s): implementation %s, exact %s (cond %.1f)" % (
                    s, [float(x) for r in Ya for x in r], [float(x) for r in Yb for x in r], float(k)),
                    used, worst)
            if used >= need:
                break
        return (None, used, worst)

    def frd_differ(self, a, b):
        if a["omega"] != b["omega"]:
            return "grid %s vs model %s" % (a["omega"], b["omega"]), 0.0
        worst = 0.0
        for k, ((ar, ai), (br, bi)) in enumerate(zip(a["data"], b["data"])):
            zr, zi = Fraction(br), Fraction(bi)
            mod = max(abs(zr), abs(zi), Fraction(1))
            if mod > 1000:
                continue        # next to a pole: conditioning guard
            err = max(abs(Fraction(ar) - zr), abs(Fraction(ai) - zi))
            worst = max(worst, float(err / (TAU_FRD * mod)))
            if err > TAU_FRD * mod:
                return ("data[%d]: implementation %s%+sj, exact %s%+sj" % (
                    k, float(Fraction(ar)), float(Fraction(ai)), float(zr), float(zi)), worst)
        return None, worst

    def compare(self, case, impl, model):
        if not hasattr(self, "_info"):
            self._info = {}
        self._last = self._info.setdefault(canon_key(case), {})
        self._last.clear()
        if "err" in model:
            if "err" in impl:
                if impl["err"] == model["err"]:
                    return Verdict(AGREE)
                if model["err"] == "zeroDen" and self.has_frd(case):
                    # a pole on the frequency grid: the code gets inf/nan data (C04/C09), and the
                    # smoothing spline of a converted operand then rejects it (ValueError)
                    return Verdict(AGREE)
                return Verdict(DIFFERS, "error kind %s vs model %s" % (impl["err"], model["err"]),
                               self.features(case, "errkind-" + model["err"], impl))
            if model["err"] == "zeroDen" and self.has_frd(case):
                return Verdict(AGREE)       # a pole on the grid: inf/nan in the code (C04/C09)
            if model["err"] == "nonProper":
                return Verdict(VIOLATES, "a non-proper transfer function was converted to state space "
                               "without an error", self.features(case, "returns-nonProper", impl))
            if model["err"] in ("shape", "timebase", "zeroDen"):
                return Verdict(VIOLATES, "a system was returned where the result does not exist "
                               "(model: %s)" % model["err"], self.features(case, "returns-" + model["err"], impl))
            return Verdict(DIFFERS, "model raises %s, implementation returns" % model["err"],
                           self.features(case, "returns-" + model["err"], impl))
        if "err" in impl:
            return Verdict(VIOLATES, "implementation raises %s where the converted system exists"
                           % impl["exc"], self.features(case, "raises", impl))
        a, b = impl["ok"], model["ok"]
        if a["type"] == "nonfinite":
            if b["type"] == "frd":
                return Verdict(AGREE)
            return Verdict(VIOLATES, "non-finite coefficients in the result", self.features(case, "nonfinite", impl))
        if a["type"] != b["type"]:
            return Verdict(VIOLATES, "result class %s, promotion rule / conversion gives %s"
                           % (a["type"], b["type"]), self.features(case, "type", impl))
        if (a["p"], a["m"]) != (b["p"], b["m"]):
            return Verdict(VIOLATES, "shape %dx%d vs model %dx%d" % (a["p"], a["m"], b["p"], b["m"]),
                           self.features(case, "shape", impl))
        if "frdop" in case:
            d, worst = self.frd_differ(a, b)
            self._last["frd_ratio"] = worst
            if d is not None:
                return Verdict(VIOLATES, "FRD (op) LTI differs from the operator applied to the "
                               "converted operand: " + d, self.features(case, "value-frdop", impl))
            return Verdict(AGREE)
        is_op = any(it[0] == "op" for it in case["prog"])
        if a["dt"] != b["dt"]:
            if is_op:
                return Verdict(DIFFERS, "timebase %s vs model %s (decided by C05)" % (a["dt"], b["dt"]),
                               self.features(case, "dt-op", impl))
            return Verdict(VIOLATES, "timebase %s after the conversion, %s before" % (a["dt"], b["dt"]),
                           self.features(case, "dt", impl, {"dt_model": b["dt"][:1], "dt_impl": a["dt"][:1],
                                                            "result": a["type"]}))
        if a["ins"] != b["ins"] or a["outs"] != b["outs"]:
            return Verdict(VIOLATES, "labels %s/%s, expected %s/%s" % (a["ins"], a["outs"], b["ins"], b["outs"]),
                           self.features(case, "labels", impl))
        if a["type"] == "frd":
            d, worst = self.frd_differ(a, b)
            self._last["frd_ratio"] = worst
            if d is not None:
                return Verdict(VIOLATES, "frd(sys, omega) is not the system's response: " + d,
                               self.features(case, "value-frd", impl))
        else:
            d, used, worst = self.values_differ(a, b, case.get("prog"))
            self._last["ratio"] = worst
            self._last["points"] = used
            if d is not None:
                return Verdict(VIOLATES, "transfer matrix differs: " + d, self.features(case, "value", impl))
        if a["name"] != b["name"]:
            return Verdict(DIFFERS, "system name %s vs model %s" % (a["name"], b["name"]),
                           self.features(case, "name", impl))
        return Verdict(AGREE)

    @staticmethod
    def has_frd(case):
        return "frdop" in case or any(it[0] == "frd" for it in case["prog"])

    def nontrivial(self, case, model):
        if "ok" not in model:
            return False
        if "frdop" in case:
            l = case["frdop"]["lti"]
            return l[1] > 0 if l[0] == "LS" else any(len(n) > 1 or len(d) > 1 for n, d in l[4])
        prog = case["prog"]
        if not any(it[0] not in ("SS", "TF", "ZPK") for it in prog):
            return False
        for it in prog:
            if it[0] == "SS" and it[2] > 0:
                return True
            if it[0] == "TF" and any(len(n) > 1 or len(d) > 1 for n, d in it[5]):
                return True
            if it[0] == "ZPK" and (it[3] or it[4]):
                return True
        return False

    def stats(self, case, impl, model):
        st = {"outcome": ("err:" + model["err"]) if "err" in model else "ok:" + model["ok"]["type"]}
        if "frdop" in case:
            st["table"] = self.summary(case)
            return st
        prog = case["prog"]
        st["leaf"] = [it for it in prog if it[0] != "cfg"][0][0]
        if self.uses_rus(case):
            st["remove_useless_states"] = self.uses_rus(case)
            for it in prog:
                if it[0] == "cfg":
                    st["cfg:" + it[1]] = 1
        st["dt"] = sorted(prog_dts(prog))[0][:1]
        nsteps = sum(1 for it in prog if it[0] in STEPS)
        st["chain"] = min(nsteps, 9)
        for it in prog:
            if it[0] in STEPS:
                st["step:" + it[0]] = 1
            if it[0] == "op":
                cl = [x[0] for x in prog if x[0] in ("SS", "TF", "ZPK")]
                st["table"] = "%s.. %s %s.." % (cl[0], it[1], cl[-1])
            if it[0] == "frd":
                st["final"] = "frd"
        if "ok" in model:
            st["shape"] = "%dx%d" % (model["ok"]["p"], model["ok"]["m"])
            if "ok" in impl and impl["ok"].get("type") == "ss" and model["ok"]["type"] == "ss":
                st["realisation_equal"] = all(impl["ok"][k] == model["ok"][k] for k in "ABCD")
                st["nstates_equal"] = impl["ok"]["n"] == model["ok"]["n"]
        if "err" in model and "err" in impl:
            st["errkind_equal"] = impl["err"] == model["err"]
        last = getattr(self, "_info", {}).get(canon_key(case), {})
        if "ratio" in last:
            r = last["ratio"]
            st["err_over_tol"] = "0" if r == 0 else ("<1e-6" if r < 1e-6 else "<1e-3" if r < 1e-3 else
                                                     "<1e-2" if r < 1e-2 else "<1e-1" if r < 0.1 else "<1")
            st["points"] = min(last.get("points", 0), 9)
        if "frd_ratio" in last:
            r = last["frd_ratio"]
            st["frd_err_over_tol"] = "0" if r == 0 else ("<1e-6" if r < 1e-6 else "<1e-3" if r < 1e-3 else
                                                         "<1e-2" if r < 1e-2 else "<1e-1" if r < 0.1 else "<1")
        return st

    # ---- shrinking / search ---------------------------------------------------------
    def shrink(self, case):
        if "frdop" in case:
            return
        prog = case["prog"]
        # drop one conversion step / configuration event
        for i, it in enumerate(prog):
            if it[0] in STEPS or it[0] in ("frd", "cfg"):
                yield {"prog": prog[:i] + prog[i + 1:]}
        # drop a remove_useless_states keyword
        for i, it in enumerate(prog):
            if it[0] == "ss" and len(it) > 3 and it[3] is not None:
                yield {"prog": prog[:i] + [it[:3]] + prog[i + 1:]}
            if it[0] == "SS" and len(it) > 10 and it[10] is not None:
                yield {"prog": prog[:i] + [it[:10]] + prog[i + 1:]}
        # drop keyword overrides
        for i, it in enumerate(prog):
            if it[0] in ("tf", "ss2tf", "ss") and it[1] != [None, None, None]:
                yield {"prog": prog[:i] + [[it[0], [None, None, None]] + it[2:]] + prog[i + 1:]}
        # an operator case: keep only one operand with its chain
        ops = [i for i, it in enumerate(prog) if it[0] == "op"]
        if ops:
            leaves = [i for i, it in enumerate(prog) if it[0] in ("SS", "TF", "ZPK")]
            if len(leaves) == 2:
                yield {"prog": prog[:leaves[1]]}
                yield {"prog": prog[leaves[1]:ops[0]]}
        # smaller leaves
        for i, it in enumerate(prog):
            if it[0] == "SS":
                _, mt, n, p, m, dt, A, B, C, D = it[:10]
                ext = it[10:]
                if n > 1:
                    n2 = n - 1
                    A2 = [A[r * n + c] for r in range(n2) for c in range(n2)]
                    C2 = [C[r * n + c] for r in range(p) for c in range(n2)]
                    yield {"prog": prog[:i] + [["SS", mt, n2, p, m, dt, A2, B[:n2 * m], C2, D] + ext] + prog[i + 1:]}
                if mt != [GEN, dlabels("u", m), dlabels("y", p)]:
                    yield {"prog": prog[:i] + [["SS", [GEN, dlabels("u", m), dlabels("y", p)]] + it[2:]] + prog[i + 1:]}
                if dt != "C":
                    yield {"prog": prog[:i] + [["SS", mt, n, p, m, "C", A, B, C, D] + ext] + prog[i + 1:]}
            if it[0] == "TF":
                _, mt, p, m, dt, ents, dtype = it
                if mt != [GEN, dlabels("u", m), dlabels("y", p)]:
                    yield {"prog": prog[:i] + [["TF", [GEN, dlabels("u", m), dlabels("y", p)]] + it[2:]] + prog[i + 1:]}
                if dt != "C":
                    yield {"prog": prog[:i] + [["TF", mt, p, m, "C", ents, dtype]] + prog[i + 1:]}

    def search(self, rng, case, tier):
        out = []
        for _ in range(200):
            out.append({"prog": self.gen_prog(rng, 3)})
        for _ in range(100):
            out.append(self.special(rng))
        if self.uses_rus(case):
            for _ in range(150):
                out.append({"prog": self.gen_structured(rng, 3)})
        return out


FAMILY = C03
