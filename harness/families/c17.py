"""C17 — indexing sys[outputs, inputs] of StateSpace / TransferFunction / FrequencyResponseData:
correspondence between `__getitem__` of the three classes and the Lean model
`CtrlVerif.Model.Index` (driver family `idx`).

case = {"cls": "ss"|"tf"|"frd", "sys": {...}, "rows": sel, "cols": sel, "cfg": [prefix, suffix] | None}
sel  = ["I", k] | ["N", name] | ["S", a, b, c] | ["L", [["I", k] | ["N", name], ...]] | ["X", kind]
       | ["X", "tup", [items]]   (a tuple of ints / names: not a selector, must raise)

history case (stream `hist`, class HistStream below) =
       {"sel": "hist", "cfg": ..., "syss": [{"cls":, "sys":}], "store": [sel, ...],
        "calls": [{"s": system number, "r": row variable, "c": column variable, "kc": "tuple"|"list"}
                  | {"w": variable, "to": ["L", items]}       (the caller edits its list in place)
                  | {"rl": system number, "outs": [...], "ins": [...]}]}   (the caller relabels the system:
                                                                 update_names; either key may be absent)
the selector OBJECTS of `store` are built once and the same objects are used by every call.
"""
import itertools
import re
from fractions import Fraction

import numpy as np
import control as ct

from core.runner import Family, Verdict, AGREE, VIOLATES, DIFFERS
from core import exact
from core.exact import fr, tok

DEFAULT_CFG = ["", "$indexed"]
PLACEHOLDER = "@"          # stands for a default (counter generated) system name in the model line


# ----------------------------------------------------------------------------
# systems
# ----------------------------------------------------------------------------

def labels_of(sysd):
    outs = sysd["outs"] if sysd["outs"] is not None else ["y[%d]" % i for i in range(sysd["p"])]
    ins = sysd["ins"] if sysd["ins"] is not None else ["u[%d]" % j for j in range(sysd["m"])]
    return outs, ins


def dt_value(tokn):
    if tokn == "N":
        return None
    if tokn == "T":
        return True
    if tokn == "C":
        return 0
    return float(Fraction(tokn[1:]))


def fl(lst):
    return [float(Fraction(x)) for x in lst]


def build(cls, sysd):
    p, m = sysd["p"], sysd["m"]
    kw = {}
    if sysd["outs"] is not None:
        kw["outputs"] = list(sysd["outs"])
    if sysd["ins"] is not None:
        kw["inputs"] = list(sysd["ins"])
    if sysd["name"] is not None:
        kw["name"] = sysd["name"]
    dt = dt_value(sysd["dt"])
    if cls == "ss":
        n = sysd["n"]
        A = np.array(fl(sysd["A"])).reshape(n, n)
        B = np.array(fl(sysd["B"])).reshape(n, m)
        C = np.array(fl(sysd["C"])).reshape(p, n)
        D = np.array(fl(sysd["D"])).reshape(p, m)
        return ct.StateSpace(A, B, C, D, dt, **kw)
    if cls == "tf":
        num = [[fl(sysd["ent"][i * m + j][0]) for j in range(m)] for i in range(p)]
        den = [[fl(sysd["ent"][i * m + j][1]) for j in range(m)] for i in range(p)]
        return ct.TransferFunction(num, den, dt, **kw)
    if cls == "frd":
        w = len(sysd["omega"])
        data = np.array([complex(float(Fraction(re_)), float(Fraction(im_)))
                         for (re_, im_) in sysd["data"]]).reshape(p, m, w)
        return ct.FrequencyResponseData(data, fl(sysd["omega"]), dt, **kw)
    raise ValueError(cls)


def sel_obj(sel):
    k = sel[0]
    if k == "I":
        return sel[1]
    if k == "N":
        return sel[1]
    if k == "S":
        return slice(sel[1], sel[2], sel[3])
    if k == "L":
        return [it[1] for it in sel[1]]
    if k == "X":
        if sel[1] == "tup":
            return tuple(it[1] for it in sel[2])
        return {"float": 0.0, "none": None, "npint": np.int64(0), "ndarray": np.array([0]),
                "tuple": (0,)}[sel[1]]
    raise ValueError(k)


def obj_sel(o, was):
    """canonical form of a selector object as it is *now* (`was`: the selector it was built from);
    anything that is not a selector of the modelled space any more is ["?", repr]"""
    if type(o) is int:
        return ["I", o]
    if type(o) is str:
        return ["N", o]
    if type(o) is slice:
        return ["S", o.start, o.stop, o.step]
    if type(o) is list:
        items = []
        for x in o:
            if type(x) is int:
                items.append(["I", x])
            elif type(x) is str:
                items.append(["N", x])
            else:
                return ["?", repr(o)[:80]]
        return ["L", items]
    if was[0] == "X":
        fresh = sel_obj(was)
        if type(o) is type(fresh) and repr(o) == repr(fresh):
            return [x for x in was]
    return ["?", repr(o)[:80]]


def sel_tokens(sel):
    k = sel[0]
    if k == "I":
        return "I %d" % sel[1]
    if k == "N":
        return "N s:" + sel[1]
    if k == "S":
        return "S " + " ".join("_" if v is None else str(v) for v in sel[1:4])
    if k == "L":
        return "L %d" % len(sel[1]) + "".join(
            " I %d" % it[1] if it[0] == "I" else " N s:" + it[1] for it in sel[1])
    if k == "X":
        return "X"
    raise ValueError(k)


def body_tokens(cls, sysd):
    if cls == "ss":
        return " ".join([str(sysd["n"])] + sysd["A"] + sysd["B"] + sysd["C"] + sysd["D"])
    if cls == "tf":
        return " ".join("%d %s %d %s" % (len(n), " ".join(n), len(d), " ".join(d)) for (n, d) in sysd["ent"])
    if cls == "frd":
        return " ".join([str(len(sysd["omega"]))] + sysd["omega"] + [x for z in sysd["data"] for x in z])
    raise ValueError(cls)


def canon_sys(cls, r):
    """canonical JSON-able form of an implementation system (exact rationals)."""
    out = {"cls": cls, "name": r.name, "dt": exact.dt_canon(r.dt), "p": int(r.noutputs), "m": int(r.ninputs),
           "outs": list(r.output_labels), "ins": list(r.input_labels)}
    if cls == "ss":
        out["n"] = int(r.nstates)
        for k in "ABCD":
            M = np.asarray(getattr(r, k))
            out[k] = [tok(fr(x)) for x in M.flatten()]
            out[k + "shape"] = list(M.shape) if M.size else None
    elif cls == "tf":
        out["ent"] = [[[tok(fr(c)) for c in r.num_array[i, j]], [tok(fr(c)) for c in r.den_array[i, j]]]
                      for i in range(r.noutputs) for j in range(r.ninputs)]
    else:
        out["omega"] = [tok(fr(x)) for x in np.asarray(r.omega).flatten()]
        d = np.asarray(r.frdata)
        out["dshape"] = list(d.shape) if d.size else None
        out["data"] = [[tok(fr(z.real)), tok(fr(z.imag))] for z in d.flatten()]
    return out


# ----------------------------------------------------------------------------
# the property evaluated directly (Python's own slice / list semantics as oracle)
# ----------------------------------------------------------------------------

class OracleErr(Exception):
    pass


def oracle_names(sel, labels):
    """name -> index translation (all names are translated before any index is used)"""
    k = sel[0]
    def one(s):
        if s not in labels:
            raise OracleErr("unknownName")
        return labels.index(s)
    if k == "N":
        return ["I", one(sel[1])]
    if k == "L":
        return ["L", [["I", one(it[1])] if it[0] == "N" else it for it in sel[1]]]
    return sel


def oracle_axis(sel, n):
    k = sel[0]
    def chk(i):
        if not (-n <= i < n):
            raise OracleErr("indexRange")
        return i % n
    if k == "X":
        raise OracleErr("badArg")
    if k == "I":
        return [chk(sel[1])]
    if k == "S":
        if sel[3] == 0:
            raise OracleErr("badArg")
        return list(range(n)[slice(sel[1], sel[2], sel[3])])
    if k == "L":
        return [chk(it[1]) for it in sel[1]]
    raise ValueError(k)


def oracle(case):
    """what the property demands: {"err": kind} or the expected canonical sub-system
    (name with PLACEHOLDER when the original has a default name)."""
    cls, sysd = case["cls"], case["sys"]
    outs, ins = labels_of(sysd)
    p, m = sysd["p"], sysd["m"]
    try:
        r = oracle_names(case["rows"], outs)
        c = oracle_names(case["cols"], ins)
        rows = oracle_axis(r, p)
        cols = oracle_axis(c, m)
    except OracleErr as e:
        return {"err": str(e)}, None, None
    pre, suf = case["cfg"] or DEFAULT_CFG
    name = sysd["name"] if sysd["name"] is not None else PLACEHOLDER
    exp = {"cls": cls, "name": pre + name + suf, "dt": sysd["dt"], "p": len(rows), "m": len(cols),
           "outs": [outs[i] for i in rows], "ins": [ins[j] for j in cols]}
    if cls == "ss":
        n = sysd["n"]
        exp["n"] = n
        exp["A"] = list(sysd["A"])
        exp["B"] = [sysd["B"][k * m + j] for k in range(n) for j in cols]
        exp["C"] = [sysd["C"][i * n + k] for i in rows for k in range(n)]
        exp["D"] = [sysd["D"][i * m + j] for i in rows for j in cols]
    elif cls == "tf":
        exp["ent"] = [sysd["ent"][i * m + j] for i in rows for j in cols]
    else:
        w = len(sysd["omega"])
        exp["omega"] = list(sysd["omega"])
        exp["data"] = [sysd["data"][(i * m + j) * w + k] for i in rows for j in cols for k in range(w)]
    return {"ok": exp}, rows, cols


FIELDS = {"ss": ["p", "m", "n", "A", "B", "C", "D"], "tf": ["p", "m", "ent"], "frd": ["p", "m", "omega", "data"]}


def norm_tokens(v):
    if isinstance(v, list):
        return [norm_tokens(x) for x in v]
    if isinstance(v, str):
        return tok(Fraction(v))
    return v


def diff_fields(cls, a, b):
    """names of the observables in which two canonical systems differ"""
    d = []
    if (a["p"], a["m"]) != (b["p"], b["m"]):
        return ["shape"]
    for f in FIELDS[cls]:
        if norm_tokens(a.get(f)) != norm_tokens(b.get(f)):
            d.append("value")
            break
    if a["outs"] != b["outs"] or a["ins"] != b["ins"]:
        d.append("labels")
    if a["dt"] != b["dt"]:
        d.append("dt")
    if a["name"] != b["name"]:
        d.append("name")
    return d


def sel_class(sel, n, labels):
    """coarse class of a selector (for violation signatures and the evidence histogram)"""
    k = sel[0]
    def icls(i):
        return "int+" if 0 <= i < n else "int-" if -n <= i < 0 else "int>" if i >= n else "int<"
    if k == "I":
        return icls(sel[1])
    if k == "N":
        return "name" if sel[1] in labels else "name?"
    if k == "X":
        return "bad"
    if k == "S":
        if sel[3] == 0:
            return "slice0"
        ln = len(range(n)[slice(sel[1], sel[2], sel[3])])
        sg = "-" if (sel[3] or 1) < 0 else "+"
        return "slice%s%s" % (sg, "empty" if ln == 0 else "")
    items = sel[1]
    if len(items) == 1:
        it = items[0]
        return "list1:" + (icls(it[1]) if it[0] == "I" else ("name" if it[1] in labels else "name?"))
    kinds = set()
    res = []
    for it in items:
        if it[0] == "N":
            kinds.add("name" if it[1] in labels else "name?")
            if it[1] in labels:
                res.append(labels.index(it[1]))
        else:
            c = icls(it[1])
            kinds.add({"int+": "pos", "int-": "neg"}.get(c, "oor"))
            if c in ("int+", "int-"):
                res.append(it[1] % n)
    if len(set(res)) < len(res):
        kinds.add("dup")
    if not items:
        return "list0"
    return "list:" + "+".join(sorted(kinds))


def has_dup(lst):
    return lst is not None and len(set(lst)) < len(lst)


class C17(Family):
    prop = "C17"
    # source-text tie (DESIGN 2.5): Generated/SubsysIndex.lean is rewritten from /repo's control/iosys.py
    # (_process_subsys_index, NamedSignal._parse_key) on every run and proved equal to the model
    # (`processIdx`, `parseSel`) in Props/C17Gen.lean
    extra_modules = ["CtrlVerif.Props.C17Gen"]
    # second part of the tie (tag py2lean-getitem): the three `__getitem__` methods (control/statesp.py,
    # xferfcn.py, frdata.py) are regenerated as Generated/GetitemSS|TF|FRD.lean and proved equal to the
    # model `getitem ssCtor / tfCtor / frdCtor` in Props/C17GenItem*.lean
    extra_modules += ["CtrlVerif.Props.C17GenItemSS", "CtrlVerif.Props.C17GenItemTF",
                      "CtrlVerif.Props.C17GenItemFRD", "CtrlVerif.Props.C17GenItem"]
    # call histories (selector objects kept by the caller and used again): Model/IndexHist.lean
    extra_modules += ["CtrlVerif.Props.C17Hist"]

    def pre_build(self):
        import os
        from core import py2lean_select, py2lean_getitem, leanproj
        repo = os.environ.get("VERIF_REPO") or "/repo"
        problems, self.gen_info = py2lean_select.regenerate(repo, leanproj.LEAN, "C17")
        p2, i2 = py2lean_getitem.regenerate(repo, leanproj.LEAN)
        self.gen_info.update(i2)
        return problems + p2

    exhaustive = True
    externals = ["numpy basic/fancy indexing and Python list/range slicing (their index semantics are the "
                 "model's `sliceList`/`normIdx`; compared on every case through the implementation, and "
                 "`range(n)[slice]` is the harness oracle)"]
    assumptions = [
        "selectors are Python int, str, slice with int/None fields, list of int/str; bool, nested lists and "
        "NumPy integer scalars are outside the modelled selector space (only their rejection is covered: "
        "float, None, ndarray, np.int64, tuple raise)",
        "systems have unique signal labels without white space (enforced by the constructors)",
        "constructor quirks are modelled as they exist: a transfer function cannot have zero outputs/inputs "
        "(IndexError), a state-space system with one output and no inputs is rejected (ControlDimension)"]
    rule = ("for every class (ss, tf, frd) and every shape p,m in 1..3 (thorough) a system with pairwise "
            "distinct entries, random labels style (default / custom / digit strings / shared between inputs "
            "and outputs), timebase and name (explicit or default); EVERY selector of the enumerated space "
            "{ints -4..4; slices start,stop in {None,-4..4}, step in {None,+-1,+-2} (+ zero and +-3 steps); lists "
            "of <=3 distinct ints from -4..4 in any order; [], every name, unknown names, names of the other axis; "
            "lists of <=2 names, mixed name/int lists, lists with repeated channels; non-selector objects} on one "
            "axis x seeded selectors on the other axis, both ways; quick tier = seeded sample of that space plus "
            "all ints and names.  A case is non-trivial when the model returns a system that is a proper "
            "re-indexing (not the identity selection) or raises an index/name error")

    # ---- selector space ------------------------------------------------------
    def space(self, n, labels, other_labels):
        ints = [["I", k] for k in range(-4, 5)]
        vals = [None] + list(range(-4, 5))
        slices = [["S", a, b, c] for a in vals for b in vals for c in (None, 1, -1, 2, -2)]
        slices += [["S", a, b, c] for a in (None, 0, -1, 2) for b in (None, 0, 3, -4) for c in (3, -3, 0)]
        lists = [["L", []]]
        for ln in (1, 2, 3):
            for comb in itertools.permutations(range(-4, 5), ln):
                lists.append(["L", [["I", k] for k in comb]])
        unknown = ["q", "y[7]"] + [s for s in other_labels if s not in labels][:1]
        names = [["N", s] for s in labels + unknown]
        nlists = []
        pool = labels + unknown[:1]
        for s in pool:
            nlists.append(["L", [["N", s]]])
        for a, b in itertools.permutations(pool, 2):
            nlists.append(["L", [["N", a], ["N", b]]])
        for s in labels:
            for k in (-1, 0, n - 1, n):
                nlists.append(["L", [["N", s], ["I", k]]])
                nlists.append(["L", [["I", k], ["N", s]]])
        dups = [["L", [["I", 0], ["I", 0]]], ["L", [["I", 0], ["I", -n]]], ["L", [["N", labels[0]], ["I", 0]]],
                ["L", [["I", n - 1], ["I", 0], ["I", -1]]]]
        bad = [["X", k] for k in ("float", "none", "npint", "ndarray", "tuple")]
        return {"int": ints, "slice": slices, "list": lists, "name": names, "namelist": nlists, "dup": dups,
                "bad": bad}

    def rnd_sel(self, rng, sp, n):
        """seeded selector for the *other* axis: mostly valid, in all kinds"""
        r = rng.random()
        if r < 0.3:
            return ["I", rng.randrange(-n, n)]
        if r < 0.5:
            return rng.choice(sp["name"][:n])
        if r < 0.7:
            return ["S", rng.choice([None, 0, 1, -1, -2]), rng.choice([None, n, -1, 3]), rng.choice([None, 1, -1, 2])]
        if r < 0.85:
            k = rng.randint(1, n)
            return ["L", [["I", v] for v in rng.sample(range(n), k)]]
        if r < 0.95:
            k = rng.randint(1, n)
            return ["L", [["N", sp["name"][v][1]] if rng.random() < 0.6 else ["I", v - n]
                          for v in rng.sample(range(n), k)]]
        return rng.choice(sp["int"] + sp["bad"])

    # ---- systems ---------------------------------------------------------------
    def rnd_labels(self, rng, p, m):
        style = rng.choice(["default", "custom", "digits", "shared", "custom", "mixed"])
        if style == "default":
            return None, None
        if style == "custom":
            return ["x", "yy", "z_3"][:p], ["a", "b-1", "c"][:m]
        if style == "digits":     # names that look like indices
            return ["1", "0", "2"][:p], ["2", "1", "0"][:m]
        if style == "shared":     # the same names on both axes, at different positions
            return ["a", "b", "c"][:p], (["c", "a", "b"] if m == 3 else ["b", "a"] if m == 2 else ["b"])[:m]
        return None, ["in%d" % (m - j) for j in range(m)]

    def rnd_sys(self, rng, cls, p, m):
        outs, ins = self.rnd_labels(rng, p, m)
        dt = rng.choice(["C", "C", "N", "T", exact.dt_tok(0.1), "D1/4", "D2"])
        name = rng.choice(["sysA", "P", "plant_1", None])
        d = {"p": p, "m": m, "outs": outs, "ins": ins, "dt": dt, "name": name}
        if cls == "ss":
            n = rng.choice([0, 1, 2, 2, 3])
            d["n"] = n
            perm = lambda k, lo: [str(v) for v in rng.sample(range(lo, lo + 2 * k + 3), k)]
            d["A"] = perm(n * n, -6)
            d["B"] = perm(n * m, 1)
            d["C"] = perm(p * n, -9)
            d["D"] = perm(p * m, -4)
        elif cls == "tf":
            ks = rng.sample(range(1, 2 * p * m + 4), p * m)
            ents = []
            for k in ks:
                r = rng.random()
                if r < 0.1:
                    ents.append([["0"], ["1"]])
                elif r < 0.3:
                    ents.append([[str(k)], [str(rng.choice([1, 2, -1]))]])
                elif r < 0.7:
                    ents.append([[str(k)], ["1", str(rng.randint(-3, 5))]])
                else:
                    ents.append([[str(rng.choice([1, 2, -1])), str(k)], [str(rng.choice([1, 3])), "0", str(k + 1)]])
            d["ent"] = ents
        else:
            w = rng.choice([1, 2, 3])
            d["omega"] = [tok(Fraction(v, 4)) for v in sorted(rng.sample(range(1, 40), w))]
            vals = rng.sample(range(-30, 31), p * m * w)
            d["data"] = [[str(v), tok(Fraction(rng.randint(-8, 8), 2))] for v in vals]
        return d

    def rnd_cfg(self, rng):
        if rng.random() < 0.85:
            return None
        return rng.choice([["", ""], ["sub_", ""], ["", "_idx"], ["<", ">"]])

    # ---- generation ---------------------------------------------------------------
    def generate(self, rng, tier):
        out = []
        shapes = [(p, m) for p in (1, 2, 3) for m in (1, 2, 3)]
        nsys = 1 if tier == "quick" else 2
        for cls in ("ss", "tf", "frd"):
            for (p, m) in shapes * nsys:
                sysd = self.rnd_sys(rng, cls, p, m)
                outs, ins = labels_of(sysd)
                spr = self.space(p, outs, ins)
                spc = self.space(m, ins, outs)
                for axis, sp, osp, on in (("rows", spr, spc, m), ("cols", spc, spr, p)):
                    allsel = [s for k in ("int", "slice", "list", "name", "namelist", "dup", "bad") for s in sp[k]]
                    if tier == "quick":
                        keep = sp["int"] + sp["name"] + sp["dup"][:2] + sp["bad"][:1]
                        keep += rng.sample(sp["slice"], 48) + rng.sample(sp["list"], 34) + \
                            rng.sample(sp["namelist"], min(8, len(sp["namelist"])))
                        allsel, reps = keep, 1
                    else:
                        reps = 2
                    for s in allsel:
                        for _ in range(reps):
                            o = self.rnd_sel(rng, osp, on)
                            case = {"cls": cls, "sys": sysd, "cfg": self.rnd_cfg(rng),
                                    "rows": s if axis == "rows" else o, "cols": o if axis == "rows" else s}
                            out.append(case)
        return out

    def corpus(self):
        S = {"p": 3, "m": 3, "outs": ["x", "y", "z"], "ins": ["a", "b", "c"], "dt": "C", "name": "S", "n": 2,
             "A": ["-1", "0", "0", "-2"], "B": ["1", "0", "1", "0", "1", "1"], "C": ["1", "0", "0", "1", "1", "1"],
             "D": [str(k) for k in range(9)]}
        S1 = {"p": 2, "m": 2, "outs": None, "ins": None, "dt": "T", "name": "S1", "n": 1,
              "A": ["-1"], "B": ["1", "2"], "C": ["3", "4"], "D": ["5", "6", "7", "8"]}
        G = {"p": 2, "m": 2, "outs": None, "ins": None, "dt": exact.dt_tok(0.1), "name": "G",
             "ent": [[[str(k + 1)], ["1", str(k + 2)]] for k in range(4)]}
        F = {"p": 2, "m": 1, "outs": ["x", "y"], "ins": ["a"], "dt": "C", "name": None,
             "omega": ["1", "2"], "data": [["1", "2"], ["3", "4"], ["5", "6"], ["7", "8"]]}
        mk = lambda cls, s, r, c: {"cls": cls, "sys": s, "cfg": None, "rows": r, "cols": c}
        return [
            mk("ss", S, ["I", -1], ["I", 0]),            # DESIGN 6.2: 0 outputs
            mk("ss", S, ["I", 5], ["I", 0]),             # 0 outputs, no error
            mk("ss", S, ["I", -1], ["I", -1]),           # 0 x 0
            mk("ss", S, ["I", 0], ["I", -1]),            # ControlDimension
            mk("ss", S, ["L", [["I", -1]]], ["I", 0]),   # singleton list, same branch
            mk("tf", G, ["I", -1], ["I", 0]),            # IndexError
            mk("frd", F, ["I", -1], ["I", 0]),
            mk("frd", F, ["I", 2], ["I", 0]),
            mk("ss", S, ["L", [["I", 0], ["I", 0]]], ["I", 0]),   # repeated channel: labels collapse
            mk("ss", S, ["S", None, None, -1], ["L", [["N", "c"], ["N", "a"]]]),
            # constructor quirks on empty selections (modelled as they exist)
            mk("ss", S, ["I", 0], ["L", []]),                      # D is 1 x 0 -> ControlDimension
            mk("ss", S, ["L", [["I", 0], ["I", 1]]], ["L", []]),   # 2 x 0 is accepted
            mk("ss", S1, ["L", [["I", 0], ["I", 1]]], ["S", 1, 1, None]),   # one state: B is 1 x 0
            mk("ss", S1, ["L", []], ["S", 1, 1, None]),
            mk("ss", S1, ["L", []], ["I", 0]),
            mk("tf", G, ["L", []], ["I", 0]),                      # TransferFunction cannot be empty
            mk("tf", G, ["I", 0], ["S", 2, 1, None]),
            mk("frd", F, ["L", []], ["S", 1, 1, None]),
        ]

    # ---- execution ----------------------------------------------------------------
    def sys_tokens(self, cls, sysd, cfg):
        outs, ins = labels_of(sysd)
        pre, suf = cfg or DEFAULT_CFG
        name = sysd["name"] if sysd["name"] is not None else PLACEHOLDER
        return "%s s:%s s:%s s:%s %s %d %d %s %s %s" % (
            cls, pre, suf, name, sysd["dt"], sysd["p"], sysd["m"],
            " ".join("s:" + s for s in outs), " ".join("s:" + s for s in ins), body_tokens(cls, sysd))

    def line(self, case):
        return "idx %s %s %s" % (self.sys_tokens(case["cls"], case["sys"], case["cfg"]),
                                 sel_tokens(case["rows"]), sel_tokens(case["cols"]))

    def index_once(self, cls, sys_, key, cfg):
        """sys_[key] under the configuration `cfg`, canonical result; the operand is re-read"""
        orig = canon_sys(cls, sys_)
        saved = None
        if cfg is not None:
            saved = (ct.config.defaults['iosys.indexed_system_name_prefix'],
                     ct.config.defaults['iosys.indexed_system_name_suffix'])
            ct.config.defaults['iosys.indexed_system_name_prefix'] = cfg[0]
            ct.config.defaults['iosys.indexed_system_name_suffix'] = cfg[1]
        try:
            r = sys_[key]
            res = {"ok": canon_sys(cls, r)}
        except Exception as e:  # noqa
            kind = {"IndexError": "indexRange", "TypeError": "badArg"}.get(type(e).__name__)
            if kind is None:
                kind = "unknownName" if "unknown signal name" in str(e) else \
                    "badArg" if "slice step" in str(e) else "shape"
            res = {"err": kind, "exc": "%s: %s" % (type(e).__name__, str(e)[:160])}
        finally:
            if saved is not None:
                ct.config.defaults['iosys.indexed_system_name_prefix'] = saved[0]
                ct.config.defaults['iosys.indexed_system_name_suffix'] = saved[1]
        res["orig_name"] = orig["name"]
        res["orig_labels"] = [orig["outs"], orig["ins"]]
        # the operand must be the system described by the case (and must not have been changed)
        after = canon_sys(cls, sys_)
        res["operand_ok"] = (after == orig)
        return res

    def impl(self, case):
        cls = case["cls"]
        sys_ = build(cls, case["sys"])
        key = (sel_obj(case["rows"]), sel_obj(case["cols"]))
        return self.index_once(cls, sys_, key, case["cfg"])

    def parse_model(self, case, out):
        if out.startswith("err "):
            return {"err": out.split()[1]}
        t = out.split()
        assert t[0] == "ok", out
        cls = t[1]
        st = lambda x: x[2:]
        name, dt, p, m = st(t[2]), t[3], int(t[4]), int(t[5])
        i = 6
        outs = [st(x) for x in t[i:i + p]]
        i += p
        ins = [st(x) for x in t[i:i + m]]
        i += m
        r = {"cls": cls, "name": name, "dt": dt, "p": p, "m": m, "outs": outs, "ins": ins}
        if cls == "ss":
            n = int(t[i]); i += 1
            r["n"] = n
            for k, sz in (("A", n * n), ("B", n * m), ("C", p * n), ("D", p * m)):
                r[k] = t[i:i + sz]
                i += sz
        elif cls == "tf":
            ents = []
            for _ in range(p * m):
                ln = int(t[i]); num = t[i + 1:i + 1 + ln]; i += 1 + ln
                ld = int(t[i]); den = t[i + 1:i + 1 + ld]; i += 1 + ld
                ents.append([num, den])
            r["ent"] = ents
        else:
            w = int(t[i]); i += 1
            r["omega"] = t[i:i + w]; i += w
            r["data"] = [[t[i + 2 * k], t[i + 2 * k + 1]] for k in range(p * m * w)]
            i += 2 * p * m * w
        assert i == len(t), out
        return {"ok": r}

    # ---- comparison -------------------------------------------------------------------
    def features(self, case, kind, impl, rows, cols, axes=("rows", "cols")):
        sysd = case["sys"]
        outs, ins = labels_of(sysd)
        f = {"kind": kind, "cls": case["cls"]}
        if "rows" in axes:
            f["rows"] = sel_class(case["rows"], sysd["p"], outs)
        if "cols" in axes:
            f["cols"] = sel_class(case["cols"], sysd["m"], ins)
        if has_dup(rows) or has_dup(cols):
            f["dup"] = True
        if "err" in impl:
            f["exc"] = impl["exc"].split(":")[0]
        return f

    def bad_axes(self, case):
        """axes whose selector the property says must raise"""
        sysd = case["sys"]
        outs, ins = labels_of(sysd)
        bad = []
        for ax, sel, labels in (("rows", case["rows"], outs), ("cols", case["cols"], ins)):
            try:
                oracle_axis(oracle_names(sel, labels), len(labels))
            except OracleErr:
                bad.append(ax)
        return tuple(bad) or ("rows", "cols")

    def compare(self, case, impl, model):
        cls = case["cls"]
        exp, rows, cols = oracle(case)
        if not impl.get("operand_ok", True):
            return Verdict(DIFFERS, "the operand built by the harness is not the system of the case",
                           {"kind": "harness-operand"})
        oname = impl.get("orig_name", "")
        fix = lambda r: dict(r, name=r["name"].replace(PLACEHOLDER, oname, 1)) \
            if case["sys"]["name"] is None else r
        m_err, i_err, e_err = "err" in model, "err" in impl, "err" in exp
        # 1. model and implementation agree
        if m_err and i_err:
            return Verdict(AGREE)
        if not m_err and not i_err:
            d = diff_fields(cls, impl["ok"], fix(model["ok"]))
            if not d:
                return Verdict(AGREE)
        # 2. they differ: evaluate the property itself on the implementation
        if i_err:
            if e_err:
                return Verdict(DIFFERS, "implementation raises, oracle raises, model returns",
                               self.features(case, "model-returns", impl, rows, cols))
            return Verdict(VIOLATES, "sys[%r, %r] raises %s where the sub-system exists"
                           % (sel_obj(case["rows"]), sel_obj(case["cols"]), impl["exc"]),
                           self.features(case, "raises", impl, rows, cols))
        got = impl["ok"]
        if e_err:
            return Verdict(VIOLATES, "sys[%r, %r] returns a %dx%d system where the selector is invalid (%s)"
                           % (sel_obj(case["rows"]), sel_obj(case["cols"]), got["p"], got["m"], exp["err"]),
                           self.features(case, "returns-" + exp["err"], impl, rows, cols, self.bad_axes(case)))
        want = fix(exp["ok"])
        d2 = diff_fields(cls, got, want)
        if d2:
            axes = ("rows", "cols")
            if d2 == ["shape"]:
                axes = tuple(a for a, n1, n2 in (("rows", got["p"], want["p"]),
                                                 ("cols", got["m"], want["m"])) if n1 != n2)
            elif "labels" in d2:      # the axis whose labels are wrong identifies the class
                axes = tuple(a for a, k in (("rows", "outs"), ("cols", "ins")) if got[k] != want[k])
            show = ("p", "m", "outs", "ins", "dt", "name")
            detail = "%s of sys[%r, %r]: implementation %s, demanded %s" % (
                "/".join(d2), sel_obj(case["rows"]), sel_obj(case["cols"]),
                {k: got.get(k) for k in show}, {k: want.get(k) for k in show})
            return Verdict(VIOLATES, detail, self.features(case, "+".join(d2), impl, rows, cols, axes))
        return Verdict(DIFFERS, "implementation returns the demanded system, model %s"
                       % ("raises " + model["err"] if m_err else "returns another one"),
                       self.features(case, "model-raises" if m_err else "model-value", impl, rows, cols))

    def nontrivial(self, case, model):
        if "err" in model:
            return model["err"] in ("indexRange", "unknownName")
        sysd = case["sys"]
        outs, ins = labels_of(sysd)
        return model["ok"]["outs"] != outs or model["ok"]["ins"] != ins

    def stats(self, case, impl, model):
        sysd = case["sys"]
        outs, ins = labels_of(sysd)
        st = {"cls": case["cls"], "shape": "%dx%d" % (sysd["p"], sysd["m"]),
              "rowsel": sel_class(case["rows"], sysd["p"], outs),
              "colsel": sel_class(case["cols"], sysd["m"], ins),
              "outcome": ("err:" + model["err"]) if "err" in model else
              "ok:%dx%d" % (model["ok"]["p"], model["ok"]["m"]),
              "dt": sysd["dt"][0], "cfg": "default" if case["cfg"] is None else "custom",
              "labels": "default" if sysd["outs"] is None else "custom"}
        if "err" in model and "err" in impl:
            st["errkind_equal"] = impl["err"] == model["err"]
        exp, _, _ = oracle(case)
        st["oracle_vs_model"] = "same" if (("err" in exp) == ("err" in model)) else \
            ("ctor-quirk" if "err" in model else "model-returns")
        return st

    # ---- shrinking / search ---------------------------------------------------------------
    def shrink(self, case):
        for ax in ("rows", "cols"):
            sel = case[ax]
            if sel[0] == "L" and len(sel[1]) > 1:
                for k in range(len(sel[1])):
                    yield dict(case, **{ax: ["L", sel[1][:k] + sel[1][k + 1:]]})
            if sel[0] not in ("I",) or sel[1] != 0:
                yield dict(case, **{ax: ["I", 0]})
        if case["cfg"] is not None:
            yield dict(case, cfg=None)
        s = case["sys"]
        if s["outs"] is not None or s["ins"] is not None:
            named = any(x[0] == "N" or (x[0] == "L" and any(it[0] == "N" for it in x[1]))
                        for x in (case["rows"], case["cols"]))
            if not named:
                yield dict(case, sys=dict(s, outs=None, ins=None))
        if s["dt"] != "C":
            yield dict(case, sys=dict(s, dt="C"))
        if s["name"] is None:
            yield dict(case, sys=dict(s, name="P"))

    def search(self, rng, case, tier):
        out = []
        for _ in range(200):
            cls = case["cls"]
            p, m = rng.choice([1, 2, 3]), rng.choice([1, 2, 3])
            sysd = self.rnd_sys(rng, cls, p, m)
            outs, ins = labels_of(sysd)
            spr, spc = self.space(p, outs, ins), self.space(m, ins, outs)
            out.append({"cls": cls, "sys": sysd, "cfg": self.rnd_cfg(rng),
                        "rows": self.rnd_sel(rng, spr, p), "cols": self.rnd_sel(rng, spc, m)})
        return out


from families import select_streams as _sel      # direct stream for _process_subsys_index


# ----------------------------------------------------------------------------
# call histories: selector objects kept by the caller and used again
# ----------------------------------------------------------------------------

LABEL_POOLS = [(["x", "yy", "z_3"], ["a", "b-1", "c"]), (["1", "0", "2"], ["2", "1", "0"]),
               (["a", "b", "c"], ["c", "a", "b"]), (["y[0]", "y[1]", "y[2]"], ["u[0]", "u[1]", "u[2]"]),
               (["vel", "pos", "acc"], ["u1", "u2", "u3"])]


def sel_kind(sel):
    """kind of selector object the caller keeps"""
    if sel[0] == "L":
        ks = {it[0] for it in sel[1]}
        return "list:" + ("empty" if not ks else "names" if ks == {"N"} else "ints" if ks == {"I"} else "mixed")
    if sel[0] == "X":
        return "tuple" if sel[1] in ("tup", "tuple") else "other:" + sel[1]
    return {"I": "int", "N": "name", "S": "slice"}[sel[0]]


def has_names(sel):
    return sel[0] == "N" or (sel[0] == "L" and any(it[0] == "N" for it in sel[1])) or sel[0] == "X"


class HistStream(_sel.Stream):
    """The caller keeps selector objects (lists of names, lists of ints, mixed lists, tuples, single
    names / ints / slices, non-selector objects) in variables and uses the SAME objects in several
    indexing calls: on a second system that carries the names at other positions (or lacks one, or has
    one more), on a system of another class, on the first system again, for rows and columns of one
    call, inside a key container (tuple or list) that is itself kept; between two calls the caller may
    edit one of its lists in place (the next call must see the edit).  Checked after every call: the
    result (against the model's `runHist` and the oracle of the property, with the selectors the
    caller WROTE) and the caller's objects (must be what the caller wrote)."""
    name = "hist"
    rule = ("call histories of 2-4 indexing calls that share selector OBJECTS kept by the caller (lists of "
            "names / ints / mixed, tuples, names, ints, slices, non-selectors; 2-4 objects): second system = "
            "first system's labels permuted, one dropped, one added or one renamed, same or other class "
            "(ss/tf/frd), shapes 1..3; call patterns first>second, first>second>first, same system twice, "
            "one object for rows and columns, key container tuple or (name-free selectors) list kept across "
            "calls, the caller editing one of its lists in place between two calls (20 %), the caller relabelling a "
            "system (update_names: labels rotated or one renamed) before indexing it again (20 %); after every call the result is compared with the model's history semantics "
            "(Index.runHist) and the caller's objects with what the caller wrote")

    def __init__(self):
        self.base = C17()

    # ---- generation ------------------------------------------------------------------
    def variant(self, rng, labels, extra):
        """the same names at other positions; sometimes one dropped / added / renamed"""
        l = list(labels)
        r = rng.random()
        if r < 0.55 or (len(l) == 1 and r < 0.7):
            pass
        elif r < 0.7:
            l.pop(rng.randrange(len(l)))
        elif r < 0.85 and len(l) < 3:
            l.append(extra)
        else:
            l[rng.randrange(len(l))] = extra
        if len(l) > 1:
            k = rng.randrange(1, len(l))
            l = l[k:] + l[:k]                  # never the identity arrangement
            if rng.random() < 0.4:
                l.reverse()
        return l

    def kept_sel(self, rng, sp, n, labels):
        """a selector object a caller would keep (valid on the first system most of the time)"""
        r = rng.random()
        if r < 0.35:
            k = rng.randint(1, n)
            return ["L", [["N", labels[v]] for v in rng.sample(range(n), k)]]
        if r < 0.50:
            k = rng.randint(1, n)
            return ["L", [["N", labels[v]] if rng.random() < 0.5 else ["I", v - n * rng.randint(0, 1)]
                          for v in rng.sample(range(n), k)]]
        if r < 0.62:
            k = rng.randint(0, n)
            return ["L", [["I", v - n * rng.randint(0, 1)] for v in rng.sample(range(n), k)]]
        if r < 0.72:
            return ["N", rng.choice(labels)]
        if r < 0.80:
            return rng.choice(sp["namelist"])          # incl. unknown names
        if r < 0.88:
            return self.base.rnd_sel(rng, sp, n)
        if r < 0.96:
            k = rng.randint(0, 3)
            return ["X", "tup", [["N", rng.choice(labels)] if rng.random() < 0.5 else ["I", rng.randrange(-n, n)]
                                 for _ in range(k)]]
        return rng.choice(sp["bad"])

    def one(self, rng):
        b = self.base
        classes = ("ss", "tf", "frd")
        cls1 = rng.choice(classes)
        cls2 = cls1 if rng.random() < 0.6 else rng.choice(classes)
        p, m = rng.choice([1, 2, 2, 3, 3]), rng.choice([1, 2, 2, 3])
        po, pi = rng.choice(LABEL_POOLS)
        s1 = b.rnd_sys(rng, cls1, p, m)
        s1["outs"], s1["ins"] = po[:p], pi[:m]
        if po[0] == "y[0]" and rng.random() < 0.5:
            s1["outs"], s1["ins"] = None, None          # default labels, spelled by the constructor
        outs, ins = labels_of(s1)
        o2, i2 = self.variant(rng, outs, "w"), self.variant(rng, ins, "v")
        s2 = b.rnd_sys(rng, cls2, len(o2), len(i2))
        s2["outs"], s2["ins"] = o2, i2
        if s2["name"] is not None and s2["name"] == s1["name"]:
            s2["name"] = s2["name"] + "2"
        syss = [{"cls": cls1, "sys": s1}, {"cls": cls2, "sys": s2}]
        spr, spc = b.space(p, outs, ins), b.space(m, ins, outs)
        nr, nc = rng.choice([1, 1, 2]), rng.choice([1, 1, 2])
        store = [self.kept_sel(rng, spr, p, outs) for _ in range(nr)] + \
                [self.kept_sel(rng, spc, m, ins) for _ in range(nc)]
        pat = rng.choice([[0, 1], [0, 1], [0, 1], [0, 1, 0], [1, 0], [0, 0], [1, 0, 1], [0, 1, 1, 0]])
        calls = []
        both = rng.random() < 0.08          # one object for rows and columns
        ever_names = [has_names(x) for x in store]
        curlab = [[list(outs), list(ins)], [list(o2), list(i2)]]
        for k, sn in enumerate(pat):
            if k and rng.random() < 0.2:    # the caller relabels the system it is about to index
                ev = {"rl": sn}
                for ax, key, extra in ((0, "outs", "w2"), (1, "ins", "v2")):
                    if rng.random() < 0.65:
                        l = list(curlab[sn][ax])
                        if len(l) > 1 and rng.random() < 0.75:
                            j = rng.randrange(1, len(l))
                            l = l[j:] + l[:j]
                        else:
                            l[rng.randrange(len(l))] = extra if extra not in l else extra + "x"
                        ev[key] = l
                        curlab[sn][ax] = l
                if len(ev) > 1:
                    calls.append(ev)
            r = rng.randrange(nr) if k else 0
            c = nr + (rng.randrange(nc) if k else 0)
            if both:
                c = r
            if k and rng.random() < 0.2:    # the caller edits one of its lists in place before this call
                v = rng.choice([r, c])
                if store[v][0] == "L":
                    for _ in range(6):
                        to = self.kept_sel(rng, spr, p, outs) if v < nr else self.kept_sel(rng, spc, m, ins)
                        if to[0] == "L":
                            calls.append({"w": v, "to": to})
                            ever_names[v] = ever_names[v] or has_names(to)
                            break
            calls.append({"s": sn, "r": r, "c": c, "kc": "tuple"})
        for call in calls:                   # a kept key list [rows, cols]: name-free selectors only
            if "s" in call and not ever_names[call["r"]] and not ever_names[call["c"]] and rng.random() < 0.3:
                call["kc"] = "list"
        return {"sel": "hist", "cfg": b.rnd_cfg(rng), "syss": syss, "store": store, "calls": calls}

    def generate(self, rng, tier):
        return [self.one(rng) for _ in range(450 if tier == "quick" else 6000)]

    def corpus(self):
        """a list of names kept by the caller and used on a second system that carries the names at other
        positions (the shape of seeded change C17-m8), one per class; a kept key list; a kept tuple"""
        out = []
        b = self.base
        rng = __import__("random").Random(17)
        for cls in ("ss", "tf", "frd"):
            s1 = b.rnd_sys(rng, cls, 3, 2)
            s1.update(outs=["pos", "vel", "acc"], ins=["u1", "u2"], name="P1", dt="C")
            s2 = b.rnd_sys(rng, cls, 3, 2)
            s2.update(outs=["acc", "pos", "vel"], ins=["u2", "u1"], name="P2", dt="C")
            out.append({"sel": "hist", "cfg": None, "syss": [{"cls": cls, "sys": s1}, {"cls": cls, "sys": s2}],
                        "store": [["L", [["N", "vel"], ["N", "pos"]]], ["L", [["N", "u2"]]]],
                        "calls": [{"s": 0, "r": 0, "c": 1, "kc": "tuple"}, {"s": 1, "r": 0, "c": 1, "kc": "tuple"}]})
        s1, s2 = out[0]["syss"]
        out.append({"sel": "hist", "cfg": None, "syss": [s1, s2],
                    "store": [["L", [["I", -1], ["I", 0]]], ["S", None, None, -1]],
                    "calls": [{"s": 0, "r": 0, "c": 1, "kc": "list"}, {"s": 1, "r": 0, "c": 1, "kc": "list"}]})
        out.append({"sel": "hist", "cfg": None, "syss": [s1, s2],
                    "store": [["X", "tup", [["N", "vel"], ["N", "pos"]]], ["N", "u1"]],
                    "calls": [{"s": 0, "r": 0, "c": 1, "kc": "tuple"}, {"s": 1, "r": 0, "c": 1, "kc": "tuple"}]})
        out.append({"sel": "hist", "cfg": None, "syss": [s1, s2],       # the caller appends to its list
                    "store": [["L", [["N", "vel"]]], ["S", None, None, None]],
                    "calls": [{"s": 0, "r": 0, "c": 1, "kc": "tuple"}, {"w": 0, "to": ["L", [["N", "vel"], ["N", "acc"]]]},
                              {"s": 1, "r": 0, "c": 1, "kc": "tuple"}]})
        out.append({"sel": "hist", "cfg": None, "syss": [out[1]["syss"][0]],     # relabelled between two calls
                    "store": [["L", [["N", "vel"], ["N", "pos"]]], ["N", "u2"]],
                    "calls": [{"s": 0, "r": 0, "c": 1, "kc": "tuple"},
                              {"rl": 0, "outs": ["vel", "acc", "pos"], "ins": ["u2", "u1"]},
                              {"s": 0, "r": 0, "c": 1, "kc": "tuple"}]})
        return out

    # ---- execution ----------------------------------------------------------------------
    def timeline(self, case):
        """[(call, the caller's selectors at the time of the call, the systems as labelled at that time)],
        the selectors at the end"""
        cur = list(case["store"])
        syss = list(case["syss"])
        out = []
        for ev in case["calls"]:
            if "w" in ev:
                cur = cur[:ev["w"]] + [ev["to"]] + cur[ev["w"] + 1:]
            elif "rl" in ev:
                d = syss[ev["rl"]]
                sd = dict(d["sys"])
                o, i = labels_of(sd)
                sd["outs"], sd["ins"] = list(ev.get("outs", o)), list(ev.get("ins", i))
                syss = syss[:ev["rl"]] + [dict(d, sys=sd)] + syss[ev["rl"] + 1:]
            else:
                out.append((ev, cur, syss))
        return out, cur

    def step_case(self, case, k):
        call, cur, syss = self.timeline(case)[0][k]
        d = syss[call["s"]]
        return {"cls": d["cls"], "sys": d["sys"], "cfg": case["cfg"],
                "rows": cur[call["r"]], "cols": cur[call["c"]]}

    def line(self, case):
        b = self.base
        toks, k = [], 0
        tl = self.timeline(case)[0]
        for c in case["calls"]:
            if "w" in c:
                toks.append("W %d %s" % (c["w"], sel_tokens(c["to"])))
            elif "s" in c:                    # (a relabelling is not an event of the model: the call that
                d = tl[k][2][c["s"]]          #  follows carries the system as it is labelled then)
                k += 1
                toks.append("%s %d %d" % (b.sys_tokens(d["cls"], d["sys"], case["cfg"]), c["r"], c["c"]))
        return "idx hist %d %s %d %s" % (
            len(case["store"]), " ".join(sel_tokens(x) for x in case["store"]), len(toks), " ".join(toks))

    def impl(self, case):
        b = self.base
        store = list(case["store"])
        objs = [sel_obj(x) for x in store]                    # built once, used by every call
        syss = [build(d["cls"], d["sys"]) for d in case["syss"]]
        keys = {}
        steps = []
        for call in case["calls"]:
            if "w" in call:                                   # the caller edits its own list, in place
                assert store[call["w"]][0] == "L" and call["to"][0] == "L"
                objs[call["w"]][:] = sel_obj(call["to"])
                store[call["w"]] = call["to"]
                continue
            if "rl" in call:                                  # the caller relabels one of its systems
                kw = {k2: list(call[k1]) for k1, k2 in (("outs", "outputs"), ("ins", "inputs")) if k1 in call}
                syss[call["rl"]].update_names(**kw)
                continue
            kk = (call["r"], call["c"], call["kc"])
            if kk not in keys:                                # the key container is kept as well
                pair = (objs[call["r"]], objs[call["c"]])
                keys[kk] = pair if call["kc"] == "tuple" else list(pair)
            res = b.index_once(case["syss"][call["s"]]["cls"], syss[call["s"]], keys[kk], case["cfg"])
            res["store"] = [obj_sel(o, x) for o, x in zip(objs, store)]
            bad_keys = []
            for (r, c, kc), key in keys.items():
                now = [obj_sel(o, x) for o, x in zip(key, (store[r], store[c]))] if len(key) == 2 else None
                if now != [store[r], store[c]] or type(key) is not (tuple if kc == "tuple" else list):
                    bad_keys.append({"was": [store[r], store[c]], "now": now if now is not None else repr(key)[:80]})
            res["bad_keys"] = bad_keys
            steps.append(res)
        return {"steps": steps}

    def parse_sels(self, toks):
        out, i = [], 0
        def item(i):
            return (["I", int(toks[i + 1])] if toks[i] == "I" else ["N", toks[i + 1][2:]]), i + 2
        while i < len(toks):
            t = toks[i]
            if t in ("I", "N"):
                x, i = item(i)
            elif t == "S":
                x = ["S"] + [None if v == "_" else int(v) for v in toks[i + 1:i + 4]]
                i += 4
            elif t == "L":
                n, i, its = int(toks[i + 1]), i + 2, []
                for _ in range(n):
                    it, i = item(i)
                    its.append(it)
                x = ["L", its]
            elif t == "X":
                x, i = ["X"], i + 1
            else:
                raise ValueError("selector token %r" % t)
            out.append(x)
        return out

    def parse_model(self, case, out):
        assert out.startswith("hist "), out
        parts = out[5:].split(" ## ")
        ncalls = len(self.timeline(case)[0])
        assert len(parts) == ncalls + 1 and parts[-1].startswith("store"), out
        steps = [self.base.parse_model(self.step_case(case, k), parts[k]) for k in range(ncalls)]
        store = self.parse_sels(parts[-1].split()[1:])
        assert len(store) == len(case["store"]), out
        return {"steps": steps, "store": store}

    # ---- comparison -----------------------------------------------------------------------
    def used_before(self, case, k):
        calls = [t[0] for t in self.timeline(case)[0]]
        c = calls[k]
        return any(p["r"] in (c["r"], c["c"]) or p["c"] in (c["r"], c["c"]) for p in calls[:k])

    def compare(self, case, impl, model):
        tl, store = self.timeline(case)          # `store`: the caller's selectors at the end, as written
        # what the model says the caller's objects are after the history (non-selector objects are one
        # token in the model: they are compared with what the caller wrote)
        want_store = [w if m == ["X"] and w[0] == "X" else m for m, w in zip(model["store"], store)]
        if want_store != store:
            return Verdict(DIFFERS, "model: the caller's selectors after the history are %s, written %s"
                           % (want_store, store), {"kind": "model-store", "hist": True})
        rewritten = None
        first_differs = None
        ncalls = len(tl)
        for k, (call, cur, _) in enumerate(tl):
            sc = self.step_case(case, k)
            st = impl["steps"][k]
            if st.get("orig_labels") != [list(x) for x in labels_of(sc["sys"])]:
                return Verdict(DIFFERS, "call %d: the system is labelled %s, the case says %s (relabelling by the "
                               "harness did not take effect)" % (k + 1, st.get("orig_labels"), labels_of(sc["sys"])),
                               {"kind": "harness-operand", "hist": True})
            v = self.base.compare(sc, st, model["steps"][k])
            where = "call %d of %d (selector objects kept by the caller, %s)" % (
                k + 1, ncalls, "used before" if self.used_before(case, k) else "first use")
            if v.status == VIOLATES:
                f = dict(v.features, hist="reuse" if self.used_before(case, k) else "first")
                extra = ""
                if rewritten is not None:
                    f["after_rewrite"] = True
                    extra = "; the caller's selector %s had been rewritten to %s by call %d" % rewritten
                return Verdict(VIOLATES, where + ": " + v.detail + extra, f)
            if v.status == DIFFERS and first_differs is None:
                first_differs = Verdict(DIFFERS, where + ": " + v.detail, dict(v.features, hist=True))
            if rewritten is None:
                for j, (now, was) in enumerate(zip(st["store"], cur)):
                    if now != was:
                        rewritten = (sel_obj(was) if was[0] != "X" else was, now[1] if now[0] == "?" else
                                     sel_obj(now), k + 1)
                        rew_feat = {"kind": "selector-rewritten", "cls": sc["cls"], "sel": sel_kind(was),
                                    "hist": True}
                        break
                if rewritten is None and st["bad_keys"]:
                    bk = st["bad_keys"][0]
                    rewritten = (bk["was"], bk["now"], k + 1)
                    rew_feat = {"kind": "key-rewritten", "cls": sc["cls"], "hist": True}
        if rewritten is not None:
            return Verdict(VIOLATES, "indexing wrote into the caller's selector object: %r became %r in call %d "
                           "(%s[...]); a later use of the object does not select what the caller wrote"
                           % (rewritten + (case["syss"][tl[rewritten[2] - 1][0]["s"]]["cls"],)), rew_feat)
        if first_differs is not None:
            return first_differs
        return Verdict(AGREE)

    def nontrivial(self, case, model):
        return any(self.used_before(case, k) for k in range(len(self.timeline(case)[0])))

    def stats(self, case, impl, model):
        calls = [t[0] for t in self.timeline(case)[0]]
        st = {"stream": "hist", "hist_calls": len(calls),
              "hist_edits": sum(1 for c in case["calls"] if "w" in c),
              "hist_relabels": sum(1 for c in case["calls"] if "rl" in c),
              "hist_classes": ">".join(case["syss"][c["s"]]["cls"] for c in calls[:2]),
              "hist_pattern": "".join(str(c["s"]) for c in calls),
              "hist_key": "+".join(sorted({c["kc"] for c in calls}))}
        for x in case["store"]:
            st["hist_kept_" + sel_kind(x)] = True
        outs = ["err:" + m["err"] if "err" in m else "ok" for m in model["steps"]]
        st["hist_outcomes"] = ">".join(outs[:2])
        if any(c["r"] == c["c"] for c in calls):
            st["hist_same_object_both_axes"] = True
        return st

    # ---- shrinking --------------------------------------------------------------------------
    def compact(self, case):
        """drop the systems and variables no call uses"""
        real = [c for c in case["calls"] if "s" in c]
        us = sorted({c["s"] for c in real})
        uv = sorted({v for c in real for v in (c["r"], c["c"])})
        evs = [c for c in case["calls"] if "s" in c or ("w" in c and c["w"] in uv) or ("rl" in c and c["rl"] in us)]
        return dict(case, syss=[case["syss"][i] for i in us], store=[case["store"][i] for i in uv],
                    calls=[dict(c, w=uv.index(c["w"])) if "w" in c else dict(c, rl=us.index(c["rl"])) if "rl" in c
                           else dict(c, s=us.index(c["s"]), r=uv.index(c["r"]), c=uv.index(c["c"])) for c in evs])

    def shrink(self, case):
        calls = case["calls"]
        nreal = sum(1 for c in calls if "s" in c)
        for k in range(len(calls)):
            if "s" not in calls[k] or nreal > 1:
                yield self.compact(dict(case, calls=calls[:k] + calls[k + 1:]))
        written = {c["w"] for c in calls if "w" in c}
        for j, x in enumerate(case["store"]):
            if x[0] == "L" and len(x[1]) > 1:
                for k in range(len(x[1])):
                    yield dict(case, store=case["store"][:j] + [["L", x[1][:k] + x[1][k + 1:]]] + case["store"][j + 1:])
            elif x[0] != "I" and not (x[0] == "L" and len(x[1]) == 1) and j not in written:
                yield dict(case, store=case["store"][:j] + [["I", 0]] + case["store"][j + 1:])
        if case["cfg"] is not None:
            yield dict(case, cfg=None)
        if any(c.get("kc", "tuple") != "tuple" for c in calls):
            yield dict(case, calls=[dict(c, kc="tuple") if "s" in c else c for c in calls])
        for i, d in enumerate(case["syss"]):
            for ch in ({"dt": "C"}, {"name": "P%d" % i}):
                if d["sys"][list(ch)[0]] != list(ch.values())[0] and (list(ch)[0] == "dt" or d["sys"]["name"] is None):
                    yield dict(case, syss=case["syss"][:i] + [dict(d, sys=dict(d["sys"], **ch))] + case["syss"][i + 1:])


FAMILY = _sel.extend(C17, _sel.SubsysStream(), HistStream())
