"""C19 — operations are pure.

Two kinds of case, both executed on the real python-control code in-process:

* ``{"type": "hist", "hist": [step, ...]}`` — a call history over the public API on a pool of live
  objects (arrays, StateSpace / TransferFunction / FRD / nonlinear systems).  Before and after
  every step a deep snapshot is taken of every live object (array contents by value, every public
  attribute, recursively) and of ``config.defaults``; a *probe* (a pure call with a tag) that is
  repeated later in the history must return the same value when the configuration is the same.
  The Lean model (``Model/Config.lean``, driver family ``c19 cfg``) is run on the same history:
  it predicts the outcome and the new configuration of every configuration call and "nothing
  changes" for every other call.
* ``{"type": "nl", ...}`` — the parameter protocol of nonlinear systems: an interconnected system
  with recording subsystems is evaluated through ``__call__`` / ``output`` / ``dynamics`` /
  ``input_output_response`` / ``linearize`` with and without ``params=``; the dictionaries the
  subsystem functions actually receive are compared with the model (``c19 nlp spec``; the model
  of the code as it exists, ``c19 nlp code``, is reported as a statistic).

step ::= ["new", slot, kind, spec]            construct an object into a named slot
       | ["op", slot|None, opname, [arg...], {kw: arg}]     arg ::= {"s": slot} | {"item": [slot, key]} | literal
       | ["probe", tag, opname, [arg...], {kw: arg}]
       | ["set", key, val] | ["get", key] | ["sd", module, [[k, val]...]]
       | ["with", [[key, val]...], [step...]] | ["reset"] | ["matlab"] | ["fbs"] | ["legacy", ver]
  (val = harness serialisation of a Python value, see `enc`)
"""
import copy
import functools
import hashlib
import json
import math
import re
import sys

import numpy as np
import control as ct

from core.runner import Family, Verdict, AGREE, VIOLATES, DIFFERS, load_known, match_known

D = ct.config.defaults

# ----------------------------------------------------------------------------------------------
# serialisation of configuration values (shared with the Lean model's literals)
# ----------------------------------------------------------------------------------------------
_SAFE = set("abcdefghijklmnopqrstuvwxyzABCDEFGHIJKLMNOPQRSTUVWXYZ0123456789_.-")


@functools.lru_cache(maxsize=None)
def esc(s):
    if s == "":
        return "%e"
    return "".join(ch if ch in _SAFE else "".join("%%%02X" % b for b in ch.encode("utf8")) for ch in s)


def _plain(v):
    if isinstance(v, (np.bool_,)):
        return bool(v)
    if isinstance(v, np.integer):
        return int(v)
    if isinstance(v, np.floating):
        return float(v)
    if isinstance(v, np.ndarray):
        return [_plain(x) for x in v.tolist()]
    if isinstance(v, (list, tuple)):
        return [_plain(x) for x in v]
    if isinstance(v, dict):
        return {str(k): _plain(x) for k, x in v.items()}
    if v is None or isinstance(v, (bool, int, float, str)):
        return v
    return "<%s>" % type(v).__name__


def enc(v):
    t = type(v)                      # fast paths (the configuration is serialised around every call)
    if t is str:
        return esc(v)
    if v is None:
        return "~n"
    if t is bool:
        return "~b1" if v else "~b0"
    if t is int:
        return "~i%d" % v
    if t is float:
        return "~f" + esc(repr(v))
    if t is list or t is dict or t is tuple:
        # nested values: `repr` is a complete deep-by-value key for the plain data the package
        # keeps there (anything else prints its address and is simply not cached usefully)
        key = (t, repr(v))
        r = _ENC_CACHE.get(key)
        if r is None:
            if len(_ENC_CACHE) > 20000:
                _ENC_CACHE.clear()
            r = _ENC_CACHE[key] = _enc_slow(v)
        return r
    return _enc_slow(v)


_ENC_CACHE = {}


def _enc_slow(v):
    v = _plain(v)
    if isinstance(v, str):
        return esc(v)
    if v is None:
        return "~n"
    if isinstance(v, bool):
        return "~b1" if v else "~b0"
    if isinstance(v, int):
        return "~i%d" % v
    if isinstance(v, float):
        return "~f" + esc(repr(v))
    s = json.dumps(v, sort_keys=True, separators=(",", ":"))
    if len(s) > 120:
        return "~h" + hashlib.sha1(s.encode()).hexdigest()[:16]
    return "~j" + esc(s)


def dec(tok):
    """inverse of `enc` for the values the generator uses"""
    def unesc(s):
        if s == "%e":
            return ""
        return re.sub(r"((?:%[0-9A-F]{2})+)", lambda m: bytes.fromhex(m.group(1).replace("%", "")).decode("utf8"), s)
    if not tok.startswith("~"):
        return unesc(tok)
    k, rest = tok[1], tok[2:]
    if k == "n":
        return None
    if k == "b":
        return rest == "1"
    if k == "i":
        return int(rest)
    if k == "f":
        return float(unesc(rest))
    if k == "j":
        return json.loads(unesc(rest))
    raise ValueError(tok)


# import-time configuration (the family is imported before any case runs)
ct.reset_defaults()
IMP_RAW = copy.deepcopy(dict(D.data))
IMP = [(k, enc(v)) for k, v in IMP_RAW.items()]
IMP_KEYS = [k for k, _ in IMP]
# the very objects the package holds at import time: after `reset_defaults` every entry of
# config.defaults IS the object stored in the module-level default table it came from, so a
# library function that builds something inside such an object changes the import-time value itself
IMP_OBJ = dict(D.data)


def _find_tables():
    """every module-level default table of the package (`_<module>_defaults`), found by name"""
    seen = {}
    for mname in sorted(sys.modules):
        mod = sys.modules[mname]
        if mod is None or not (mname == "control" or mname.startswith("control.")) or ".tests" in mname:
            continue
        for a in sorted(vars(mod)):
            v = vars(mod)[a]
            if re.fullmatch(r"_\w+_defaults", a) and isinstance(v, dict) and v \
                    and all(isinstance(k, str) and "." in k for k in v) and id(v) not in seen:
                seen[id(v)] = ("%s.%s" % (mname.split(".")[-1], a), v)
    return sorted(seen.values(), key=lambda nv: nv[0])


TABLES = _find_tables()
TABLES_RAW = {n: copy.deepcopy(t) for n, t in TABLES}


def tables_snapshot():
    return {"default-table %s[%s]" % (n, k): enc(v) for n, t in TABLES for k, v in t.items()}


TABLES_ENC = tables_snapshot()


def _repair(obj, raw):
    """give a mutable default object its import-time value back, in place where possible (so
    that the aliasing inside the package stays as it was at import)"""
    if type(obj) is type(raw) and isinstance(obj, dict):
        obj.clear()
        obj.update(copy.deepcopy(raw))
        return obj
    if type(obj) is type(raw) and isinstance(obj, list):
        obj[:] = copy.deepcopy(raw)
        return obj
    return copy.deepcopy(raw)


def restore_config():
    """put the real dictionary (and the default tables behind it) into the import-time state
    without going through the code under test; entries alias the default tables as at import"""
    if tables_snapshot() != TABLES_ENC:            # only after a patched library wrote into a table
        for n, t in TABLES:
            raw = TABLES_RAW[n]
            for k in [k for k in t if k not in raw]:
                del t[k]
            for k, v in raw.items():
                if k not in t or enc(t[k]) != enc(v):
                    t[k] = _repair(t.get(k), v)
    for n, t in TABLES:
        for k in t:
            if k in IMP_OBJ and enc(IMP_OBJ[k]) != enc(IMP_RAW[k]):
                IMP_OBJ[k] = t[k] if enc(t[k]) == enc(IMP_RAW[k]) else _repair(IMP_OBJ[k], IMP_RAW[k])
    for k in IMP_OBJ:
        if enc(IMP_OBJ[k]) != enc(IMP_RAW[k]):
            IMP_OBJ[k] = _repair(IMP_OBJ[k], IMP_RAW[k])
    D.data.clear()
    D.data.update(IMP_OBJ)
    for a in ("saved_mapping", "temp_mapping"):
        if a in vars(D):
            delattr(D, a)
    for a, v in list(vars(D).items()):
        if a != "data" and isinstance(v, list):
            v.clear()


def cfg_snapshot():
    """deep by value: nested lists / dicts inside a value are serialised recursively"""
    return {str(k): enc(v) for k, v in D.data.items()}


def _classes():
    names = ["InputOutputSystem", "LTI", "StateSpace", "TransferFunction", "FrequencyResponseData",
             "NonlinearIOSystem", "InterconnectedSystem", "LinearICSystem", "TimeResponseData", "OperatingPoint",
             "ControlPlot"]
    return [getattr(ct, n) for n in names if isinstance(getattr(ct, n, None), type)]


CLASSES = _classes()


def class_snapshot():
    """class-level data attributes (shared by all instances); the name counter is the one
    documented exception and is modelled separately"""
    out = {}
    for cls in CLASSES:
        for a, v in vars(cls).items():
            if a.startswith("__") or a == "_idCounter" or callable(v) or \
                    isinstance(v, (property, staticmethod, classmethod)) or hasattr(v, "__get__"):
                continue
            out["class-attribute %s.%s" % (cls.__name__, a)] = enc(v) if isinstance(v, (list, dict, tuple)) \
                else repr(v)[:80]
    return out


def state_snapshot():
    """what a library call must leave alone besides its operands: config.defaults (deep), the
    default tables `reset_defaults` reads, class-level attributes, numpy's global random state"""
    st = cfg_snapshot()
    st.update(tables_snapshot())
    st.update(class_snapshot())
    r = np.random.get_state()
    st["numpy.random state"] = "%s:%d" % (hashlib.sha1(r[1].tobytes()).hexdigest()[:12], r[2])
    return st


def rc_snapshot():
    """matplotlib's rcParams (taken around plotting calls)"""
    import matplotlib
    return {"matplotlib.rcParams[%s]" % k: repr(v) for k, v in dict.items(matplotlib.rcParams)
            if not k.startswith("backend")}


# ----------------------------------------------------------------------------------------------
# deep snapshots
# ----------------------------------------------------------------------------------------------
def dg(v, depth=0):
    """canonical JSON-able deep value of anything observable"""
    if depth > 7:
        return "<deep>"
    if v is None or isinstance(v, (bool, str)):
        return v
    if isinstance(v, (int, np.integer)):
        return "i%d" % int(v)
    if isinstance(v, (float, np.floating)):
        return "f" + float(v).hex()
    if isinstance(v, (complex, np.complexfloating)):
        return "c%s,%s" % (float(v.real).hex(), float(v.imag).hex())
    if isinstance(v, np.ndarray):
        if v.dtype == object:
            return {"oarr": list(v.shape), "v": [dg(x, depth + 1) for x in v.flat]}
        b = np.ascontiguousarray(v).tobytes()
        return "a:%s:%s:%s" % (v.dtype.str, "x".join(map(str, v.shape)),
                               b.hex() if len(b) <= 64 else hashlib.sha1(b).hexdigest())
    if isinstance(v, (list, tuple)):
        return [dg(x, depth + 1) for x in v]
    if isinstance(v, dict):
        return {str(k): dg(x, depth + 1) for k, x in sorted(v.items(), key=lambda kv: str(kv[0]))}
    if callable(v) and not hasattr(v, "ninputs"):
        return "<fn>"
    if hasattr(v, "__dict__"):
        return {"cls": type(v).__name__,
                "attrs": {k: dg(x, depth + 1) for k, x in sorted(vars(v).items()) if not k.startswith("_")}}
    return "<%s>" % type(v).__name__


def _mutable(x):
    return isinstance(x, (np.ndarray, list, dict, set, bytearray)) or \
        (hasattr(x, "__dict__") and not isinstance(x, type) and not callable(x)) or hasattr(x, "ninputs")


def _idents(items):
    """which mutable objects sit where inside a caller-owned container (identity, not value:
    compared only before/after a call inside one process)"""
    return ",".join("%s:%x" % (k, id(x)) for k, x in items if _mutable(x))


# Problem objects of control.optimal keep working storage between calls *by design* (the initial
# state and measurements of the current call, the last simulation, collocation values, the
# constraint objects handed to SciPy, evaluation counters / timers).  These attributes are not part
# of the observable state of the object; instead every call on such an object is compared with the
# same call on a freshly built identical object (`Runner.twins`): whatever is kept between calls
# must not influence what a call returns.
_STAT = {"cost_evaluations", "cost_process_time", "constraint_evaluations", "constraint_process_time",
         "eqconst_evaluations", "eqconst_process_time", "system_simulations"}
WORKING = {
    "OptimalControlProblem": _STAT | {"x", "last_x", "last_coeffs", "last_states", "colloc_vals", "constraints"},
    "OptimalEstimationProblem": _STAT | {"x0", "u", "y", "inputs", "ctrl_idx", "dist_idx", "ndisturbances",
                                         "colloc_vals", "constraints"},
}
STATEFUL_KINDS = ("ocp", "oep")


def snap(obj):
    """attribute -> digest string (top level), for change reports.  Besides the value: for
    arrays where the memory is (address, strides, writeable flag, base object), for lists and
    dictionaries which mutable objects they hold (aliasing before/after)."""
    if isinstance(obj, np.ndarray):
        return {"dtype": obj.dtype.str, "shape": str(obj.shape), "data": json.dumps(dg(obj)),
                "memory": "%x:%s:%s:%s" % (obj.__array_interface__["data"][0], obj.strides,
                                           "rw" if obj.flags.writeable else "ro",
                                           "own" if obj.base is None else "%x" % id(obj.base))}
    if hasattr(obj, "__dict__") and not callable(obj) or hasattr(obj, "ninputs"):
        skip = WORKING.get(type(obj).__name__, ())
        return {k: json.dumps(dg(x, 1), sort_keys=True) for k, x in vars(obj).items()
                if not k.startswith("_") and k not in skip}
    if isinstance(obj, (list, tuple)):
        return {"value": json.dumps(dg(obj), sort_keys=True), "elements": _idents(enumerate(obj))}
    if isinstance(obj, dict):
        return {"value": json.dumps(dg(obj), sort_keys=True),
                "elements": _idents(sorted(((str(k), x) for k, x in obj.items()), key=lambda kv: kv[0]))}
    return {"value": json.dumps(dg(obj), sort_keys=True)}


_GEN = re.compile(r"sys\[(\d+)\]")


def canon_value(v):
    """canonical value of a result with the counter inside generated names taken out: the
    generated names that occur are numbered in the order of their counters (sys[#000], sys[#001]
    ...) and dictionaries keyed by such names are sorted *after* the renaming - sorted before, the
    entries of e.g. `syslist_index` swap places when the counter goes from 99 to 100 between two
    evaluations of a probe ("sys[100]" < "sys[99]" as strings), which is not a difference"""
    s = json.dumps(dg(v), sort_keys=True)
    nums = sorted({int(x) for x in _GEN.findall(s)})
    if not nums:
        return s
    rank = {n: i for i, n in enumerate(nums)}
    s = _GEN.sub(lambda m: "sys[#%03d]" % rank[int(m.group(1))], s)
    try:
        return json.dumps(json.loads(s), sort_keys=True)
    except ValueError:
        return s


def kind_of(obj):
    if isinstance(obj, np.ndarray):
        return "oarr" if obj.dtype == object else "arr"
    return type(obj).__name__


# ----------------------------------------------------------------------------------------------
# operations of the public API
# ----------------------------------------------------------------------------------------------
def _fig_summary():
    """what a user sees of the open figures, as far as it can depend on the configuration or on
    earlier calls: per axes the labels / scales and per line its style, label and length"""
    import matplotlib.pyplot as plt
    from matplotlib.colors import to_hex
    out = []
    for num in plt.get_fignums():
        fig = plt.figure(num)
        axs = []
        for ax in fig.get_axes():
            lines = [[to_hex(l.get_color(), keep_alpha=True) if not isinstance(l.get_color(), np.ndarray)
                      else "arr", float(l.get_linewidth()), str(l.get_linestyle()), str(l.get_marker()),
                      str(l.get_label()) if not str(l.get_label()).startswith("_") else "_", len(l.get_xdata())]
                     for l in ax.get_lines()]
            axs.append([ax.get_title(), ax.get_xlabel(), ax.get_ylabel(), ax.get_xscale(), ax.get_yscale(), lines])
        st = fig._suptitle.get_text() if getattr(fig, "_suptitle", None) is not None else ""
        out.append([st, axs])
    return out


def _plot_and_close(f):
    def g(*a, **k):
        import matplotlib.pyplot as plt
        plt.close("all")
        try:
            r = f(*a, **k)
            summ = _fig_summary()
        finally:
            plt.close("all")
        return [None if r is None else type(r).__name__, summ]
    return g


def _op_point(r):
    return (r.states, r.inputs, r.outputs)


def _quiet(f):
    """the optimal-control functions print a summary by default"""
    def g(*a, **k):
        import contextlib
        import io
        with contextlib.redirect_stdout(io.StringIO()):
            return f(*a, **k)
    return g


def _ocp_result(r):
    """what the caller reads from an OptimalControlResult (the arrays themselves, so that a later
    call that writes into an earlier result is seen); `r.problem` is the problem object itself"""
    return {"time": r.time, "inputs": r.inputs, "states": r.states, "cost": float(r.cost),
            "success": bool(r.success)}


def _oep_result(r):
    return {"time": r.time, "inputs": r.inputs, "states": r.states, "outputs": r.outputs,
            "cost": float(r.cost), "success": bool(r.success)}


def _opt():
    import control.optimal as opt
    return opt


def _fs():
    import control.flatsys as fs
    return fs


def split_num(v, nums, depth=0):
    """structure of a result with the floating-point numbers taken out (appended to `nums`), for
    comparisons with a tolerance (results of iterative optimisers)"""
    if depth > 7:
        return "<deep>"
    if v is None or isinstance(v, (bool, str, np.bool_)):
        return v if not isinstance(v, np.bool_) else bool(v)
    if isinstance(v, (int, np.integer)):
        return "i%d" % int(v)
    if isinstance(v, (float, np.floating)):
        nums.append(float(v))
        return "f"
    if isinstance(v, (complex, np.complexfloating)):
        nums.extend([float(v.real), float(v.imag)])
        return "c"
    if isinstance(v, np.ndarray) and v.dtype.kind in "fc":
        w = np.ascontiguousarray(v)
        nums.extend(w.view(np.float64).reshape(-1).tolist() if w.dtype in (np.float64, np.complex128)
                    else np.asarray(w, dtype=complex).view(np.float64).reshape(-1).tolist())
        return "a:%s:%s" % (v.dtype.kind, "x".join(map(str, v.shape)))
    if isinstance(v, (list, tuple)):
        return [split_num(x, nums, depth + 1) for x in v]
    if isinstance(v, dict):
        return {str(k): split_num(x, nums, depth + 1) for k, x in sorted(v.items(), key=lambda kv: str(kv[0]))}
    return dg(v, depth)


TWIN_RTOL, TWIN_ATOL = 1e-7, 1e-9


def close_values(v0, v1):
    """'' when two outcomes ("ok", value) / ("exc", name) agree (numbers within the tolerance),
    otherwise a description"""
    if v0[0] != v1[0]:
        return "%s -> %s" % (str(v0)[:200], str(v1)[:200])
    if v0[0] == "exc":
        return "" if v0[1] == v1[1] else "raises %s -> raises %s" % (v0[1], v1[1])
    n0, n1 = [], []
    s0, s1 = split_num(v0[1], n0), split_num(v1[1], n1)
    if s0 != s1 or len(n0) != len(n1):
        return "structure %s -> %s" % (json.dumps(s0)[:200], json.dumps(s1)[:200])
    a0, a1 = np.array(n0, dtype=float), np.array(n1, dtype=float)
    if a0.size and not np.allclose(a0, a1, rtol=TWIN_RTOL, atol=TWIN_ATOL, equal_nan=True):
        with np.errstate(invalid="ignore"):
            d = np.abs(a0 - a1)
        j = int(np.nanargmax(np.where(np.isnan(d), np.inf, d)))
        return "numbers differ by up to %.3g (%r -> %r) in %s" % (float(d[j]) if not np.isnan(d[j]) else float("nan"),
                                                                  n0[j], n1[j], json.dumps(s0)[:160])
    return ""


def _nonlin(kind, c):
    return {"sat": ct.saturation_nonlinearity, "relay": lambda b: ct.relay_hysteresis_nonlinearity(b, b / 2),
            "backlash": ct.friction_backlash_nonlinearity}[kind](c)


OPS = {
    # operators
    "add": lambda a, b: a + b, "sub": lambda a, b: a - b, "mul": lambda a, b: a * b,
    "div": lambda a, b: a / b, "neg": lambda a: -a, "pow": lambda a, k: a ** k,
    "getitem": lambda a, i, j: a[i, j],
    # methods
    "m_append": lambda a, b: a.append(b),
    "m_feedback": lambda a, b, sign=-1: a.feedback(b, sign),
    "m_call": lambda a, s: a(s),
    "m_freqresp": lambda a, w: a.frequency_response(w),
    "m_dcgain": lambda a: a.dcgain(), "m_poles": lambda a: a.poles(), "m_zeros": lambda a: a.zeros(),
    "m_sample": lambda a, Ts, method="zoh": a.sample(Ts, method),
    "m_minreal": lambda a: a.minreal(),
    "m_copy": lambda a, **kw: a.copy(**kw),
    "m_damp": lambda a: a.damp(),
    "m_issiso": lambda a: a.issiso(), "m_isctime": lambda a: (a.isctime(), a.isdtime()),
    "m_scipy": lambda a: len(a.returnScipySignalLTI()),
    "m_to_ss": lambda a: a.to_ss() if hasattr(a, "to_ss") else ct.ss(a),
    "m_to_tf": lambda a: a.to_tf() if hasattr(a, "to_tf") else ct.tf(a),
    "str": lambda a: str(a), "repr": lambda a: repr(a),
    "latex": lambda a: a._repr_latex_(),
    # block-diagram algebra
    "series": lambda *s, **kw: ct.series(*s, **kw),
    "parallel": lambda *s, **kw: ct.parallel(*s, **kw),
    "negate": lambda s, **kw: ct.negate(s, **kw),
    "feedback": lambda a, b=1, sign=-1, **kw: ct.feedback(a, b, sign, **kw),
    "append": lambda *s, **kw: ct.append(*s, **kw),
    "connect": lambda s, Q, iv, ov: ct.connect(s, Q, iv, ov),
    "combine_tf": lambda a, b: ct.combine_tf([[a, b]]),
    "split_tf": lambda a: ct.split_tf(a),
    # conversions / factories on existing objects
    "ss2tf": lambda s, **kw: ct.ss2tf(s, **kw), "tf2ss": lambda s, **kw: ct.tf2ss(s, **kw),
    "ss": lambda *a, **kw: ct.ss(*a, **kw), "tf": lambda *a, **kw: ct.tf(*a, **kw),
    "zpk": lambda z, p, k, **kw: ct.zpk(z, p, k, **kw),
    "frd": lambda *a, **kw: ct.frd(*a, **kw),
    "TransferFunction": lambda *a, **kw: ct.TransferFunction(*a, **kw),
    "StateSpace": lambda *a, **kw: ct.StateSpace(*a, **kw),
    "nlsys_of": lambda s, **kw: ct.nlsys(s, **kw),
    "c2d": lambda s, Ts, method="zoh": ct.c2d(s, Ts, method),
    "pade": lambda T, n: ct.pade(T, n),
    # evaluation and analysis
    "evalfr": lambda s, x: ct.evalfr(s, x),
    "frequency_response": lambda s, w, **kw: ct.frequency_response(s, w, **kw),
    "dcgain": lambda s: ct.dcgain(s), "poles": lambda s: ct.poles(s), "zeros": lambda s: ct.zeros(s),
    "damp": lambda s: ct.damp(s, doprint=False),
    # (stability_margins prints the exception text when it cannot build an FRD from the data it is
    # given, e.g. a frequency vector that is not increasing, and raises: stdout is captured)
    "stability_margins": _quiet(lambda s: ct.stability_margins(s)),
    "margin": _quiet(lambda s: ct.margin(s)),
    "phase_crossover_frequencies": lambda s: ct.phase_crossover_frequencies(s),
    "bandwidth": lambda s: ct.bandwidth(s),
    "norm": lambda s, p=2: ct.norm(s, p),
    "ctrb": lambda A, B: ct.ctrb(A, B), "obsv": lambda A, C: ct.obsv(A, C),
    "lyap": lambda A, Q: ct.lyap(A, Q), "dlyap": lambda A, Q: ct.dlyap(A, Q),
    "lqr": lambda s, Q, R: ct.lqr(s, Q, R), "lqr_abqr": lambda A, B, Q, R: ct.lqr(A, B, Q, R),
    "place": lambda A, B, p: ct.place(A, B, p), "acker": lambda A, B, p: ct.acker(A, B, p),
    "similarity_transform": lambda s, T: ct.similarity_transform(s, T),
    "canonical_form": lambda s, form="reachable": ct.canonical_form(s, form),
    "minreal": lambda s: ct.minreal(s, verbose=False),
    "modred": lambda s, elim, method="truncate": ct.model_reduction(s, elim, method=method),
    "isctime": lambda s: (ct.isctime(s), ct.isdtime(s), ct.timebase(s)),
    "issiso": lambda s: ct.issiso(s),
    # time responses
    "step_response": lambda s, *a, **kw: ct.step_response(s, *a, **kw),
    "impulse_response": lambda s, *a, **kw: ct.impulse_response(s, *a, **kw),
    "initial_response": lambda s, T, X0, **kw: ct.initial_response(s, T, X0, **kw),
    "forced_response": lambda s, T, U, X0=0, **kw: ct.forced_response(s, T, U, X0, **kw),
    "input_output_response": lambda s, T, U, X0=0, **kw: ct.input_output_response(s, T, U, X0, **kw),
    "step_info": lambda s: ct.step_info(s),
    "linearize": lambda s, x0, u0, **kw: ct.linearize(s, x0, u0, **kw),
    "find_operating_point": lambda s, *a, **kw: _op_point(ct.find_operating_point(s, *a, **kw)),
    "m_linearize": lambda s, x0, u0, **kw: s.linearize(x0, u0, **kw),
    "lti_dynamics": lambda s, t, x, u: s.dynamics(t, x, u),
    "lti_output": lambda s, t, x, u: s.output(t, x, u),
    "nl_call": lambda s, u, **kw: s(u, **kw),
    "nl_output": lambda s, t, x, u, **kw: s.output(t, x, u, **kw),
    "nl_dynamics": lambda s, t, x, u, **kw: s.dynamics(t, x, u, **kw),
    "interconnect": lambda syslist, **kw: ct.interconnect(syslist, **kw),
    "summing_junction": lambda **kw: ct.summing_junction(**kw),
    # utilities
    "unwrap": lambda a, period=2 * math.pi: ct.unwrap(a, period),
    "db2mag": lambda a: ct.db2mag(a), "mag2db": lambda a: ct.mag2db(a),
    # more functions taking caller-owned arrays / lists / dictionaries
    "create_statefbk_iosystem": lambda s, K, *a, **kw: ct.create_statefbk_iosystem(s, K, *a, **kw),
    "create_estimator_iosystem": lambda s, QN, RN, **kw: ct.create_estimator_iosystem(s, QN, RN, **kw),
    "dlqr": lambda *a: ct.dlqr(*a), "lqe": lambda *a: ct.lqe(*a),
    "care": lambda *a: ct.care(*a), "dare": lambda *a: ct.dare(*a),
    "margin_arrays": _quiet(lambda mag, phase, omega: ct.margin(mag, phase, omega)),
    "stability_margins_arrays": _quiet(lambda mag, phase, omega: ct.stability_margins((mag, phase, omega))),
    "describing_function": lambda kind, c, A, **kw: ct.describing_function(_nonlin(kind, c), A, **kw),
    "markov": lambda Y, U, m, **kw: ct.markov(Y, U, m, **kw),
    "eigensys_realization": lambda Y, r, **kw: ct.eigensys_realization(Y, r, **kw),
    "correlation": lambda T, X, *a: ct.correlation(T, X, *a),
    "step_info_arrays": lambda y, T, **kw: ct.step_info(y, timepts=T, **kw),
    "sample_system": lambda s, Ts, **kw: ct.sample_system(s, Ts, **kw),
    "model_reduction": lambda s, **kw: ct.model_reduction(s, **kw),
    "combine_time_responses": lambda lst, **kw: ct.combine_time_responses(lst, **kw),
    "nyquist_response": lambda s, *a, **kw: ct.nyquist_response(s, *a, **kw),
    "singular_values_response": lambda s, *a, **kw: ct.singular_values_response(s, *a, **kw),
    "pole_zero_map": lambda s: ct.pole_zero_map(s),
    "root_locus_map": lambda s, *a: ct.root_locus_map(s, *a),
    "gangof4_response": lambda P, C, *a, **kw: ct.gangof4_response(P, C, *a, **kw),
    "tfdata": lambda s: ct.tfdata(s), "ssdata": lambda s: ct.ssdata(s),
    # the builtin sum() over systems (start value 0: `0 + sys` through __radd__)
    "sum": lambda lst, *start: sum(lst, *start),
    # the public in-place renaming method, applied by the *caller* to a result (see MUTATORS)
    "update_names": lambda s, **kw: s.update_names(**kw),
    # optimal control / estimation: problem objects with a call history, function forms
    "ocp_compute_trajectory": _quiet(lambda o, x, **kw: _ocp_result(o.compute_trajectory(x, **kw))),
    "ocp_compute_mpc": _quiet(lambda o, x, **kw: o.compute_mpc(x, **kw)),
    "ocp_create_mpc_iosystem": lambda o, **kw: o.create_mpc_iosystem(**kw),
    "solve_optimal_trajectory": _quiet(lambda s, T, *a, **kw: _ocp_result(_opt().solve_optimal_trajectory(s, T, *a, **kw))),
    "create_mpc_iosystem": lambda s, T, *a, **kw: _opt().create_mpc_iosystem(s, T, *a, **kw),
    "oep_compute_estimate": _quiet(lambda o, *a, **kw: _oep_result(o.compute_estimate(*a, **kw))),
    "solve_optimal_estimate": _quiet(lambda s, T, *a, **kw: _oep_result(_opt().solve_optimal_estimate(s, T, *a, **kw))),
    "cost_eval": lambda c, x, u: c(x, u),
    # differentially flat systems
    "point_to_point": lambda f, T, *a, **kw: _fs().point_to_point(f, T, *a, **kw),
    "solve_flat_optimal": lambda f, T, *a, **kw: _fs().solve_flat_optimal(f, T, *a, **kw),
    "traj_eval": lambda tr, T: tr.eval(T),
    "traj_response": lambda tr, T, **kw: (lambda r: (r.time, r.outputs, r.states, r.inputs))(tr.response(T, **kw)),
    "flat_forward": lambda f, x, u, params=None: f.forward(x, u, {} if params is None else params),
    "flat_reverse": lambda f, z, params=None: f.reverse(z, {} if params is None else params),
    # plotting (Agg backend): the figures are summarised (line styles, labels) and closed
    "m_plot": _plot_and_close(lambda r, *fmt, **kw: r.plot(*fmt, **kw)),
    "time_response_plot": _plot_and_close(lambda r, *fmt, **kw: ct.time_response_plot(r, *fmt, **kw)),
    "gangof4_plot": _plot_and_close(lambda P, C, *a, **kw: ct.gangof4_plot(P, C, *a, **kw)),
    "describing_function_plot": _plot_and_close(
        lambda H, kind, c, A, *a, **kw: ct.describing_function_plot(H, _nonlin(kind, c), A, *a, **kw)),
    "phase_plane_plot": _plot_and_close(lambda s, *a, **kw: ct.phase_plane_plot(s, *a, **kw)),
    "bode_plot": _plot_and_close(lambda s, *a, **kw: ct.bode_plot(s, *a, **kw)),
    "nyquist_plot": _plot_and_close(lambda s, *a, **kw: ct.nyquist_plot(s, *a, **kw)),
    "pzmap_plot": _plot_and_close(lambda s, **kw: ct.pole_zero_plot(s, **kw)),
    "resp_plot": _plot_and_close(lambda s, **kw: ct.step_response(s).plot(**kw)),
    "nichols_plot": _plot_and_close(lambda s, *a, **kw: ct.nichols_plot(s, *a, **kw)),
    "root_locus_plot": _plot_and_close(lambda s, *a, **kw: ct.root_locus_plot(s, *a, **kw)),
    "singular_values_plot": _plot_and_close(lambda s, *a, **kw: ct.singular_values_plot(s, *a, **kw)),
}

# operations on a problem object that are repeated on a freshly built identical object
TWIN_OPS = {"ocp_compute_trajectory", "ocp_compute_mpc", "oep_compute_estimate"}
# documented in-place methods: the first argument is changed by design; everything else is not
MUTATORS = {"update_names"}

PLOT_OPS = {"bode_plot", "nyquist_plot", "pzmap_plot", "resp_plot", "nichols_plot", "root_locus_plot",
            "singular_values_plot", "m_plot", "time_response_plot", "gangof4_plot", "describing_function_plot",
            "phase_plane_plot"}


# static / dynamic nonlinear systems used in histories (functions must be stable objects)
def _nl_static_out(t, x, u, params):
    return params.get("a", 1.0) * np.asarray(u) + params.get("b", 0.0)


def _nl_dyn_upd(t, x, u, params):
    return -params.get("a", 1.0) * np.asarray(x) + np.asarray(u)


def _nl_dyn_out(t, x, u, params):
    return params.get("c", 1.0) * np.asarray(x)


def _nl2_upd(t, x, u, params):
    a, b = params.get("a", 1.0), params.get("b", 0.5)
    return np.array([x[1], -a * np.sin(x[0]) - b * x[1] + u[0]])


def _nl2_out(t, x, u, params):
    return np.array([x[0] + params.get("c", 0.0) * u[0], x[1]])


def build(kind, spec, pool):
    """constructors: spec is a JSON dict; entries {"s": slot} are taken from the pool"""
    def R(x):
        return resolve(x, pool)
    kw = {k: R(v) for k, v in spec.get("kw", {}).items()}
    if kind == "arr":
        a = np.array(spec["v"], dtype=spec.get("dtype", "float64"))
        return np.asfortranarray(a) if spec.get("order") == "F" else a
    if kind == "view":     # a view of a pool array (the caller keeps both)
        b = R(spec["base"])
        how = spec["how"]
        if how == "reshape":
            v = b.reshape(spec["shape"])
        elif how == "slice":
            v = b[tuple(slice(o, o + n) for o, n in zip(spec["off"], spec["shape"]))]
        elif how == "stride":
            v = b[::2]
        elif how == "T":
            v = b.T
        else:
            raise ValueError(how)
        if not np.shares_memory(v, b) or list(v.shape) != list(spec["shape"]):
            raise ValueError("not a view")
        return v
    if kind == "oarr":     # 2-D object array of 1-D coefficient arrays
        rows = spec["v"]
        a = np.empty((len(rows), len(rows[0])), dtype=object)
        for i, r in enumerate(rows):
            for j, c in enumerate(r):
                a[i, j] = np.array(c, dtype=float)
        return a
    if kind == "ss":
        args = [R(x) for x in spec["abcd"]]
        if "dt" in spec:
            args.append(dt_value(spec["dt"]))
        return ct.ss(*args, **kw)
    if kind == "tf":
        args = [R(spec["num"]), R(spec["den"])]
        if "dt" in spec:
            args.append(dt_value(spec["dt"]))
        return ct.tf(*args, **kw)
    if kind == "frd":
        return ct.frd(R(spec["data"]), R(spec["omega"]), **kw)
    if kind in ("nls", "nld", "nld2"):
        # params: a fresh dictionary, or (`pref`) a dictionary the caller keeps in the pool
        params = R(spec["pref"]) if "pref" in spec else dict(spec.get("params", {}))
        for k0 in ("inputs", "outputs", "states"):
            kw.setdefault(k0, {"nls": 1, "nld": 1, "nld2": {"inputs": 1}.get(k0, 2)}[kind])
        if kind == "nls":      # static nonlinear system
            kw.pop("states")
            return ct.nlsys(None, _nl_static_out, params=params, **kw)
        if kind == "nld":
            return ct.nlsys(_nl_dyn_upd, _nl_dyn_out, params=params, **kw)
        return ct.nlsys(_nl2_upd, _nl2_out, params=params, **kw)
    if kind == "cost":     # cost functions of control.optimal (closures over the caller's matrices)
        opt = _opt()
        if spec.get("fn") == "likelihood":
            return opt.gaussian_likelihood_cost(R(spec["sys"]), *[R(x) for x in spec["args"]])
        if spec.get("fn") == "prior":      # terminal ("arrival") cost of an estimation problem: (xhat0, x0)
            P0 = np.array(R(spec["args"][0]), dtype=float)
            return lambda xhat, x0: float((np.asarray(xhat) - np.asarray(x0).reshape(-1)) @ P0
                                          @ (np.asarray(xhat) - np.asarray(x0).reshape(-1)))
        return opt.quadratic_cost(R(spec["sys"]), *[R(x) for x in spec["args"]], **kw)
    if kind == "constr":
        opt = _opt()
        fn = {"input_range": opt.input_range_constraint, "state_range": opt.state_range_constraint,
              "output_range": opt.output_range_constraint, "input_poly": opt.input_poly_constraint,
              "state_poly": opt.state_poly_constraint, "output_poly": opt.output_poly_constraint,
              "disturbance_range": opt.disturbance_range_constraint}[spec["fn"]]
        return fn(R(spec["sys"]), *[R(x) for x in spec["args"]])
    if kind == "ocp":
        return _opt().OptimalControlProblem(R(spec["sys"]), R(spec["timepts"]), R(spec["cost"]), **kw)
    if kind == "oep":
        return _opt().OptimalEstimationProblem(R(spec["sys"]), R(spec["timepts"]), R(spec["cost"]), **kw)
    if kind == "flat":
        return _fs().flatsys(ct.ss(*[R(x) for x in spec["abcd"]]), **kw)
    if kind == "basis":
        fs = _fs()
        return {"poly": fs.PolyFamily, "bezier": fs.BezierFamily, "bspline": fs.BSplineFamily}[spec["fn"]](
            *[R(x) for x in spec["args"]], **kw)
    if kind == "dict":
        return {k: R(x) for k, x in copy.deepcopy(spec["v"]).items()}
    if kind == "list":
        return [R(x) for x in copy.deepcopy(spec["v"])]
    raise ValueError(kind)


def dt_value(d):
    return {"N": None, "T": True, "C": 0}.get(d, d) if isinstance(d, str) else d


class Missing(Exception):
    pass


def resolve(x, pool):
    if isinstance(x, dict) and set(x.keys()) == {"s"}:
        if x["s"] not in pool:
            raise Missing(x["s"])
        return pool[x["s"]]
    if isinstance(x, dict) and set(x.keys()) == {"item"}:      # an entry of a result the caller holds
        if x["item"][0] not in pool:
            raise Missing(x["item"][0])
        try:
            return pool[x["item"][0]][x["item"][1]]
        except (KeyError, TypeError, IndexError):
            raise Missing(x["item"][0])
    if isinstance(x, dict) and set(x.keys()) == {"cplx"}:      # complex literal
        return complex(x["cplx"][0], x["cplx"][1])
    if isinstance(x, dict) and set(x.keys()) == {"lst"}:      # list containing references
        return [resolve(y, pool) for y in x["lst"]]
    if isinstance(x, dict) and set(x.keys()) == {"tup"}:      # tuple containing references
        return tuple(resolve(y, pool) for y in x["tup"])
    if isinstance(x, (list, dict)):                           # literal: the callee gets its own copy
        return copy.deepcopy(x)
    return x


def is_ref(x):
    return isinstance(x, dict) and (set(x.keys()) == {"s"} or set(x.keys()) == {"item"})


def arg_of(st, slot):
    """where a pool object is passed in a call: 'arg<i>' / keyword name (first occurrence)"""
    if st[0] not in ("op", "probe"):
        return None
    for i, x in enumerate(st[3]):
        if slot in slots_in(x, []):
            return "arg%d" % i
    for kk in sorted(st[4]):
        if slot in slots_in(st[4][kk], []):
            return kk
    return None


def slots_in(x, acc):
    if isinstance(x, dict):
        if set(x.keys()) == {"s"}:
            acc.append(x["s"])
        elif set(x.keys()) == {"item"}:
            acc.append(x["item"][0])
        else:
            for v in x.values():
                slots_in(v, acc)
    elif isinstance(x, list):
        for v in x:
            slots_in(v, acc)
    return acc


def exc_kind(e):
    if isinstance(e, KeyError):
        return "unknownName"
    if isinstance(e, (TypeError, ValueError)):
        return "badArg"
    return type(e).__name__


CFG_KINDS = ("set", "get", "sd", "with", "reset", "matlab", "fbs", "legacy")

LEGACY = {"0.8.3": (0, 8, 3), "0.9.0": (0, 9, 0), "0.9.1": (0, 9, 1), "0.9.2": (0, 9, 2),
          "0.10.1": (0, 10, 1), "REL-0.1": (0, 1, 0), "control-0.4b": (0, 4, 2), "v0.6c": (0, 6, 3),
          "0.6d": (0, 6, 4), "1.0": (1, 0, 0), "v0.9": (0, 9, 0), "1.9.0": (1, 9, 0),
          "bogus": None, "0.9.x": None}


class Runner:
    """executes one history on the real code"""

    def __init__(self):
        self.pool = {}
        self.probes = {}
        self.plots = False
        self.pool0 = self.state0 = None      # observation after the previous library call
        self.twins = {}                      # slot of a problem object -> identical object that is never called

    def exec_cfg(self, st):
        k = st[0]
        if k == "set":
            D[st[1]] = dec(st[2])
            return ["done"]
        if k == "get":
            return ["val", enc(D[st[1]])]
        if k == "sd":
            ct.set_defaults(st[1], **{a: dec(b) for a, b in st[2]})
            return ["done"]
        if k == "reset":
            ct.reset_defaults()
            return ["done"]
        if k == "matlab":
            ct.use_matlab_defaults()
            return ["done"]
        if k == "fbs":
            ct.use_fbs_defaults()
            return ["done"]
        if k == "legacy":
            r = ct.use_legacy_defaults(st[1])
            return ["ver"] + [int(x) for x in r]
        raise ValueError(k)

    def exec_step(self, st, outs):
        """runs a step; appends the outputs of the calls; raises what the call raises"""
        k = st[0]
        if k == "with":
            self.state0 = None
            try:
                with D({a: dec(b) for a, b in st[1]}):
                    for s2 in st[2]:
                        self.exec_step(s2, outs)
                    self.state0 = None
            except Exception as e:
                self.state0 = None
                outs.append(["raised", exc_kind(e)])
                raise
            outs.append(["done"])
            return
        if k in CFG_KINDS:
            self.state0 = None
            try:
                outs.append(self.exec_cfg(st))
            except Exception as e:
                outs.append(["raised", exc_kind(e)])
                raise
            return
        if k in ("new", "op", "probe"):
            # the observation after the previous call is the observation before this one (only
            # harness code and configuration calls, which drop `state0`, ran in between)
            pool0 = self.pool0 if self.pool0 is not None else self.pool_snapshot()
            cfg0 = self.state0 if self.state0 is not None else state_snapshot()
            opname = st[2]
            rc0 = rc_snapshot() if opname in PLOT_OPS else None
            try:
                self.exec_lib(st, outs)
            finally:
                used = slots_in(st, [])
                pool1 = self.pool_snapshot()
                # a documented in-place method changes its first argument by design; any *other*
                # pool entry that changes with it is either that very object under another name (an
                # earlier operation returned its operand instead of a new system) or shares state
                target = st[3][0]["s"] if k == "op" and opname in MUTATORS and st[3] and is_ref(st[3][0]) \
                    and "s" in st[3][0] else None
                for m in self.pool_changes(pool0, pool1):
                    if m[0] == target:
                        continue
                    role = "operand" if m[0] in used else "bystander"
                    if target is not None and target in self.pool:
                        role = "same-object" if self.pool[m[0]] is self.pool[target] else "shares-state"
                    self.rec["mut"].append(m + [opname, role, arg_of(st, m[0]) if m[0] in used else None]
                                           + ([target] if target is not None else []))
                cfg1 = state_snapshot()
                if rc0 is not None:
                    cfg0 = dict(cfg0, **rc0)
                    cfg1 = dict(cfg1, **rc_snapshot())
                if cfg0 != cfg1:
                    for key in sorted(set(cfg0) | set(cfg1), key=lambda q: (" " in q or q.startswith("matplotlib."), q)):
                        if cfg0.get(key) != cfg1.get(key):
                            self.rec["libcfg"].append([opname, key, str(cfg0.get(key))[:80], str(cfg1.get(key))[:80]])
                self.pool0, self.state0 = pool1, (state_snapshot() if rc0 is not None else cfg1)
            return
        raise ValueError(k)

    def pool_snapshot(self):
        return {s: (id(o), snap(o)) for s, o in self.pool.items()}

    def pool_changes(self, pool0, pool1=None):
        mut = []
        if pool1 is None:
            pool1 = self.pool_snapshot()
        for s, (i0, s0) in pool0.items():
            if s not in pool1 or pool1[s][0] != i0:
                continue
            s1 = pool1[s][1]
            if s0 == s1:
                continue
            o = self.pool[s]
            for a in sorted(set(s0) | set(s1)):
                if s0.get(a) != s1.get(a):
                    mut.append([s, kind_of(o), a, (s0.get(a) or "")[:120], (s1.get(a) or "")[:120]])
        return mut

    @staticmethod
    def literal_state(objs):
        """value (and the identity of the mutable elements) of the argument objects the harness
        built for this call only: literal lists / dictionaries and lists of pool objects"""
        out = []
        for o in objs:
            if isinstance(o, (list, tuple)) and any(_mutable(x) and not isinstance(x, (list, dict, np.ndarray))
                                                    for x in o):
                out.append(["ids"] + [id(x) if _mutable(x) else json.dumps(dg(x)) for x in o])
            elif isinstance(o, (list, dict, tuple)):
                out.append(["val", json.dumps(dg(o), sort_keys=True)])
            else:
                out.append(None)
        return out

    def exec_lib(self, st, outs):
        k = st[0]
        if k == "new":
            _, slot, kind, spec = st
            ctr0 = ct.InputOutputSystem._idCounter
            try:
                obj = build(kind, spec, self.pool)
            except Missing:
                outs.append(["skip"])
                return
            except Exception as e:
                outs.append(["res", "exc", type(e).__name__])
                return
            self.pool[slot] = obj
            if kind in STATEFUL_KINDS:
                # an identical problem object (same arguments, same configuration) that is never
                # called: calls on `obj` are repeated on deep copies of it
                try:
                    self.twins[slot] = build(kind, spec, self.pool)
                except Exception:
                    pass
            outs.append(["res", "obj", getattr(obj, "name", None), ctr0])
            return
        if k in ("op", "probe"):
            _, tag, opname, args, kw = st
            if opname in PLOT_OPS:
                self.plots = True
            try:
                a = [resolve(x, self.pool) for x in args]
                kwr = {kk: resolve(v, self.pool) for kk, v in kw.items()}
            except Missing:
                outs.append(["skip"])
                return
            cfg_now = json.dumps(cfg_snapshot(), sort_keys=True)
            # argument objects built for this call only (pure pool references are observed in the pool)
            objs = [None if is_ref(x) else y for x, y in zip(args, a)] + \
                   [None if is_ref(kw[kk]) else kwr[kk] for kk in sorted(kwr)]
            lit0 = self.literal_state(objs)
            try:
                r = OPS[opname](*a, **kwr)
                val = ("ok", canon_value(r))
            except Exception as e:
                r = None
                val = ("exc", type(e).__name__)
            lit1 = self.literal_state(objs)
            if opname in TWIN_OPS and args and is_ref(args[0]) and args[0].get("s") in self.twins:
                # the same call (same argument objects) on a fresh copy of the never-called twin:
                # the value returned must not depend on the calls made on the object before
                try:
                    tw = copy.deepcopy(self.twins[args[0]["s"]])
                    v2 = ("ok", OPS[opname](tw, *a[1:], **kwr))
                except Exception as e:
                    v2 = ("exc", type(e).__name__)
                d = close_values(("ok", r) if val[0] == "ok" else val, v2)
                if d:
                    self.rec["twin"].append([opname, d])
            if lit0 != lit1:
                names = ["arg%d" % i for i in range(len(a))] + sorted(kwr)
                for nm, x0, x1 in zip(names, lit0, lit1):
                    if x0 != x1:
                        self.rec["mut"].append([nm, "literal", "value" if x0[0] == "val" else "elements",
                                                str(x0[1:])[:120], str(x1[1:])[:120], opname, "operand", nm])
            rec = ["res", val[0], getattr(r, "name", None) if val[0] == "ok" else val[1]]
            if k == "op" and tag is not None and val[0] == "ok":
                self.pool[tag] = r
            if k == "probe":
                if tag in self.probes:
                    v0, c0 = self.probes[tag]
                    rec = ["probe", c0 == cfg_now, v0 == val,
                           "" if v0 == val else "%s -> %s" % (str(v0)[:300], str(val)[:300]), opname]
                else:
                    self.probes[tag] = (val, cfg_now)
                    rec = ["probe", None, None, "", opname]
            outs.append(rec)
            return

    def run(self, hist):
        restore_config()
        self.pool0 = self.state0 = None
        trace = []
        for st in hist:
            cfg0 = cfg_snapshot()
            self.rec = {"mut": [], "libcfg": [], "twin": []}
            is_cfg = st[0] in CFG_KINDS and st[0] != "with"
            pool0 = (self.pool0 if self.pool0 is not None else self.pool_snapshot()) if is_cfg else None
            outs = []
            exc = None
            try:
                self.exec_step(st, outs)
            except Exception as e:
                exc = exc_kind(e)
                if not outs:
                    outs.append(["raised", exc])
            cfg1 = cfg_snapshot()
            diff = sorted([k, v] for k, v in cfg1.items() if cfg0.get(k) != v)
            gone = sorted(k for k in cfg0 if k not in cfg1)
            if pool0 is not None:
                pool1 = self.pool_snapshot()
                for m in self.pool_changes(pool0, pool1):
                    self.rec["mut"].append(m + [st[0], "bystander", None])
                self.pool0 = pool1
            rec = {"outs": outs, "diff": diff, "mut": self.rec["mut"], "libcfg": self.rec["libcfg"], "exc": exc}
            if self.rec["twin"]:
                rec["twin"] = self.rec["twin"]
            if gone:
                rec["gone"] = gone
            trace.append(rec)
        if self.plots:
            import matplotlib.pyplot as plt
            plt.close("all")
        restore_config()
        return trace


# ----------------------------------------------------------------------------------------------
# nonlinear parameter protocol
# ----------------------------------------------------------------------------------------------
def run_nl(case):
    """returns per call the list of (subsystem index, params dict seen), sorted"""
    seen = []

    def mk(j, static):
        def out(t, x, u, params):
            seen.append((j, "out", dict(params)))
            return np.asarray(u).reshape(-1)[:1] * 1.0 if static else np.asarray(x).reshape(-1)[:1] * 1.0
        def upd(t, x, u, params):
            seen.append((j, "upd", dict(params)))
            return -np.asarray(x) + np.asarray(u).reshape(-1)[:1]
        return upd, out

    subs = []
    for j, p in enumerate(case["subs"]):
        upd, out = mk(j, case["static"][j])
        pj = {k: dec(v) for k, v in p}
        if case["static"][j]:
            subs.append(ct.nlsys(None, out, inputs=1, outputs=1, params=pj, name="sub%d" % j))
        else:
            subs.append(ct.nlsys(upd, out, inputs=1, outputs=1, states=1, params=pj, name="sub%d" % j))
    top = {k: dec(v) for k, v in case["top"]}
    n = len(subs)
    # series chain sub0 -> sub1 -> ...
    conns = [["sub%d.u[0]" % (j + 1), "sub%d.y[0]" % j] for j in range(n - 1)]
    ics = ct.interconnect(subs, connections=conns if conns else False, inplist=["sub0.u[0]"], outlist=["sub%d.y[0]" % (n - 1)],
                          params=top, name="ics")
    nst = ics.nstates
    res = []
    for call in case["calls"]:
        kind, j, ov, how = call
        ovd = None if ov is None else {k: dec(v) for k, v in ov}
        ov0 = copy.deepcopy(ovd)
        p0 = [json.dumps(dg(s.params), sort_keys=True) for s in subs] + [json.dumps(dg(ics.params), sort_keys=True)]
        del seen[:]
        kw = {} if ovd is None else {"params": ovd}
        exc = None
        try:
            if kind == "call":
                subs[j](1.5, **kw)
            elif kind == "eval":
                s = subs[j]
                x = np.zeros(s.nstates)
                if how == "dynamics" and s.nstates:
                    s.dynamics(0, x, [1.0], **kw)
                else:
                    s.output(0, x, [1.0], **kw)
            else:
                x = np.zeros(nst)
                if how == "output":
                    ics.output(0, x, [1.0], **kw)
                elif how == "dynamics":
                    ics.dynamics(0, x, [1.0], **kw)
                elif how == "response":
                    ct.input_output_response(ics, [0, 0.1], [1.0, 1.0], x, **kw)
                else:
                    ct.linearize(ics, x, [1.0], **kw)
        except Exception as e:
            exc = "%s: %s" % (type(e).__name__, str(e)[:100])
        views = {}
        incons = False
        for (jj, _, pd) in seen:
            e = sorted([k, enc(v)] for k, v in pd.items())
            if jj in views and views[jj] != e:
                incons = True
            views[jj] = e
        p1 = [json.dumps(dg(s.params), sort_keys=True) for s in subs] + [json.dumps(dg(ics.params), sort_keys=True)]
        res.append({"views": [[jj, views[jj]] for jj in sorted(views)], "exc": exc, "inconsistent": incons,
                    "params_mutated": p0 != p1, "override_mutated": ov0 != ovd})
    return res


def kvtoks(kvs):
    return "%d%s" % (len(kvs), "".join(" %s %s" % (k, v) for k, v in kvs))


def nl_lines(case):
    body = "%d %s %s %d" % (len(case["subs"]), " ".join(kvtoks(p) for p in case["subs"]),
                            kvtoks(case["top"]), len(case["calls"]))
    for kind, j, ov, how in case["calls"]:
        o = "-" if ov is None else kvtoks(ov)
        body += (" %s %d %s" % (kind, j, o)) if kind != "ics" else (" ics %s" % o)
    return ["c19 nlp spec " + body, "c19 nlp code " + body]


def parse_nl_line(out):
    t = out.split()
    assert t[0] == "ok", out
    i = 1
    res = []
    while i < len(t):
        if t[i] == "e":
            res.append({"err": t[i + 1]})
            i += 2
            continue
        assert t[i] == "p"
        n = int(t[i + 1])
        i += 2
        views = []
        for _ in range(n):
            j, m = int(t[i]), int(t[i + 1])
            i += 2
            kv = [[t[i + 2 * q], t[i + 2 * q + 1]] for q in range(m)]
            i += 2 * m
            views.append([j, sorted(kv)])
        res.append({"views": views})
    return res


# ----------------------------------------------------------------------------------------------
# model line for histories
# ----------------------------------------------------------------------------------------------
def step_tokens(st):
    k = st[0]
    if k == "set":
        return "set %s %s" % (esc(st[1]), st[2])
    if k == "get":
        return "get %s" % esc(st[1])
    if k == "sd":
        return "sd %s %s" % (esc(st[1]), kvtoks([(esc(a), b) for a, b in st[2]]))
    if k == "with":
        return "with %s %d%s" % (kvtoks([(esc(a), b) for a, b in st[1]]), len(st[2]),
                                 "".join(" " + step_tokens(s) for s in st[2]))
    if k in ("reset", "matlab", "fbs"):
        return k
    if k == "legacy":
        v = LEGACY[st[1]]
        return "legacybad" if v is None else "legacy %d %d %d" % v
    if k == "new":
        return "op %d" % (1 if "name" in st[3].get("kw", {}) else 0)
    if k in ("op", "probe"):
        return "op %d" % (1 if "name" in st[4] else 0)
    raise ValueError(k)


def parse_cfg_line(out):
    t = out.split()
    assert t[0] == "ok", out
    i = 1
    res = []
    while i < len(t):
        assert t[i] == "c", out[:200]
        n = int(t[i + 1])
        i += 2
        outs = []
        for _ in range(n):
            o = t[i]
            if o == "done":
                outs.append(["done"]); i += 1
            elif o == "val":
                outs.append(["val", t[i + 1]]); i += 2
            elif o == "ver":
                outs.append(["ver", int(t[i + 1]), int(t[i + 2]), int(t[i + 3])]); i += 4
            elif o == "res":
                outs.append(["res", t[i + 1]]); i += 2
            elif o == "raised":
                outs.append(["raised", t[i + 1]]); i += 2
            else:
                raise ValueError(out[:200])
        m = int(t[i])
        i += 1
        diff = [[t[i + 2 * q], t[i + 2 * q + 1]] for q in range(m)]
        i += 2 * m
        res.append({"outs": outs, "diff": sorted(diff)})
    return res


def flat_steps(hist):
    for st in hist:
        yield st
        if st[0] == "with":
            yield from flat_steps(st[2])


def with_depth(st):
    if st[0] != "with":
        return 0
    return 1 + max([with_depth(s) for s in st[2]] + [0])


def body_sets_config(st):
    return any(s[0] in ("set", "sd", "reset", "matlab", "fbs", "legacy") for s in flat_steps(st[2]))


GEN_NAME = re.compile(r"^sys\[(\d+)\]$")


class C19(Family):
    prop = "C19"
    # source-text tie (DESIGN 2.5): Generated/ConfigDict.lean is rewritten from /repo's control/config.py
    # (DefaultDict._check_deprecation/__missing__/__setitem__, set_defaults, reset_defaults) on every run
    # and proved equal to the step functions of the model (Props/C19Gen.lean)
    extra_modules = ["CtrlVerif.Props.C19Gen"]

    def pre_build(self):
        import os
        from core import py2lean_select, leanproj
        problems, self.gen_info = py2lean_select.regenerate(
            os.environ.get("VERIF_REPO") or "/repo", leanproj.LEAN, "C19")
        return problems

    externals = []
    assumptions = [
        "that the real operations do not mutate their operands is established by the correspondence "
        "(deep snapshots on generated histories), not by a theorem about Python objects",
        "observable state = public attributes (recursively, arrays by value; for caller-owned arrays also "
        "address / strides / writeable flag / base, for lists and dictionaries the identity of their mutable "
        "elements) of every live object, the literal list / dictionary arguments of each call, config.defaults "
        "(nested values by value), the module-level default tables reset_defaults reads, class-level data "
        "attributes, numpy's global random state, and around plotting calls matplotlib's rcParams; private "
        "caches (`_current_params`, `_ifunc`) are observed only through probes",
        "aliasing between a result and an argument that is never followed by a write is not a violation and is "
        "not reported; the one write the histories make themselves is the documented in-place method "
        "update_names on a freshly produced result: if that changes an operand, the operation that produced the "
        "result handed back its operand (or shares state with it) and is reported",
        "problem objects of control.optimal (OptimalControlProblem, OptimalEstimationProblem) keep working "
        "storage between calls by design (x, last_x / last_coeffs / last_states, u / y / x0, collocation values, "
        "SciPy constraint objects, counters): these attributes are excluded from the snapshot of such an object; "
        "instead every compute_trajectory / compute_mpc / compute_estimate call is repeated with the same argument "
        "objects on a deep copy of an identical, never-called twin built at the same time, and the results must "
        "agree (rtol 1e-7, atol 1e-9; they are bit-identical on the unchanged code)"]
    rule = ("random call histories (5-40 steps) over the public API on a pool of live arrays (plain, views of "
            "larger arrays, integer / column / Fortran-ordered), lists, dictionaries, StateSpace / TransferFunction / "
            "FRD / nonlinear systems, time and frequency responses, with configuration calls (set_defaults, item "
            "assignment, nested with-blocks, reset, use_*_defaults, deprecated aliases) interleaved and repeated "
            "probes; streams concentrated on functions taking caller-owned arguments (find_operating_point in all "
            "constraint forms, linearize, responses, interconnect, state feedback / estimator factories, "
            "identification) and on plotting calls (time responses with inputs and line keywords, Bode / Nyquist "
            "/ Nichols / singular values / pole-zero / root locus / describing function, figures summarised and "
            "closed); operators and block-diagram functions with scalars (incl. the identity elements 0 and 1), "
            "arrays, linear and nonlinear systems as operands in either order, sum(), results renamed by the caller; "
            "call histories on problem objects of control.optimal (several compute_trajectory / compute_estimate calls "
            "on one object, warm starts taken from earlier results, MPC controllers, function forms on the same cost / "
            "constraint objects) and flat-system trajectories; two sweeps enumerated on every run on randomly drawn "
            "systems: every 'identity form' (0 + S, S * 1, sum([S]), parallel(0, S), series(S), ss(S), S ** 1 ...) on "
            "SISO / MIMO StateSpace, TransferFunction, FRD, static and dynamic nonlinear systems, with naming keywords "
            "in the call or the result renamed afterwards, chains of calls on one problem object, and every reading "
            "operation (poles / zeros / damp / gains / responses / default frequency and time ranges / conversions / "
            "transformations / Riccati, Lyapunov and pole-placement functions on the system's own matrices / plots) on "
            "state-space systems with >= 2 states whose A has a general structure (full, lower triangular, companion, "
            "complex-pole blocks, Hessenberg: not the Schur form an in-place LAPACK reduction leaves alone) and whose "
            "matrices are column-major (np.asfortranarray data, a dual system built from transposed arrays, the result "
            "of similarity_transform, copies of such systems), non-contiguous or row-major; "
            "frequency vectors in increasing, decreasing or no order, held as literal list / float array / view / list "
            "object / integer array, for FRD systems (SISO and 2x2 with 3-D data, interpolating or not, copies that share "
            "their arrays, two systems on one vector) and for every function that takes a frequency vector; FRD "
            "operands combined with TransferFunction / StateSpace operands (re-sampled on the FRD's own vector) by "
            "+ - * / feedback series parallel append sum() in both orders, in the random streams and in a fourth sweep "
            "that applies every such operation and every reading operation to FRD systems on non-increasing vectors "
            "between repeated probes (value at a listed frequency, printed table); "
            "parameter-protocol histories over an interconnected system with recording subsystems; a "
            "case is non-trivial when it has >= 3 executed calls of >= 2 different kinds")

    _known = None

    def known(self):
        if self._known is None:
            type(self)._known = load_known(self.prop)
        return self._known

    # ------------------------------------------------------------------ lines / execution
    def line(self, case):
        if case["type"] == "nl":
            return nl_lines(case)
        steps = case["hist"]
        return "c19 cfg %s %d%s" % (kvtoks([(esc(k), v) for k, v in IMP]), len(steps),
                                    "".join(" " + step_tokens(s) for s in steps))

    def impl(self, case):
        try:
            if case["type"] == "nl":
                return {"calls": run_nl(case)}
            return {"trace": Runner().run(case["hist"])}
        except Exception as e:   # harness problem, reported as a broken correspondence
            import traceback
            return {"harness_error": traceback.format_exc()[-1500:]}
        finally:
            restore_config()

    def parse_model(self, case, out):
        if case["type"] == "nl":
            return {"spec": parse_nl_line(out[0]), "code": parse_nl_line(out[1])}
        return {"calls": parse_cfg_line(out)}

    # ------------------------------------------------------------------ comparison
    def compare(self, case, impl, model):
        if "harness_error" in impl:
            return Verdict(DIFFERS, impl["harness_error"], {"kind": "harness"})
        if case["type"] == "nl":
            return self.compare_nl(case, impl, model)
        hist = case["hist"]

        def norm(outs):
            return [["lib"] if o[0] in ("res", "skip", "probe") else o for o in outs]

        for idx, (st, rec, mod) in enumerate(zip(hist, impl["trace"], model["calls"])):
            k = st[0]
            lib = list(s2 for s2 in flat_steps([st]) if s2[0] in ("new", "op", "probe"))
            # 1. no live object is changed by any call
            if rec["mut"]:
                # several objects may change in one call: report one that is not a listed finding
                cands = []
                for (s, okind, attr, v0, v1, opname, role, argn, *tgt) in rec["mut"]:
                    feat = {"kind": "operand-mutated", "op": opname, "attr": attr, "operand": okind}
                    if argn is not None and not re.fullmatch(r"arg\d+", argn):
                        feat["arg"] = argn          # keyword the object was passed under
                    if role in ("same-object", "shares-state"):
                        # the caller renamed a *result*; the operation that produced it is at fault
                        prod = next((s2 for s2 in flat_steps(hist) if s2[0] == "op" and s2[1] == tgt[0]), None)
                        feat = {"kind": "result-is-operand" if role == "same-object" else "result-shares-state",
                                "op": prod[2] if prod else "?", "operand": okind, "attr": attr}
                        cands.append((feat, "step %d: %s() on the result %r of %s also changed attribute %r of live %s %r "
                                      "(%s): %s -> %s ; the operation returned %s ; producing step = %s"
                                      % (idx, opname, tgt[0], feat["op"], attr, okind, s, role, v0, v1,
                                         "its operand itself, not a new system" if role == "same-object"
                                         else "a system that shares mutable state with it", json.dumps(prod)[:300])))
                        continue
                    cands.append((feat, "step %d (%s) changed attribute %r of live %s %r (%s%s): %s -> %s ; step = %s"
                                  % (idx, opname, attr, okind, s, role, "" if argn is None else " " + argn, v0, v1,
                                     json.dumps(st)[:300])))
                # when the result IS one of the operands (listed or not), containers that hold that
                # operand (a caller's list / dict of systems) change with it: a consequence, not a
                # second defect
                same = [f for f, d in cands if f.get("kind") == "result-is-operand"]
                if same:
                    cands = [(f, d) for f, d in cands
                             if not (f.get("kind") == "result-shares-state"
                                     and (f.get("operand") in ("list", "dict", "tuple")
                                          # an interconnected system refers to its subsystems (`syslist`)
                                          # by design: it is a container of the caller's systems too
                                          or (f.get("operand") in ("InterconnectedSystem", "LinearICSystem")
                                              and f.get("attr") == "syslist"))
                                     and any(f.get("op") == g.get("op") for g in same))] or cands
                feat, detail = next(((f, d) for f, d in cands if match_known(self.known(), f) is None), cands[0])
                return Verdict(VIOLATES, detail, feat)
            # 2. no library call changes the configuration
            if rec["libcfg"]:
                opname, key, v0, v1 = rec["libcfg"][0]
                where = "config.defaults[%r]" % key if " " not in key and not key.startswith("matplotlib.") \
                    else "package state %r" % key
                return Verdict(VIOLATES, "step %d: %s changed %s: %s -> %s ; step = %s"
                               % (idx, opname, where, v0, v1, json.dumps(st)[:300]),
                               {"kind": "config-changed", "op": opname, "key": key})
            # 2b. a call on a problem object with a history returns what the same call returns on a
            #     freshly built identical object
            if rec.get("twin"):
                opname, d = rec["twin"][0]
                return Verdict(VIOLATES, "step %d: %s on an object with a call history does not return what the same "
                               "call returns on a freshly built identical object (history -> fresh): %s ; step = %s"
                               % (idx, opname, d, json.dumps(st)[:300]),
                               {"kind": "history-dependent", "op": opname, "via": "fresh-twin"})
            # 3. generated and requested names of constructors; repeated probes
            outs_lib = [o for o in rec["outs"] if o[0] in ("res", "skip", "probe")]
            for s2, out in zip(lib, outs_lib):
                if s2[0] == "new" and out[0] == "res" and out[1] == "obj" and out[2] is not None \
                        and s2[2] in ("ss", "tf", "frd", "nls", "nld"):
                    want = s2[3].get("kw", {}).get("name")
                    if want is None and out[2] != "sys[%d]" % out[3]:
                        return Verdict(VIOLATES, "step %d: generated name %r, counter was %d" % (idx, out[2], out[3]),
                                       {"kind": "gen-name", "op": s2[2]})
                    if want is not None and out[2] != want:
                        return Verdict(VIOLATES, "step %d: name %r, requested %r" % (idx, out[2], want),
                                       {"kind": "name", "op": s2[2]})
                if s2[0] == "probe" and out[0] == "probe" and out[1] is True and out[2] is False:
                    return Verdict(VIOLATES, "step %d: probe %s returned a different value after the "
                                   "intervening history: %s" % (idx, json.dumps(s2)[:200], out[3]),
                                   {"kind": "history-dependent", "op": s2[2]})
            # 4. configuration: outcome and new dictionary as the model predicts
            flags = {"kind": "config", "call": k}
            if k == "with":
                flags["nested"] = with_depth(st) > 1
                flags["unknown_key"] = any(a not in IMP_KEYS for a, _ in st[1])
            if k == "reset" or k == "legacy":
                flags["alias"] = any(s[0] == "set" and s[1].startswith("deprecated.") for s in flat_steps(hist[:idx]))
            same = (norm(rec["outs"]) == norm(mod["outs"]) and rec["diff"] == mod["diff"] and not rec.get("gone"))
            if same:
                continue
            detail = "step %d %s: implementation outs=%s diff=%s ; model outs=%s diff=%s" % (
                idx, json.dumps(st)[:200], norm(rec["outs"]), rec["diff"][:6], norm(mod["outs"]), mod["diff"][:6])
            if k not in CFG_KINDS:
                flags["what"] = "model-differs"
                return Verdict(DIFFERS, detail, flags)
            # the property itself, evaluated on the implementation
            if k == "with" and norm(rec["outs"]) == norm(mod["outs"]):
                # a reset_defaults / use_legacy_defaults inside the block, after a deprecated alias was
                # registered: the same defect as at top level (the reset is diverted by the alias)
                inner = [s2 for s2 in flat_steps(st[2]) if s2[0] in ("reset", "legacy")]
                if inner and any(s2[0] == "set" and s2[1].startswith("deprecated.")
                                 for s2 in flat_steps(hist[:idx + 1])):
                    flags = {"kind": "config", "call": inner[0][0], "alias": True, "what": "reset-not-restored",
                             "inside_with": True}
                    return Verdict(VIOLATES, "reset_defaults inside a with block did not restore the import-time "
                                   "values; " + detail, flags)
            if k == "with" and not body_sets_config(st) and (rec["diff"] or rec.get("gone")):
                flags["what"] = "with-not-restored"
                return Verdict(VIOLATES, "configuration not restored after the with statement; " + detail, flags)
            if k == "with" and rec["exc"] not in (None, "badArg", "unknownName"):
                flags["what"] = "with-raises-" + str(rec["exc"])
                return Verdict(VIOLATES, "with statement raises; " + detail, flags)
            if k in ("reset", "legacy") and norm(rec["outs"]) == norm(mod["outs"]):
                flags["what"] = "reset-not-restored"
                return Verdict(VIOLATES, "reset_defaults did not restore the import-time values; " + detail, flags)
            flags["what"] = "model-differs"
            return Verdict(DIFFERS, detail, flags)
        if len(impl["trace"]) != len(model["calls"]):
            return Verdict(DIFFERS, "trace length", {"kind": "harness"})
        return Verdict(AGREE)

    def compare_nl(self, case, impl, model):
        for idx, (call, rec, sp, cd) in enumerate(zip(case["calls"], impl["calls"], model["spec"], model["code"])):
            kind, j, ov, how = call
            feat = {"kind": "params", "call": kind if kind != "eval" else how, "override": ov is not None}
            if rec["params_mutated"] or rec["override_mutated"]:
                feat["what"] = "params-mutated" if rec["params_mutated"] else "override-mutated"
                return Verdict(VIOLATES, "call %d %s changed a params dictionary" % (idx, call), feat)
            if rec["exc"]:
                feat["what"] = "raises"
                return Verdict(DIFFERS, "call %d %s raised %s" % (idx, call, rec["exc"]), feat)
            if rec["inconsistent"]:
                feat["what"] = "inconsistent"
                return Verdict(VIOLATES, "call %d %s: a subsystem saw two different dictionaries" % (idx, call), feat)
            want = {v[0]: v[1] for v in sp["views"]}
            got = {v[0]: v[1] for v in rec["views"]}
            bad = [jj for jj in got if got[jj] != want.get(jj)]
            if bad:
                stale = all(got[jj] == {v[0]: v[1] for v in cd["views"]}.get(jj) for jj in got)
                feat["what"] = "stale-cache" if stale else "other"
                return Verdict(VIOLATES, "call %d %s: subsystem %d was evaluated with %s; its parameters and the "
                               "override of this call give %s" % (idx, call, bad[0], got[bad[0]], want.get(bad[0])),
                               feat)
        return Verdict(AGREE)

    # ------------------------------------------------------------------ evidence
    def nontrivial(self, case, model):
        if case["type"] == "nl":
            return len(case["calls"]) >= 3 and len({c[0] for c in case["calls"]}) >= 2
        steps = list(flat_steps(case["hist"]))
        kinds = {(s[2] if s[0] in ("op", "probe") else s[0]) for s in steps}
        return len(steps) >= 3 and len(kinds) >= 2

    def stats(self, case, impl, model):
        st = {"type": case["type"]}
        if case["type"] == "nl":
            st["ncalls"] = min(len(case["calls"]), 12)
            if "calls" in impl:
                code_eq = all({v[0]: v[1] for v in r["views"]} == {v[0]: v[1] for v in c["views"] if v[0] in
                                                                  {w[0] for w in r["views"]}}
                              for r, c in zip(impl["calls"], model["code"]))
                st["impl_equals_code_model"] = code_eq
            return st
        steps = list(flat_steps(case["hist"]))
        st["len"] = min(10 * (len(steps) // 10), 40)
        st["has_with"] = any(s[0] == "with" for s in steps)
        st["has_plot"] = any(s[0] in ("op", "probe") and s[2] in PLOT_OPS for s in steps)
        st["has_view_or_owned_container"] = any(s[0] == "new" and s[2] in ("view", "list", "dict") for s in steps)
        st["has_find_operating_point"] = any(s[0] in ("op", "probe") and s[2] == "find_operating_point" for s in steps)
        ops = [s for s in steps if s[0] in ("op", "probe")]
        st["has_problem_object_history"] = sum(1 for s in ops if s[2] in TWIN_OPS) >= 2
        st["has_warm_start_from_earlier_result"] = any("item" in json.dumps(s[4].get("initial_guess", "")) for s in ops)
        st["has_scalar_or_array_first_operand"] = any(
            s[2] in ("series", "parallel", "append", "feedback", "add", "sub", "mul", "sum") and s[3]
            and not isinstance(s[3][0], dict) and not isinstance(s[3][0], list) or
            (s[2] in ("series", "parallel", "feedback", "add", "sub", "mul") and len(s[3]) > 1 and is_ref(s[3][0])
             and str(s[3][0].get("s", "")).startswith(("a", "v"))) for s in ops)
        st["has_identity_scalar_operand"] = any(
            s[2] in ("series", "parallel", "add", "sub", "mul", "div", "sum", "feedback")
            and any(isinstance(x, (int, float)) and not isinstance(x, bool) and x in (0, 1) for x in s[3][:3]) for s in ops)
        st["has_result_renamed_by_caller"] = any(s[2] in MUTATORS for s in ops)
        st["has_flat_system"] = any(s[0] == "new" and s[2] == "flat" for s in steps)
        # state-space systems built from column-major data (np.asfortranarray / transposed arrays)
        # and systems whose A is not upper triangular (an in-place LAPACK reduction would change it)
        colmajor = {s[1] for s in steps if s[0] == "new" and ((s[2] == "arr" and s[3].get("order") == "F")
                                                              or (s[2] == "view" and s[3].get("how") == "T"))}
        specs = {s[1]: s[3] for s in steps if s[0] == "new"}

        def a_of(sp):
            a = sp["abcd"][0]
            return (a["s"], specs.get(a["s"], {})) if is_ref(a) and "s" in a else (None, {"v": a})
        ssnew = [a_of(s[3]) for s in steps if s[0] == "new" and s[2] == "ss"]
        st["has_column_major_system"] = any(slot in colmajor and (sp.get("shape") or [len(sp.get("v") or [])])[0] > 1
                                            for slot, sp in ssnew)
        st["has_general_state_matrix"] = any(
            isinstance(sp.get("v"), list) and sp["v"] and isinstance(sp["v"][0], list)
            and any(sp["v"][i][j] != 0 for i in range(len(sp["v"])) for j in range(min(i, len(sp["v"][i]))))
            for slot, sp in ssnew) or any(s[0] == "new" and s[2] == "view" and s[3].get("how") == "T"
                                          and s[1] in {x for x, _ in ssnew} for s in steps)
        st["has_system_matrices_as_arguments"] = any(
            s[0] in ("op", "probe") and s[2] not in ("ssdata",) and "item" in json.dumps(s[3]) and
            any(t[0] == "op" and t[2] == "ssdata" and t[1] in slots_in(s[3], []) for t in steps) for s in steps)
        # frequency vectors that are not increasing (FRD grids, `omega` arguments); an FRD next to a
        # TransferFunction / StateSpace operand (re-sampled on the FRD's own grid); MIMO FRD (3-D data)
        def vec_of(x):
            sp = specs.get(x["s"], {}) if is_ref(x) and "s" in x else {"v": x}
            if "base" in sp and isinstance(sp.get("shape"), list) and len(sp["shape"]) == 1:
                b = specs.get(sp["base"]["s"], {}).get("v")
                if isinstance(b, list) and b and not isinstance(b[0], list):
                    return {"slice": b[sp.get("off", [0])[0]:][:sp["shape"][0]], "stride": b[::2]}.get(sp["how"])
                if isinstance(b, list) and b and isinstance(b[0], list):
                    return [y for r in b for y in r]
                return None
            v = sp.get("v")
            return v if isinstance(v, list) and v and all(isinstance(y, (int, float)) for y in v) else None
        frds = {s[1]: vec_of(s[3]["omega"]) for s in steps if s[0] == "new" and s[2] == "frd"}
        unsorted_frd = {k for k, v in frds.items() if v and v != sorted(v)}
        st["has_frd_on_unsorted_frequencies"] = bool(unsorted_frd)
        st["has_mimo_frd"] = any(s[0] == "new" and s[2] == "frd" and (
            (isinstance(s[3]["data"], list) and s[3]["data"] and isinstance(s[3]["data"][0], list)) or
            (is_ref(s[3]["data"]) and len(specs.get(s[3]["data"].get("s"), {}).get("v", [])) > 0 and
             isinstance(specs[s[3]["data"]["s"]]["v"][0], list))) for s in steps)
        ltis = {s[1] for s in steps if s[0] == "new" and s[2] in ("ss", "tf")}
        BIN = ("add", "sub", "mul", "div", "feedback", "m_feedback", "series", "parallel", "append", "m_append", "sum",
               "gangof4_response")
        def mixes(s, pool):
            used = set(slots_in(s[3], []))
            return s[2] in BIN and used & pool and used & ltis
        st["has_frd_with_tf_or_ss_operand"] = any(mixes(s, set(frds)) for s in ops)
        st["has_unsorted_frd_with_tf_or_ss_operand"] = any(mixes(s, unsorted_frd) for s in ops)
        FREQ_FN = ("m_freqresp", "frequency_response", "frd", "bode_plot", "nyquist_plot", "nichols_plot",
                   "singular_values_plot", "singular_values_response", "nyquist_response", "gangof4_response",
                   "gangof4_plot", "margin_arrays", "stability_margins_arrays", "describing_function", "root_locus_map")
        def unsorted_arg(s):
            for x in list(s[3][1:]) + [s[4].get("omega")]:
                v = vec_of(x) if (isinstance(x, list) or (is_ref(x) and "s" in x)) else None
                if v and len(v) > 1 and v != sorted(v):
                    return True
            return False
        st["has_unsorted_frequency_argument"] = any(s[2] in FREQ_FN and unsorted_arg(s) for s in ops)
        st["has_probe_pair"] = any(r["outs"] and r["outs"][-1][0] == "probe" and r["outs"][-1][1] is not None
                                   for r in impl.get("trace", []))
        return st

    def op_histogram(self, cases):
        h = {}
        for c in cases:
            if c["type"] == "hist":
                for s in flat_steps(c["hist"]):
                    n = s[2] if s[0] in ("op", "probe") else s[0]
                    h[n] = h.get(n, 0) + 1
        return h

    # ------------------------------------------------------------------ shrinking
    def shrink(self, case):
        if case["type"] == "nl":
            calls = case["calls"]
            for i in range(len(calls)):
                yield dict(case, calls=calls[:i] + calls[i + 1:])
            return
        hist = case["hist"]
        n = len(hist)
        if n > 4:
            yield dict(case, hist=hist[n // 2:])
            yield dict(case, hist=hist[:n // 2])
        for i in range(n - 1, -1, -1):
            yield dict(case, hist=hist[:i] + hist[i + 1:])
        for i, st in enumerate(hist):
            if st[0] == "with":
                yield dict(case, hist=hist[:i] + st[2] + hist[i + 1:])
                for j in range(len(st[2])):
                    yield dict(case, hist=hist[:i] + [["with", st[1], st[2][:j] + st[2][j + 1:]]] + hist[i + 1:])
                if len(st[1]) > 1:
                    for j in range(len(st[1])):
                        yield dict(case, hist=hist[:i] + [["with", st[1][:j] + st[1][j + 1:], st[2]]] + hist[i + 1:])

    def search(self, rng, case, tier):
        return [self.gen_case(rng, "quick") for _ in range(200)]

    # ------------------------------------------------------------------ corpus
    def corpus(self):
        from families import c19_gen
        return c19_gen.corpus()

    def gen_case(self, rng, tier):
        from families import c19_gen
        return c19_gen.gen_case(rng, tier)

    def generate(self, rng, tier):
        from families import c19_gen
        return c19_gen.generate(rng, tier)


FAMILY = C19
