"""C05 — timebase calculus: exhaustive correspondence between the timebase bookkeeping of the
real classes/operators/factories and the Lean model `CtrlVerif.Model.DtOps` (driver family `dt`).

A case is one cell of the operation table:
  {"k": "mk",     "cfg": c, "a": opnd}
  {"k": "common", "x": dtval, "y": dtval, "sys": 0|1, "near": 0|1}
  {"k": "bin",    "op": add|sub|mul|div|fb|append|lft, "via": .., "cfg": c, "a": opnd, "b": opnd}
                  (lft: `a` is built as a 2x2 / 3x3 upper system; "lic": upper as LinearICSystem, "m3": 3x3 upper, 2x2 lower)
  {"k": "fn",     "fn": connect|augw, "cfg": c, "xs": [opnd | None ..][, "m2": 1]}   named block-diagram functions
  {"k": "un",     "op": .., "arg": k|Ts|None, "via": .., "cfg": c, "a": opnd[, "m2": 1]  (m2: 2x2 operand)}
  {"k": "nary",   "fn": series|parallel|append|combine|interconnect, "kw": c|"-", "cfg": c, "xs": [opnd..]}
  {"k": "tree",   "cfg": c, "prog": [tokens]}
opnd = "scalar" | "array" | "<cls>:<static>:<kw>";  kw/cfg = "-" | "N" | "T" | "Q<rat>" | "O"
"""
import copy
import traceback
import warnings
from fractions import Fraction

import numpy as np
import control as ct

from core.runner import Family, Verdict, AGREE, VIOLATES, DIFFERS
from core import exact
from core.exact import fr, tok
from families import c05_expr                       # whole expressions (cell kind `expr`)

CLASSES = ("ss", "tf", "frd", "nl", "ic")
OMEGA = [1.0, 2.0, 3.0]


def kwtok(v):
    """token of a Python `dt=` value"""
    if v is None:
        return "N"
    if v is True:
        return "T"
    if isinstance(v, (int, float)) and not isinstance(v, bool):
        return "Q" + tok(fr(v))
    return "O"


EXPL = [None, 0, True, 0.1, 0.25]                       # the five timebases of the quantifier
EXPL_TOK = [kwtok(v) for v in EXPL]
CFGS = ["Q0", "N", "T", kwtok(0.1)]                     # values of control.default_dt


def kwval(t):
    if t == "N":
        return None
    if t == "T":
        return True
    if t == "O":
        return "fast"
    q = Fraction(t[1:])
    return int(q) if q.denominator == 1 and abs(q) >= 1 else float(q)


def dtok_to_canon(t):
    """model `Dt` token (N C T D<rat>) is already the canonical form of exact.dt_canon"""
    return t


# ----------------------------------------------------------------------------
# building operands on the real classes
# ----------------------------------------------------------------------------

def build(opnd, mimo=False, lic=False):
    """operand on the real classes; `mimo`: 2x2 instead of SISO (ss / tf / frd / array);
    `lic`: a StateSpace operand is wrapped as a LinearICSystem (interconnect of one linear system)"""
    if lic and opnd.startswith("ss:"):
        inner = build(opnd)
        return ct.interconnect([inner], inplist=[(0, 0)], outlist=[(0, 0)])
    if opnd == "scalar":
        return 2.0
    if opnd == "array":
        return np.array([[2.0, 0.5], [0.0, 2.0]]) if mimo else np.array([[2.0]])
    cls, st, kw = opnd.split(":")
    static = st == "1"
    k = {} if kw == "-" else {"dt": kwval(kw)}
    if cls == "ss":
        if mimo:
            if static:
                return ct.ss([], [], [], [[2.0, 0.0], [1.0, 2.0]], **k)
            return ct.ss([[0.5, 0.25], [0.0, -0.5]], np.eye(2), np.eye(2), np.eye(2), **k)
        if static:
            return ct.ss([], [], [], [[2.0]], **k)
        return ct.ss([[0.5, 0.25], [0.0, -0.5]], [[1.0], [1.0]], [[1.0, 1.0]], [[1.0]], **k)
    if cls == "tf":
        if mimo:
            if static:
                return ct.tf([[[2.0], [0.0]], [[1.0], [2.0]]], [[[1.0], [1.0]], [[1.0], [1.0]]], **k)
            return ct.tf([[[1.0, 2.0], [1.0]], [[0.5], [1.0, 1.0]]],
                         [[[1.0, 3.0], [1.0, 4.0]], [[1.0, 5.0], [1.0, 3.0]]], **k)
        if static:
            return ct.tf([2.0], [1.0], **k)
        return ct.tf([1.0, 2.0], [1.0, 3.0], **k)
    if cls == "frd":
        if mimo:
            data = np.array([[[1 + 1j, 2.0, 3 - 1j], [0.5, 0.25j, 1.0]],
                             [[0.0, 1.0, 2.0], [2.0, 1 - 1j, 1.0]]])
            return ct.frd(data, OMEGA, **k)
        return ct.frd([1 + 1j, 2.0, 3 - 1j], OMEGA, **k)
    if cls in ("nl", "ic"):
        if static:
            s = ct.nlsys(None, lambda t, x, u, params: 2 * u, inputs=1, outputs=1, **k)
        else:
            s = ct.nlsys(lambda t, x, u, params: -x + u, lambda t, x, u, params: x,
                         inputs=1, outputs=1, states=1, **k)
        if cls == "ic":
            s = ct.interconnect([s], inplist=[(0, 0)], outlist=[(0, 0)])
        return s
    raise ValueError(opnd)


def build_via(opnd, via):
    """other documented ways of creating the same operand (positional dt, class constructors,
    zpk, rss)"""
    cls, st, kw = opnd.split(":")
    static = st == "1"
    k = {} if kw == "-" else {"dt": kwval(kw)}
    pos = () if kw == "-" else (kwval(kw),)
    if via == "positional":
        if cls == "ss":
            return ct.ss([], [], [], [[2.0]], *pos) if static else ct.ss([[0.5]], [[1.0]], [[1.0]], [[0.0]], *pos)
        if cls == "tf":
            return ct.tf([2.0], [1.0], *pos) if static else ct.tf([1.0], [1.0, 2.0], *pos)
        if cls == "frd":
            return ct.frd([1.0, 2.0], [1.0, 2.0], *pos)
    if via == "class":
        if cls == "ss":
            return (ct.StateSpace([], [], [], [[2.0]], *pos) if static
                    else ct.StateSpace([[0.5]], [[1.0]], [[1.0]], [[0.0]], **k))
        if cls == "tf":
            return ct.TransferFunction([2.0], [1.0], **k) if static else ct.TransferFunction([1.0], [1.0, 2.0], *pos)
        if cls == "frd":
            return ct.FrequencyResponseData([1.0, 2.0], [1.0, 2.0], **k)
        if cls == "nl":
            if static:
                return ct.NonlinearIOSystem(None, lambda t, x, u, params: u, inputs=1, outputs=1, **k)
            return ct.NonlinearIOSystem(lambda t, x, u, params: -x, lambda t, x, u, params: x,
                                        inputs=1, outputs=1, states=1, **k)
    if via == "classpos":
        # the class constructors with the timebase as the optional last *positional* argument (the
        # route of FrequencyResponseData.__getitem__ and of all StateSpace / TransferFunction operators)
        if cls == "ss":
            return (ct.StateSpace([], [], [], [[2.0]], *pos) if static
                    else ct.StateSpace([[0.5]], [[1.0]], [[1.0]], [[0.0]], *pos))
        if cls == "tf":
            return ct.TransferFunction([2.0], [1.0], *pos) if static else ct.TransferFunction([1.0], [1.0, 2.0], *pos)
        if cls == "frd":
            return ct.FrequencyResponseData([1.0, 2.0], [1.0, 2.0], *pos)
    if via == "poskw" and kw != "-":
        # timebase given twice, positionally and as keyword (same value)
        with warnings.catch_warnings():
            warnings.simplefilter("ignore")          # FRD: "received multiple dt arguments"
            if cls == "ss":
                return (ct.ss([], [], [], [[2.0]], *pos, **k) if static
                        else ct.ss([[0.5]], [[1.0]], [[1.0]], [[0.0]], *pos, **k))
            if cls == "tf":
                return ct.tf([2.0], [1.0], *pos, **k) if static else ct.tf([1.0], [1.0, 2.0], *pos, **k)
            if cls == "frd":
                return ct.FrequencyResponseData([1.0, 2.0], [1.0, 2.0], *pos, **k)
    if via == "mimo" and cls in ("ss", "tf", "frd"):
        return build(opnd, mimo=True)
    if via == "mimopos" and cls in ("ss", "tf", "frd"):
        if cls == "ss":
            if static:
                return ct.StateSpace([], [], [], [[2.0, 0.0], [1.0, 2.0]], *pos)
            return ct.ss([[0.5, 0.25], [0.0, -0.5]], np.eye(2), np.eye(2), np.eye(2), *pos)
        if cls == "tf":
            if static:
                return ct.tf([[[2.0], [0.0]], [[1.0], [2.0]]], [[[1.0], [1.0]], [[1.0], [1.0]]], *pos)
            return ct.TransferFunction([[[1.0, 2.0], [1.0]], [[0.5], [1.0, 1.0]]],
                                       [[[1.0, 3.0], [1.0, 4.0]], [[1.0, 5.0], [1.0, 3.0]]], *pos)
        data = np.array([[[1 + 1j, 2.0, 3 - 1j], [0.5, 0.25j, 1.0]], [[0.0, 1.0, 2.0], [2.0, 1 - 1j, 1.0]]])
        return ct.frd(data, OMEGA, *pos)
    if via == "zpk" and cls == "tf":
        return ct.zpk([], [], 2.0, **k) if static else ct.zpk([1.0], [0.5], 2.0, **k)
    if via == "rss" and cls == "ss" and not static:
        return ct.rss(2, **k)
    raise KeyError(via)


# ---- lft (strengthening after C05-m6) ---------------------------------------
UPPER_D2 = [[0.0, 1.0], [1.0, 0.0]]                       # D22 = 0: the LFT is well-posed for every lower system
UPPER_D3 = [[0.0, 1.0, 1.0], [1.0, 0.0, 0.0], [1.0, 0.0, 0.0]]


def build_upper(opnd, lic=False, n=2):
    """the upper system of `P.lft(K)`: a StateSpace with n inputs / outputs (static or with two states)
    whose feed-through from the control inputs to the measurement outputs is zero, so that closing the
    loop with any lower system is well-posed; `lic`: wrapped as a LinearICSystem.  Classes that have no
    `lft` are built as usual (2x2 where the class has a MIMO form)"""
    cls, st, kw = opnd.split(":")
    if cls != "ss":
        return build(opnd, mimo=cls in ("tf", "frd"))
    k = {} if kw == "-" else {"dt": kwval(kw)}
    D = UPPER_D2 if n == 2 else UPPER_D3
    if st == "1":
        P = ct.ss([], [], [], D, **k)
    elif n == 2:
        P = ct.ss([[0.5, 0.25], [0.0, -0.5]], [[1.0, 0.5], [0.0, 1.0]], [[1.0, 0.0], [0.25, 1.0]], D, **k)
    else:
        P = ct.ss([[0.5, 0.25], [0.0, -0.5]], [[1.0, 0.5, 0.0], [0.0, 1.0, 1.0]],
                  [[1.0, 0.0], [0.25, 1.0], [0.0, 1.0]], D, **k)
    if lic:
        io = [(0, i) for i in range(n)]
        P = ct.interconnect([P], inplist=io, outlist=io)
    return P


# ---- named block-diagram functions built from the tabulated operations (cell kind `fn`) --------

def fn_prog(c):
    """the composition of tabulated operations that the code of the function performs, as a `dtx`
    program (model C05Expr.eval): no new timebase rule, only the code's own sequence of calls.
    connect(sys, Q, inputv, outputv): `sys.feedback(K, sign=1)` with a constant matrix K, then
      `Ytrim * sys * Utrim` with constant matrices.
    augw(g, w1, w2, w3): each weight `ss(w)` unless a StateSpace, `append(w)` (SISO plant: one copy), a
      missing weight is `ss([], [], [], [])`; `g = ss(g)` unless a StateSpace; `append(w1, w2, w3, Ie, g, Iu)`
      with static Ie, Iu created without dt; then connect."""
    def connect(prog):
        return ["array"] + prog + ["array", "fb", "bin=mul", "array", "bin=mul"]
    if c["fn"] == "connect":
        return connect([c["xs"][0]])
    if c["fn"] == "augw":
        g, ws = c["xs"][0], c["xs"][1:]
        prog = []
        for w in ws:
            if w is None:
                prog += ["ss:1:-"]
            else:
                prog += [w] + ([] if w.startswith("ss:") else ["un=toSS"]) + ["append=1"]
        prog += ["ss:1:-", g] + ([] if g.startswith("ss:") else ["un=toSS"]) + ["ss:1:-", "append=6"]
        return connect(prog)
    raise ValueError(c["fn"])


def run_fn(c, ops):
    with warnings.catch_warnings():
        warnings.simplefilter("ignore")                  # connect is deprecated
        if c["fn"] == "connect":
            if c.get("m2"):
                return ct.connect(ops[0], [[2, -2]], [1], [1])
            return ct.connect(ops[0], [[1, -1]], [1], [1])
        if c["fn"] == "augw":
            return ct.augw(*ops)
    raise ValueError(c["fn"])
# ---- end lft / fn -----------------------------------------------------------


CLSNAME = {"StateSpace": "ss", "TransferFunction": "tf", "FrequencyResponseData": "frd",
           "NonlinearIOSystem": "nl", "InterconnectedSystem": "ic", "LinearICSystem": "ic"}


def classify_exc(e):
    msg = str(e)
    if isinstance(e, ValueError):
        if "invalid timebase" in msg:
            return "badArg"
        if "incompatible timebases" in msg or "does not match argument `dt" in msg:
            return "timebase"
        if "continuous-time system" in msg or "continuous time" in msg:
            return "badArg"
        return "ValueError"
    if isinstance(e, (TypeError, AttributeError, NotImplementedError)):
        return "notImplemented"
    return type(e).__name__


def res_of(obj):
    if isinstance(obj, tuple):
        obj = obj[0]
    if not hasattr(obj, "dt"):
        return {"err": "nodt", "exc": type(obj).__name__}
    return {"cls": CLSNAME.get(type(obj).__name__, type(obj).__name__), "dt": exact.dt_canon(obj.dt)}


def guarded(f):
    try:
        return res_of(f())
    except Exception as e:  # noqa
        return {"err": classify_exc(e), "exc": "%s: %s" % (type(e).__name__, str(e)[:120])}


def opnd_dt(x):
    return exact.dt_canon(x.dt) if hasattr(x, "dt") else "-"


# ---- binary -----------------------------------------------------------------

def run_bin(op, via, a, b):
    if op == "add":
        return a + b
    if op == "sub":
        return a - b
    if op == "mul":
        return a * b
    if op == "div":
        return a / b
    if op == "fb":
        return a.feedback(b) if via == "method" else ct.feedback(a, b)
    if op == "append":
        return a.append(b) if via == "method" else ct.append(a, b)
    if op == "lft":                                   # (strengthening after C05-m6)
        return a.lft(b, 1, 1) if via == "nuny" else a.lft(b)
    raise ValueError(op)


# ---- unary ------------------------------------------------------------------

def run_un(op, arg, via, s):
    if op == "neg":
        return ct.negate(s) if via == "func" else -s
    if op == "pow":
        return s ** int(arg)
    if op == "getitem":
        if via == "split":                            # split_tf: every block re-created with `dt=T.dt`
            blocks = ct.split_tf(s)
            odd = [b for b in blocks.flat if exact.dt_canon(b.dt) != exact.dt_canon(s.dt)]
            return odd[0] if odd else blocks[-1, 0]      # a block that lost the timebase, if any
        return s[getitem_key(via, s)]
    if op == "copy":
        return copy.deepcopy(s) if via == "deepcopy" else s.copy()
    if op == "rename":
        if via == "copyname":
            return s.copy(name="c05copy")
        s.update_names(name="c05renamed", inputs=["uu"], outputs=["yy"])
        return s
    if op == "toSS":
        if via == "tf2ss":
            return ct.tf2ss(s)
        if via == "named":
            return ct.ss(s, name="c05ss")
        if via == "class":
            return ct.StateSpace(s)                  # copy constructor
        if via == "kwsame":
            return ct.ss(s, dt=s.dt)                 # the operand's own timebase, explicitly
        return ct.ss(s)
    if op == "toTF":
        if via == "ss2tf":
            return ct.ss2tf(s)
        if via == "named":
            return ct.tf(s, name="c05tf")
        if via == "class":
            return ct.TransferFunction(s)            # copy constructor
        if via == "kwsame":
            return ct.tf(s, dt=s.dt)
        return ct.tf(s)
    if op == "toFRD":
        if isinstance(s, ct.FrequencyResponseData):
            # one-argument copy constructor (`frd(F, omega)` would read F as response data)
            if via == "class":
                return ct.FrequencyResponseData(s)
            if via == "kwsame":
                return ct.FrequencyResponseData(s, dt=s.dt)
            return ct.frd(s)
        if via == "classpos":
            return ct.FrequencyResponseData(s, OMEGA, s.dt)      # timebase positionally
        if via == "kwsame":
            return ct.frd(s, OMEGA, dt=s.dt)
        if via == "freqresp":
            return ct.frequency_response(s, OMEGA)
        if via == "class":
            return ct.FrequencyResponseData(s, OMEGA)
        return ct.frd(s, OMEGA)
    if op == "toNL":
        if via == "kwsame":
            return ct.nlsys(s, dt=s.dt)
        return ct.nlsys(s, name="c05nl") if via == "named" else ct.nlsys(s)
    if op == "sim":
        return ct.similarity_transform(s, np.array([[1.0, 1.0], [0.0, 2.0]]))
    if op == "reach":
        return ct.canonical_form(s, "reachable")[0] if via == "canon" else ct.reachable_form(s)[0]
    if op == "obs":
        return ct.canonical_form(s, "observable")[0] if via == "canon" else ct.observable_form(s)[0]
    if op == "modred":
        if via == "matchdc":
            return ct.model_reduction(s, [1], method="matchdc", warn_unstable=False)
        return ct.model_reduction(s, [1], method="truncate", warn_unstable=False)
    if op == "minreal":
        return ct.minreal(s, verbose=False) if via == "func" else s.minreal()
    if op == "lin":
        x0 = np.zeros(s.nstates)
        if via == "method":
            return s.linearize(x0, 0)
        if via == "named":
            return ct.linearize(s, x0, 0, name="c05lin")
        return ct.linearize(s, x0, 0)
    if op == "sample":
        ts = float(Fraction(arg))
        if via == "c2d":
            return ct.c2d(s, ts)
        if via == "tustin":
            return ct.sample_system(s, ts, method="tustin")
        if via == "prewarp":
            return ct.sample_system(s, ts, method="bilinear", prewarp_frequency=1.0)
        return s.sample(ts)
    raise ValueError(op)


GETITEM_VIAS = ["op", "row", "rev", "all", "list", "names", "neg"]


def getitem_key(via, s):
    """two-index keys of every documented form; `last` = the last output (1 for the 2x2 operands)"""
    last = s.noutputs - 1
    if via == "row":
        return (last, slice(None))                       # F[i, :]
    if via == "rev":
        return (slice(None, None, -1), s.ninputs - 1)    # reversed slice
    if via == "all":
        return (slice(None), slice(None))
    if via == "list":
        return (sorted({0, last}), [0])
    if via == "names":
        return (s.output_labels[last], s.input_labels[0])
    if via == "neg":
        return (-1, -1)
    return (0, 0)


UN_VIAS = {
    "neg": ["op", "func"], "pow": ["op"], "getitem": ["op"], "copy": ["copy", "deepcopy"],
    "rename": ["update", "copyname"], "toSS": ["ss", "tf2ss", "named", "class", "kwsame"],
    "toTF": ["tf", "ss2tf", "named", "class", "kwsame"],
    "toFRD": ["frd", "freqresp", "class", "classpos", "kwsame"], "toNL": ["nlsys", "named", "kwsame"], "sim": ["op"],
    "reach": ["form", "canon"], "obs": ["form", "canon"], "modred": ["truncate", "matchdc"],
    "minreal": ["method", "func"], "lin": ["func", "method", "named"], "sample": ["method", "c2d", "tustin", "prewarp"],
}
# classes on which an operation is offered at all (anything else is only spot-checked as "raises")
UN_CLASSES = {
    "neg": CLASSES, "pow": ("ss", "tf", "frd"), "getitem": ("ss", "tf", "frd"), "copy": CLASSES,
    "rename": CLASSES, "toSS": ("ss", "tf"), "toTF": ("ss", "tf"), "toFRD": ("ss", "tf", "frd"),
    "toNL": ("ss",), "sim": ("ss",), "reach": ("ss",), "obs": ("ss",), "modred": ("ss",),
    "minreal": ("tf",), "lin": ("ss", "nl", "ic"), "sample": ("ss", "tf"),
}
NO_SPOT = ("toNL",)      # nlsys(<non-StateSpace object>) takes the object as an update function
DYNAMIC_ONLY = ("sim", "reach", "obs", "modred")     # need states (IndexError on static systems)


def via_ok(op, via, cls, static, dtv):
    if op == "toSS" and via == "tf2ss" and cls != "tf":
        return False
    if op == "toTF" and via == "ss2tf" and cls != "ss":
        return False
    if op == "toSS" and via == "class" and cls != "ss":
        return False          # StateSpace(sys) / TransferFunction(sys): copy constructors of the own class
    if op == "toTF" and via == "class" and cls != "tf":
        return False
    if op == "toFRD" and cls == "frd" and via in ("freqresp", "classpos"):
        return False          # an FRD has no frequency_response(omega); FRD(F, omega, dt) reads F as data
    if op == "modred" and via == "matchdc" and dtv in ("T",) + tuple(t for t in EXPL_TOK if t[0] == "Q" and t != "Q0"):
        return False          # 'matchdc' is not implemented for discrete-time systems
    if op == "minreal" and via == "func" and cls != "tf":
        return False
    if op == "copy" and via == "copy" and cls == "frd":
        return True
    return True


# ---- property oracle (the statement of C05, evaluated on implementation values) -----

def pyjoin(a, b):
    """the rule of the property on canonical tokens; returns token or 'ERR'"""
    if a == "ERR" or b == "ERR":
        return "ERR"
    if a in ("N", "-"):
        return "N" if b == "-" else b
    if b in ("N", "-"):
        return a
    if a == "T":
        return b if (b == "T" or b[0] == "D") else "ERR"
    if b == "T":
        return a if a[0] == "D" else "ERR"
    return a if a == b else "ERR"


def pyjoin_all(ts):
    acc = "N"
    for t in ts:
        acc = pyjoin(acc, t)
    return acc


class C05(Family):
    prop = "C05"
    # source-text tie (DESIGN 2.5): Generated/CommonTimebase.lean is rewritten from /repo's
    # control/iosys.py on every run and proved equal to the model `common`
    extra_modules = ["CtrlVerif.Props.C05Gen", "CtrlVerif.Props.C05Tree", "CtrlVerif.Props.C05Pred",
                     "CtrlVerif.Props.C05PredUses",
                     # source-text tie of the timebase section of bdalg.combine_tf and of _ensure_tf
                     # (py2lean_combdt): generated head + constructor = the model combineTfDt
                     "CtrlVerif.Props.C05GenComb"]

    def pre_build(self):
        import os
        from core import py2lean, leanproj
        repo = os.environ.get("VERIF_REPO") or "/repo"
        problems, self.gen_info = py2lean.regenerate(repo, leanproj.LEAN)
        p2, i2 = py2lean.regenerate_dtkw(repo, leanproj.LEAN)
        self.gen_info.update(i2)
        from core import py2lean_select                      # isdtime / isctime / timebase (C05Pred)
        p3, i3 = py2lean_select.regenerate(repo, leanproj.LEAN, "C05")
        self.gen_info.update(i3)
        from core import py2lean_combdt                      # combine_tf / _ensure_tf timebase (C05GenComb)
        p4, i4 = py2lean_combdt.regenerate(repo, leanproj.LEAN)
        self.gen_info.update(i4)
        return problems + p2 + p3 + p4
    exhaustive = True
    exhaustive_quick = False
    externals = []
    assumptions = [
        "timebases are identical or clearly different (the np.isclose tolerance of common_timebase is "
        "mirrored by the model and reported as a known finding by a dedicated near-equal stream)",
        "dt=False (accepted by the code, behaves like 0) and np.integer sampling times (rejected by "
        "_process_dt_keyword) are outside the table",
        "operations that need slycot (modal_form, StateSpace.minreal, balred) are not exercised",
    ]
    rule = ("exhaustive operation table: every ordered pair of timebases from {None, 0, True, 0.1, 0.25} x "
            "{add, sub, mul, div, feedback, append} x every ordered pair of operand kinds from {StateSpace, "
            "TransferFunction, FRD, NonlinearIOSystem, InterconnectedSystem, scalar, ndarray}; all unary / "
            "conversion / transform functions of the property on every class and timebase; operands created "
            "with dt omitted (static and dynamic) under control.default_dt in {0, None, True, 0.1}; n-ary "
            "series/parallel/append/combine_tf/interconnect and random expression trees; direct "
            "common_timebase calls.  quick = the full explicit table under default_dt=0, all unary cells, "
            "and a seeded fifth of the config/static/MIMO variants; thorough = everything plus a second set "
            "of timebases (integer sampling times).  Whole expressions (families/c05_expr.py, model "
            "C05Expr.eval): every ordered triple of the five timebases for series / parallel / append / "
            "interconnect / combine_tf over several class patterns (+ constants, dt= keyword, summing "
            "junctions), random trees over all node kinds (powers incl. 0 and negative, unary operations, "
            "sample(Ts), n-ary functions), and the np.isclose tolerance-edge trees.  Routes by which a timebase "
            "reaches a constructor: keyword, last positional argument (factory functions and class "
            "constructors, SISO and 2x2, valid and invalid values), both at once, copy constructors "
            "(StateSpace(sys), TransferFunction(sys), frd(F) / FrequencyResponseData(F)), conversions with the "
            "operand's own timebase given explicitly (dt=sys.dt, FRD(sys, omega, sys.dt)); indexing with every "
            "form of two-index key (F[i, j], F[i, :], reversed / full slices, index lists, signal names, "
            "negative indices) of SISO and 2x2 ss / tf / frd systems under every default_dt; and "
            "append(a, b)[0, 0] <op> c for every ordered triple of timebases (a block of a MIMO system "
            "combined onward).  StateSpace.lft: every StateSpace upper-system variant x every lower operand "
            "variant of every kind x every default_dt (default / explicit nu, ny; LinearICSystem upper; 3x3 upper "
            "with 2x2 lower; classes without lft must raise), lft results combined onward / upper systems built "
            "by append, sampling, unary operations / nested lfts for every ordered triple of timebases, lft "
            "nodes in the random trees; connect / augw (against the composition of tabulated operations their "
            "code performs) and split_tf.  A cell is non-trivial when at "
            "least one operand has a specified timebase (not None)")

    # ---- generation -------------------------------------------------------
    def operand_variants(self, cls):
        """(static, kw) variants of one class"""
        if cls in ("scalar", "array"):
            return [cls]
        out = ["%s:0:%s" % (cls, k) for k in EXPL_TOK + ["-"]]
        if cls != "frd":
            out += ["%s:1:-" % cls, "%s:1:%s" % (cls, kwtok(0.1)), "%s:1:T" % cls]
        return out

    def bin_cells(self, cfg, full, rng, frac=1.0, toks=None):
        toks = toks or EXPL_TOK
        kinds = list(CLASSES) + ["scalar", "array"]
        cells = []
        for ca in kinds:
            for cb in kinds:
                if ca in ("scalar", "array") and cb in ("scalar", "array"):
                    continue
                for op in ("add", "sub", "mul", "div", "fb", "append"):
                    if op == "append" and ca in ("scalar", "array"):
                        continue
                    if full:
                        va = ["%s:0:%s" % (ca, k) for k in toks] if ca in CLASSES else [ca]
                        vb = ["%s:0:%s" % (cb, k) for k in toks] if cb in CLASSES else [cb]
                    else:
                        va, vb = self.operand_variants(ca), self.operand_variants(cb)
                    for a in va:
                        for b in vb:
                            if frac < 1.0 and rng.random() > frac:
                                continue
                            via = "func"
                            if op in ("fb", "append") and ca in CLASSES:
                                via = rng.choice(["func", "method"])
                            cells.append({"k": "bin", "op": op, "via": via, "cfg": cfg, "a": a, "b": b})
        return cells

    def mimo_cells(self, rng, frac):
        """2x2 operands and SISO/MIMO mixes: the promotion paths (`np.ones(...) * sys`,
        `bdalg.append(*[sys] * n)`, `combine_tf`) compute timebases of their own"""
        cells = []
        for ca in ("ss", "tf", "frd"):
            for cb in ("ss", "tf", "frd", "scalar", "array"):
                for op in ("add", "sub", "mul", "append"):
                    if op == "append" and cb in ("scalar", "array"):
                        continue
                    for (ma, mb) in ((1, 1), (1, 0), (0, 1)):
                        if cb == "scalar" and mb:
                            continue
                        if cb == "array" and ma != mb:
                            continue          # arrays are not promoted
                        if ca == "ss" and cb == "tf" and mb:
                            continue          # MIMO tf -> ss conversion needs slycot
                        for sa in ("0", "1"):
                            for sb in ("0", "1"):
                                if (ca == "frd" and sa == "1") or (cb in ("frd", "scalar", "array") and sb == "1"):
                                    continue
                                for ta in EXPL_TOK + ["-"]:
                                    for tb in (EXPL_TOK + ["-"] if cb in CLASSES else [None]):
                                        if rng.random() > frac:
                                            continue
                                        a = "%s:%s:%s" % (ca, sa, ta)
                                        b = cb if tb is None else "%s:%s:%s" % (cb, sb, tb)
                                        cells.append({"k": "bin", "op": op, "via": "func", "cfg": rng.choice(CFGS),
                                                      "a": a, "b": b, "mimo": [ma, mb]})
        return cells

    def lic_cells(self, rng, frac):
        """StateSpace operands given as LinearICSystem (subclass of InterconnectedSystem and
        StateSpace; the StateSpace operators apply)"""
        cells = []
        for cb in list(CLASSES) + ["scalar", "array"]:
            for op in ("add", "sub", "mul", "div", "fb", "append"):
                for (la, lb, ca, cb2) in ((1, 0, "ss", cb), (0, 1, cb, "ss"), (1, 1, "ss", "ss")):
                    if ca in ("scalar", "array") and op in ("fb", "append"):
                        continue
                    if la and lb and cb != "ss":
                        continue
                    for ta in (EXPL_TOK if ca in CLASSES else [None]):
                        for tb in (EXPL_TOK if cb2 in CLASSES else [None]):
                            if rng.random() > frac:
                                continue
                            a = ca if ta is None else "%s:0:%s" % (ca, ta)
                            b = cb2 if tb is None else "%s:0:%s" % (cb2, tb)
                            cells.append({"k": "bin", "op": op, "via": "func", "cfg": "Q0", "a": a, "b": b,
                                          "lic": [la, lb]})
        return cells

    def un_cells(self, cfg, rng, frac=1.0):
        cells = []
        for op, classes in UN_CLASSES.items():
            args = [None]
            if op == "pow":
                args = [-2, -1, 0, 1, 2, 3]
            if op == "sample":
                args = ["1/2", tok(fr(0.1))]
            for cls in CLASSES:
                offered = cls in classes
                for a in self.operand_variants(cls):
                    _, st, kw = a.split(":")
                    if op in DYNAMIC_ONLY and st == "1":
                        continue
                    for arg in args:
                        for via in UN_VIAS[op]:
                            if not offered and (op in NO_SPOT or via != UN_VIAS[op][0]
                                                or rng.random() > 0.15):
                                continue       # spot-check only that unsupported combinations raise
                            dtv = kw if kw != "-" else cfg
                            if not via_ok(op, via, cls, st == "1", dtv):
                                continue
                            if frac < 1.0 and rng.random() > frac:
                                continue
                            cells.append({"k": "un", "op": op, "arg": arg, "via": via, "cfg": cfg, "a": a})
        return cells

    def getitem_cells(self, rng, frac=1.0):
        """indexing with every form of two-index key (F[i, j], F[i, :], reversed slice, full slice, index
        lists, signal names, negative indices) of SISO and 2x2 systems of the three indexable classes, for
        every timebase incl. `dt` omitted / static, under every `default_dt` (the model's `getitem` does
        not depend on key or shape; `__getitem__` hands the operand's timebase to the class constructor
        -- FRD: positionally -- so `None` must survive a non-None `default_dt`)"""
        cells = []
        for cfg in CFGS:
            for cls in ("ss", "tf", "frd"):
                for a in self.operand_variants(cls):
                    for mimo in (0, 1):
                        for via in GETITEM_VIAS + (["split"] if (cls == "tf" and mimo) else []):
                            if via == "op" and not mimo:
                                continue                       # already in un_cells
                            if frac < 1.0 and rng.random() > frac:
                                continue
                            c = {"k": "un", "op": "getitem", "arg": None, "via": via, "cfg": cfg, "a": a}
                            if mimo:
                                c["m2"] = 1
                            cells.append(c)
        return cells

    # ---- lft / named functions (strengthening after C05-m6) --------------------
    def lft_cells(self, rng, tier):
        """`P.lft(K)` (StateSpace.lft, a binary operation outside the operator table): every StateSpace
        upper-system variant (5 explicit timebases, dt omitted, static with / without dt) x every lower
        operand variant of every kind (StateSpace, TransferFunction, FRD, non-linear, interconnected,
        scalar, ndarray) x every default_dt, called with default and explicit (nu, ny); the upper system
        as LinearICSystem; a 3x3 upper system closed with a 2x2 lower one; and the classes that have no
        `lft` (spot: must raise)"""
        quick = tier == "quick"
        lowers = []
        for cb in list(CLASSES) + ["scalar", "array"]:
            lowers += self.operand_variants(cb)
        uppers = self.operand_variants("ss")
        cells = []
        for cfg in CFGS:
            for a in uppers:
                for b in lowers:
                    vias = ["method", "nuny"] if (not quick or cfg == "Q0") else [rng.choice(["method", "nuny"])]
                    for via in vias:
                        cells.append({"k": "bin", "op": "lft", "via": via, "cfg": cfg, "a": a, "b": b})
            for ta in EXPL_TOK + ["-"]:                   # upper system given as a LinearICSystem
                for b in lowers:
                    if quick and rng.random() > 0.5:
                        continue
                    cells.append({"k": "bin", "op": "lft", "via": "method", "cfg": cfg, "a": "ss:0:" + ta, "b": b,
                                  "lic": [1, 0]})
            for a in uppers:                              # 3x3 upper, 2x2 lower (nu = ny = 2)
                for cb in ("ss", "frd", "array"):
                    for b in self.operand_variants(cb):
                        if quick and cfg != "Q0" and rng.random() > 0.5:
                            continue
                        cells.append({"k": "bin", "op": "lft", "via": "method", "cfg": cfg, "a": a, "b": b, "m3": 1})
        for ca in ("tf", "frd", "nl", "ic"):              # no `lft` attribute
            for a in self.operand_variants(ca):
                for b in ["ss:0:" + t for t in EXPL_TOK] + ["scalar"]:
                    if rng.random() > (0.2 if quick else 1.0):
                        continue
                    cells.append({"k": "bin", "op": "lft", "via": "method", "cfg": rng.choice(CFGS), "a": a, "b": b})
        return cells

    def fn_cells(self, rng, tier):
        """named block-diagram functions that combine systems by calling the tabulated operations:
        connect(sys, Q, inputv, outputv) on every variant of ss (SISO and 2x2) / tf / frd / nl under every
        default_dt; augw(g, w1, w2, w3) for every ordered triple of timebases (plant, two weights; the third
        weight absent or a fixed one) over ss / tf patterns"""
        quick = tier == "quick"
        cells = []
        for cfg in CFGS:
            for cls in ("ss", "tf", "frd", "nl"):
                for a in self.operand_variants(cls):
                    cells.append({"k": "fn", "fn": "connect", "cfg": cfg, "xs": [a]})
                    if cls == "ss":
                        cells.append({"k": "fn", "fn": "connect", "cfg": cfg, "xs": [a], "m2": 1})
        pats = [("ss", "tf", "ss", None), ("tf", "ss", None, "tf"), ("ss", None, "tf", "ss"), ("tf", "tf", "tf", None)]
        i = 0
        for pat in pats:
            for ta in EXPL_TOK:
                for tb in EXPL_TOK:
                    for tc in EXPL_TOK:
                        it = iter((ta, tb, tc))
                        xs = [None if cl is None else "%s:0:%s" % (cl, next(it)) for cl in pat]
                        cfgs = CFGS if not quick else [CFGS[i % len(CFGS)]]
                        i += 1
                        for cfg in cfgs:
                            cells.append({"k": "fn", "fn": "augw", "cfg": cfg, "xs": xs})
        for cfg in CFGS:                                  # dt omitted / static weights
            for g in ("ss:0:-", "tf:0:-", "ss:0:" + kwtok(0.1)):
                for w in ("ss:1:-", "tf:1:-", "tf:0:-", "ss:1:T"):
                    cells.append({"k": "fn", "fn": "augw", "cfg": cfg, "xs": [g, w, None, None]})
                    cells.append({"k": "fn", "fn": "augw", "cfg": cfg, "xs": [g, None, w, "tf:0:N"]})
        return cells
    # ---- end lft / named functions ------------------------------------------------

    def rnd_opnd(self, rng, classes=CLASSES, consts=True):
        r = rng.random()
        if consts and r < 0.12:
            return rng.choice(["scalar", "array"])
        cls = rng.choice(classes)
        return rng.choice(self.operand_variants(cls))

    def nary_cells(self, rng, n):
        cells = []
        for _ in range(n):
            cfg = rng.choice(CFGS)
            fn = rng.choice(["series", "parallel", "append", "combine", "interconnect"])
            k = rng.randint(2, 4)
            # mostly compatible timebases so that long chains do not all fail
            pool = rng.choice([["N", "T", kwtok(0.1)], ["N", "Q0"], EXPL_TOK, ["N", "T", kwtok(0.25), "-"]])
            if fn == "combine":
                classes, consts = ("tf",), True
            elif fn == "append":
                classes, consts = ("ss", "tf"), True
            elif fn == "interconnect":
                classes, consts = ("ss", "tf", "nl", "ic"), False
            else:
                classes, consts = rng.choice([("ss", "tf"), ("ss", "tf", "frd"), ("ss", "tf", "nl", "ic")]), True
            xs = []
            for i in range(k):
                if consts and i > 0 and rng.random() < 0.15:
                    xs.append(rng.choice(["scalar", "array"]))
                    continue
                cls = rng.choice(classes)
                st = "1" if (cls != "frd" and rng.random() < 0.2) else "0"
                xs.append("%s:%s:%s" % (cls, st, rng.choice(pool)))
            kw = "-"
            if fn == "interconnect" and rng.random() < 0.4:
                kw = rng.choice(["N", "T", kwtok(0.1), "Q0"])
            cells.append({"k": "nary", "fn": fn, "kw": kw, "cfg": cfg, "xs": xs})
        return cells

    def rnd_tree(self, rng, depth, pool, classes):
        """SISO expression over + - * neg and division by a constant (operations that can only fail
        because of the timebases); constants appear only as direct operands of a system-valued
        subtree"""
        if depth == 0 or rng.random() < 0.2:
            cls = rng.choice(classes)
            st = "1" if (cls != "frd" and rng.random() < 0.15) else "0"
            return ["%s:%s:%s" % (cls, st, rng.choice(pool))]
        r = rng.random()
        if r < 0.12:
            return self.rnd_tree(rng, depth - 1, pool, classes) + ["neg"]
        const = [rng.choice(["scalar", "array"])]
        if r < 0.2:
            return self.rnd_tree(rng, depth - 1, pool, classes) + [rng.choice(["scalar"])] + ["div"]
        op = rng.choice(["add", "sub", "mul", "add", "mul"])
        left = self.rnd_tree(rng, depth - 1, pool, classes)
        right = self.rnd_tree(rng, depth - 1, pool, classes)
        r2 = rng.random()
        if r2 < 0.08:
            left = const
        elif r2 < 0.16:
            right = const
        return left + right + [op]

    def tree_cells(self, rng, n):
        cells = []
        for _ in range(n):
            cfg = rng.choice(CFGS)
            pool = rng.choice([["N", "T", kwtok(0.1)], ["N", "Q0"], ["N", "T", kwtok(0.25), "-"],
                               ["N", "N", "T", kwtok(0.1), kwtok(0.25)], EXPL_TOK])
            classes = rng.choice([("ss", "tf"), ("ss", "tf"), ("ss", "tf", "frd"), ("ss", "nl", "ic", "tf")])
            prog = self.rnd_tree(rng, rng.randint(1, 3), pool, classes)
            if len(prog) < 3:
                continue
            cells.append({"k": "tree", "cfg": cfg, "prog": prog})
        return cells

    def common_cells(self):
        cells = []
        vals = EXPL + [1, 1.0, 2]
        for x in vals:
            for y in vals:
                for sysf in (0, 1):
                    cells.append({"k": "common", "x": kwtok(x), "y": kwtok(y), "sys": sysf, "near": 0})
        return cells

    def near_cells(self):
        """dedicated stream for the np.isclose tolerance (known finding C05-isclose-tolerance)"""
        pairs = [(0, 1e-9), (0.1, 0.1000001), (1e-9, 0), (0.1000001, 0.1)]
        return [{"k": "common", "x": kwtok(x), "y": kwtok(y), "sys": s, "near": 1}
                for (x, y) in pairs for s in (0, 1)]

    def mk_cells(self):
        cells = []
        for cfg in CFGS:
            for cls in CLASSES:
                for a in self.operand_variants(cls):
                    cells.append({"k": "mk", "cfg": cfg, "a": a})
                    for via in ("positional", "class", "zpk", "rss", "classpos", "poskw", "mimo", "mimopos"):
                        try:
                            build_via(a, via)
                        except KeyError:
                            continue
                        except Exception:
                            pass
                        cells.append({"k": "mk", "cfg": cfg, "a": a, "via": via})
                for bad in ("Q-1", "Q-1/2", "O"):
                    cells.append({"k": "mk", "cfg": cfg, "a": "%s:0:%s" % (cls, bad)})
                    if cls in ("ss", "tf", "frd"):       # invalid value through the positional route
                        cells.append({"k": "mk", "cfg": cfg, "a": "%s:0:%s" % (cls, bad), "via": "classpos"})
        return cells

    def corpus(self):
        t01 = kwtok(0.1)
        return [
            {"k": "un", "op": "neg", "arg": None, "via": "op", "cfg": "Q0", "a": "frd:0:" + t01},
            {"k": "bin", "op": "add", "via": "func", "cfg": "Q0", "a": "frd:0:" + t01, "b": "frd:0:" + t01},
            {"k": "bin", "op": "add", "via": "func", "cfg": "Q0", "a": "frd:0:Q0", "b": "frd:0:" + t01},
            {"k": "bin", "op": "mul", "via": "func", "cfg": "Q0", "a": "frd:0:T", "b": "scalar"},
            {"k": "un", "op": "modred", "arg": None, "via": "truncate", "cfg": "Q0", "a": "ss:0:" + t01},
            {"k": "un", "op": "toNL", "arg": None, "via": "nlsys", "cfg": "Q0", "a": "ss:0:" + t01},
            {"k": "un", "op": "toFRD", "arg": None, "via": "frd", "cfg": "Q0", "a": "ss:0:N"},
            {"k": "un", "op": "pow", "arg": 0, "via": "op", "cfg": "Q0", "a": "tf:0:" + t01},
            {"k": "bin", "op": "append", "via": "method", "cfg": "Q0", "a": "tf:0:" + t01, "b": "tf:1:-"},
            {"k": "nary", "fn": "combine", "kw": "-", "cfg": "Q0", "xs": ["tf:0:N", "tf:0:" + t01]},
            {"k": "nary", "fn": "combine", "kw": "-", "cfg": "Q0", "xs": ["tf:0:T", "tf:0:" + t01]},
            {"k": "bin", "op": "mul", "via": "func", "cfg": "Q0", "a": "ss:0:N", "b": "ss:0:" + t01},
            {"k": "bin", "op": "add", "via": "func", "cfg": "Q0", "a": "tf:0:T", "b": "ss:0:" + t01},
            {"k": "bin", "op": "div", "via": "func", "cfg": "Q0", "a": "ss:0:Q0", "b": "ss:0:T"},
            # positional `dt=None` must mean "unspecified", not "use default_dt" (FRD.__getitem__ route)
            {"k": "un", "op": "getitem", "arg": None, "via": "row", "cfg": "Q0", "a": "frd:0:N", "m2": 1},
            {"k": "mk", "cfg": "T", "a": "frd:0:N", "via": "classpos"},
            {"k": "un", "op": "toFRD", "arg": None, "via": "class", "cfg": "Q0", "a": "frd:0:N"},
            # lft: a constant interconnection matrix / dt=True closed with a sampled controller; incompatible pairs
            {"k": "bin", "op": "lft", "via": "method", "cfg": "Q0", "a": "ss:1:-", "b": "ss:0:" + t01},
            {"k": "bin", "op": "lft", "via": "nuny", "cfg": "Q0", "a": "ss:0:T", "b": "tf:0:" + t01},
            {"k": "bin", "op": "lft", "via": "method", "cfg": "Q0", "a": "ss:0:Q0", "b": "ss:0:" + t01},
            {"k": "bin", "op": "lft", "via": "method", "cfg": "Q0", "a": "ss:0:" + t01, "b": "ss:0:" + kwtok(0.25)},
        ] + c05_expr.corpus()

    def generate(self, rng, tier):
        cells = []
        cells += self.mk_cells()
        cells += self.common_cells()
        cells += self.near_cells()
        if tier == "quick":
            cells += self.bin_cells("Q0", True, rng)
            for cfg in CFGS:
                cells += self.bin_cells(cfg, False, rng, frac=0.2)
            cells += self.un_cells("Q0", rng)
            for cfg in CFGS[1:]:
                cells += self.un_cells(cfg, rng)
            cells += self.getitem_cells(rng)
            cells += self.lft_cells(rng, tier) + self.fn_cells(rng, tier)      # (after C05-m6)
            cells += self.mimo_cells(rng, 0.25)
            cells += self.lic_cells(rng, 0.5)
            cells += self.nary_cells(rng, 350)
            cells += self.tree_cells(rng, 350)
        else:
            for cfg in CFGS:
                cells += self.bin_cells(cfg, False, rng)
                cells += self.un_cells(cfg, rng)
            # a second set of timebases: integer sampling times (int and float forms)
            cells += self.bin_cells("Q0", True, rng, toks=[kwtok(v) for v in (None, 0, True, 1, 2.5)])
            cells += self.getitem_cells(rng)
            cells += self.lft_cells(rng, tier) + self.fn_cells(rng, tier)      # (after C05-m6)
            cells += self.mimo_cells(rng, 1.0)
            cells += self.lic_cells(rng, 1.0)
            cells += self.nary_cells(rng, 3000)
            cells += self.tree_cells(rng, 3000)
        cells += c05_expr.cells(self, rng, tier)
        return cells

    # ---- driver line --------------------------------------------------------
    def line(self, c):
        k = c["k"]
        if k == "mk":
            return "dt mk %s %s" % (c["cfg"], c["a"])
        if k == "common":
            def d(t):
                v = kwval(t)
                return exact.dt_tok(v)
            return "dt common %s %s" % (d(c["x"]), d(c["y"]))
        if k == "bin":
            return "dt bin %s %s %s %s" % (c["op"], c["cfg"], c["a"], c["b"])
        if k == "un":
            op = c["op"]
            if op in ("pow", "sample"):
                op = "%s %s" % (op, c["arg"])
            return "dt un %s %s %s" % (op, c["cfg"], c["a"])
        if k == "nary":
            return "dt nary %s %s %s %s" % (c["fn"], c["kw"], c["cfg"], " ".join(c["xs"]))
        if k == "tree":
            return "dt tree %s %s" % (c["cfg"], " ".join(c["prog"]))
        if k == "expr":
            return c05_expr.line(c)
        if k == "fn":
            return "dtx %s %s" % (c["cfg"], " ".join(fn_prog(c)))
        raise ValueError(k)

    def parse_model(self, c, out):
        if c["k"] in ("expr", "fn"):
            return c05_expr.parse_model(c, out)
        t = out.split()
        if t[0] == "err":
            return {"err": t[1]}
        res = {}
        for f in t[1:]:
            if "=" not in f:
                res["dt"] = f          # mk / common: "ok <Dt>"
                continue
            key, val = f.split("=", 1)
            if key in ("A", "B"):
                res[key] = val
            else:
                if val.startswith("err:"):
                    res["R"] = {"err": val[4:]}
                elif val == "const":
                    res["R"] = {"err": "const"}
                else:
                    cls, dt = val.split(":", 1)
                    res["R"] = {"cls": cls, "dt": dt}
        return res

    # ---- the implementation -------------------------------------------------
    def impl(self, c):
        """never raises: an exception of the harness code itself (not of the operation under test, which
        is caught and classified where it is run) becomes a reported disagreement of this one cell
        instead of ending the run before the other cells are judged"""
        try:
            return self.impl_guarded(c)
        except Exception as e:  # noqa
            return {"err": "harness", "exc": "%s: %s" % (type(e).__name__, str(e)[:200]),
                    "tb": traceback.format_exc()[-600:]}

    def impl_guarded(self, c):
        from control import config
        k = c["k"]
        if k == "common":
            return self.impl_common(c)
        saved = config.defaults["control.default_dt"]
        config.defaults["control.default_dt"] = kwval(c["cfg"])
        try:
            return self.impl_cfg(c)
        finally:
            config.defaults["control.default_dt"] = saved

    def impl_common(self, c):
        x, y = kwval(c["x"]), kwval(c["y"])
        try:
            if c["sys"]:
                a = ct.tf([1.0], [1.0, 1.0], dt=x)
                b = ct.ss([[0.5]], [[1.0]], [[1.0]], [[0.0]], dt=y)
                r = ct.common_timebase(a, b)
            else:
                r = ct.common_timebase(x, y)
            return {"dt": exact.dt_canon(r)}
        except Exception as e:  # noqa
            return {"err": classify_exc(e), "exc": "%s: %s" % (type(e).__name__, str(e)[:120])}

    def impl_cfg(self, c):
        k = c["k"]
        if k == "expr":
            return c05_expr.impl(c)
        names = {"mk": ["a"], "bin": ["a", "b"], "un": ["a"]}.get(k)
        try:
            if k == "mk" and c.get("via"):
                ops = [build_via(c["a"], c["via"])]
            elif k == "bin" and c["op"] == "lft":
                ops = [build_upper(c["a"], lic=bool(c.get("lic")), n=3 if c.get("m3") else 2),
                       build(c["b"], mimo=bool(c.get("m3")))]
            elif k == "fn":
                ops = [None if x is None else (build_upper(x) if c.get("m2") else build(x)) for x in c["xs"]]
            elif k == "bin" and "mimo" in c:
                ops = [build(c["a"], bool(c["mimo"][0])), build(c["b"], bool(c["mimo"][1]))]
            elif k == "bin" and "lic" in c:
                ops = [build(c["a"], lic=bool(c["lic"][0])), build(c["b"], lic=bool(c["lic"][1]))]
            elif k == "un" and c.get("m2"):
                ops = [build(c["a"], mimo=True)]
            elif k in ("mk", "bin", "un"):
                ops = [build(c[n]) for n in names]
            elif k == "nary":
                ops = [build(x) for x in c["xs"]]
            else:
                ops = None
        except Exception as e:  # noqa
            return {"err": classify_exc(e), "exc": "%s: %s" % (type(e).__name__, str(e)[:120])}
        if k == "mk":
            return {"dt": opnd_dt(ops[0])}
        if k == "bin":
            res = {"A": opnd_dt(ops[0]), "B": opnd_dt(ops[1])}
            res["R"] = guarded(lambda: run_bin(c["op"], c["via"], ops[0], ops[1]))
            return res
        if k == "un":
            res = {"A": opnd_dt(ops[0])}
            res["R"] = guarded(lambda: run_un(c["op"], c["arg"], c["via"], ops[0]))
            return res
        if k == "fn":
            return {"L": [opnd_dt(o) for o in ops if o is not None], "R": guarded(lambda: run_fn(c, ops))}
        if k == "nary":
            res = {"L": [opnd_dt(o) for o in ops]}
            fn = c["fn"]

            def go():
                if fn == "series":
                    return ct.series(*ops)
                if fn == "parallel":
                    return ct.parallel(*ops)
                if fn == "append":
                    return ct.append(*ops)
                if fn == "combine":
                    return ct.combine_tf([ops])
                if fn == "interconnect":
                    kw = {} if c["kw"] == "-" else {"dt": kwval(c["kw"])}
                    return ct.interconnect(ops, inplist=[(0, 0)], outlist=[(0, 0)],
                                           check_unused=False, **kw)
                raise ValueError(fn)
            res["R"] = guarded(go)
            return res
        if k == "tree":
            leaves = []

            def go():
                st = []
                for t in c["prog"]:
                    if t == "neg":
                        st.append(-st.pop())
                    elif t in ("add", "sub", "mul", "div", "fb", "append"):
                        y = st.pop()
                        x = st.pop()
                        if t in ("fb", "append") and not hasattr(x, "dt"):
                            raise TypeError("constant on the left of %s" % t)
                        st.append(run_bin(t, "method" if t == "append" else "func", x, y))
                    else:
                        o = build(t)
                        leaves.append(opnd_dt(o))
                        st.append(o)
                return st[0]
            r = guarded(go)
            return {"L": leaves, "R": r}
        raise ValueError(k)

    # ---- comparison -----------------------------------------------------------
    def feat(self, c, kind, **more):
        f = {"kind": kind, "k": c["k"]}
        if c["k"] in ("bin", "un"):
            f["op"] = c["op"]
            f["cls"] = c["a"].split(":")[0] + ("/" + c["b"].split(":")[0] if c["k"] == "bin" else "")
        if c["k"] in ("nary", "fn"):
            f["op"] = c["fn"]
        if c["k"] == "expr":
            f["op"] = c05_expr.opset(c)
        f.update(more)
        return f

    def compare(self, c, impl, model):
        k = c["k"]
        if isinstance(impl, dict) and impl.get("err") == "harness":
            return Verdict(DIFFERS, "the harness adapter failed on this cell: %s\n%s" % (impl["exc"], impl.get("tb", "")),
                           self.feat(c, "harness-impl", exc=impl["exc"].split(":")[0]))
        if k == "mk":
            if "err" in model or "err" in impl:
                if "err" in model and "err" in impl:
                    if model["err"] == impl["err"]:
                        return Verdict(AGREE)
                    return Verdict(DIFFERS, "error kinds differ: model %s impl %s" % (model, impl),
                                   self.feat(c, "factory-error-kind"))
                return Verdict(VIOLATES, "factory: model %s, implementation %s" % (model, impl),
                               self.feat(c, "factory-raise", model=str(model.get("err")), impl=str(impl.get("err"))))
            if model["dt"] == impl["dt"]:
                return Verdict(AGREE)
            return Verdict(VIOLATES, "factory timebase: model %s, implementation %s" % (model["dt"], impl["dt"]),
                           self.feat(c, "factory-dt", cls=c["a"].split(":")[0]))
        if k == "common":
            x, y = exact.dt_canon(kwval(c["x"])), exact.dt_canon(kwval(c["y"]))
            strict = pyjoin(x, y)
            if "err" in impl:
                if strict == "ERR" and impl["err"] == "timebase":
                    if "err" in model and model["err"] == "timebase":
                        return Verdict(AGREE)
                    return Verdict(DIFFERS, "model %s, implementation raises" % model, self.feat(c, "common-model"))
                return Verdict(VIOLATES, "common_timebase(%s, %s) raised %s" % (x, y, impl.get("exc")),
                               self.feat(c, "common-spurious-error"))
            if strict == "ERR":
                near = self.is_near(x, y)
                return Verdict(VIOLATES, "common_timebase(%s, %s) returned %s for two different timebases"
                               % (x, y, impl["dt"]),
                               self.feat(c, "isclose-tolerance" if near else "common-accepts-different",
                                         near=bool(near)))
            if impl["dt"] != strict:
                return Verdict(VIOLATES, "common_timebase(%s, %s) = %s, expected %s" % (x, y, impl["dt"], strict),
                               self.feat(c, "common-value"))
            if model.get("dt") != impl["dt"]:
                return Verdict(DIFFERS, "model %s, implementation %s" % (model, impl), self.feat(c, "common-model"))
            return Verdict(AGREE)

        # bin / un / nary / tree
        if "err" in impl and "R" not in impl:
            if "err" in model and "R" not in model:
                return Verdict(AGREE)
            return Verdict(DIFFERS, "operand construction raised %s" % impl.get("exc"),
                           self.feat(c, "operand-raise"))
        if "err" in model and "R" not in model:
            return Verdict(DIFFERS, "model rejects an operand (%s), implementation builds it" % model["err"],
                           self.feat(c, "operand-model-raise"))
        for key in ("A", "B"):
            if key in model and model[key] != impl.get(key):
                return Verdict(VIOLATES, "operand %s timebase: model %s, implementation %s"
                               % (key, model[key], impl.get(key)),
                               self.feat(c, "operand-dt"))
        if k == "expr" and c.get("near"):
            return c05_expr.compare_near(self, c, impl, model)
        if k == "expr" and model.get("L") != impl.get("L"):
            return c05_expr.leaves_verdict(self, c, impl, model)
        mr, ir = model["R"], impl["R"]
        # what the property itself demands, from the implementation's own operand timebases
        if k == "bin":
            want = pyjoin(impl["A"], impl["B"])
        elif k == "un":
            want = impl["A"]
            if c["op"] == "sample":
                want = "D" + tok(fr(float(Fraction(c["arg"]))))
        elif k == "expr":
            want = impl["W"]
        else:
            want = pyjoin_all(impl["L"])
            if k == "nary" and c["fn"] == "interconnect" and c["kw"] != "-":
                want = pyjoin(exact.dt_canon(kwval(c["kw"])), want)
        if "dt" in mr:
            if "dt" in ir:
                if ir["dt"] == mr["dt"]:
                    return Verdict(AGREE)
                if ir["dt"] != want:
                    return Verdict(VIOLATES, "result timebase %s, the common timebase is %s (model %s)"
                                   % (ir["dt"], want, mr["dt"]),
                                   self.feat(c, "result-dt", got=self.dtclass(ir["dt"]), want=self.dtclass(want)))
                return Verdict(DIFFERS, "model %s but implementation %s = property" % (mr["dt"], ir["dt"]),
                               self.feat(c, "model-result"))
            if ir["err"] == "timebase":
                return Verdict(VIOLATES, "compatible timebases (common %s) rejected: %s" % (want, ir.get("exc")),
                               self.feat(c, "spurious-timebase-error"))
            return Verdict(DIFFERS, "model %s, implementation raised %s" % (mr["dt"], ir.get("exc")),
                           self.feat(c, "unexpected-exception", exc=ir["err"]))
        # model raises
        me = mr["err"]
        if "err" in ir:
            if me == "timebase" and ir["err"] not in ("timebase",):
                # incompatible timebases rejected through another exception class: still rejected
                return Verdict(AGREE, "", {"note": "other-exception"})
            return Verdict(AGREE)
        # implementation returned a system where the model raises
        if me == "timebase" or want == "ERR":
            return Verdict(VIOLATES, "incompatible timebases accepted: result timebase %s" % ir["dt"],
                           self.feat(c, "accepted-incompatible", got=self.dtclass(ir["dt"])))
        if me == "notImplemented":
            # operation the model lists as unsupported now returns: the property still applies
            if ir["dt"] == want:
                return Verdict(AGREE, "", {"note": "newly-supported"})
            return Verdict(VIOLATES, "result timebase %s, the common timebase is %s" % (ir["dt"], want),
                           self.feat(c, "result-dt", got=self.dtclass(ir["dt"]), want=self.dtclass(want)))
        return Verdict(DIFFERS, "model raises %s, implementation returns %s" % (me, ir),
                       self.feat(c, "model-raises"))

    @staticmethod
    def dtclass(t):
        return t if t in ("N", "C", "T", "ERR", "-") else "D"

    @staticmethod
    def is_near(x, y):
        def num(t):
            return Fraction(0) if t == "C" else (Fraction(t[1:]) if t[0] == "D" else None)
        a, b = num(x), num(y)
        if a is None or b is None or a == b:
            return False
        return abs(a - b) <= Fraction(1, 10 ** 8) + Fraction(1, 10 ** 5) * abs(b)

    # ---- bookkeeping ------------------------------------------------------------
    def nontrivial(self, c, model):
        k = c["k"]
        if k == "mk":
            return True
        if k == "common":
            return not (c["x"] == "N" and c["y"] == "N")
        if k == "expr":
            return c05_expr.nontrivial(c)
        toks = []
        if k == "bin":
            toks = [c["a"], c["b"]]
        elif k == "un":
            toks = [c["a"]]
        elif k in ("nary", "fn"):
            toks = [x for x in c["xs"] if x is not None]
        else:
            toks = [t for t in c["prog"] if ":" in t]
        return any(":" in t and t.split(":")[2] != "N" for t in toks)

    def stats(self, c, impl, model):
        s = {"kind": c["k"], "cfg": c.get("cfg", "-")}
        if c["k"] in ("bin", "un"):
            s["op"] = c["op"]
        if c["k"] == "un" and c["op"] == "getitem":
            s["key"] = c["via"] + ("/2x2" if c.get("m2") else "/siso")
        if c["k"] == "un" and c["op"] in ("toSS", "toTF", "toFRD", "toNL"):
            s["route"] = "%s/%s" % (c["op"], c["via"])
        if c["k"] == "mk":
            s["via"] = c.get("via", "factory")
        if c["k"] in ("nary", "fn"):
            s["op"] = c["fn"]
        if c["k"] == "bin" and c["op"] == "lft":
            s["lft"] = "lic" if c.get("lic") else ("3x3" if c.get("m3") else c["via"])
        if "mimo" in c:
            s["mimo"] = "%d%d" % tuple(c["mimo"])
        if "lic" in c:
            s["lic"] = "%d%d" % tuple(c["lic"])
        if isinstance(model, dict) and "R" in model:
            r = model["R"]
            s["model_result"] = self.dtclass(r["dt"]) if "dt" in r else "err:" + r["err"]
        if isinstance(impl, dict) and "R" in impl and "err" in impl["R"]:
            s["impl_exc"] = impl["R"]["err"]
        return s

    def shrink(self, c):
        out = []
        if c["k"] == "nary" and len(c["xs"]) > 2:
            for i in range(len(c["xs"])):
                d = dict(c)
                d["xs"] = c["xs"][:i] + c["xs"][i + 1:]
                if ":" in d["xs"][0]:
                    out.append(d)
        return out


from families import select_streams as _sel      # direct stream for the timebase predicates
FAMILY = _sel.extend(C05, _sel.DtPredStream())
