"""C06, transfer-function stream: `forced_response / step_response / impulse_response` called on a
SISO `TransferFunction` (discrete time), against the Lean model `tf2ssList` + `forced/step/impulse`
(driver family `trtf`, lean/CtrlVerif/Driver/TimeRespTF.lean).

What is compared is the input/output behaviour only (time, outputs, inputs) — Props/C06Real.lean
proves that it does not depend on the realisation the conversion picks (`realisations_from_rest`,
`tf_from_rest`): the outputs from rest are the convolution of the input with the long division of
`num` by `den`.  The driver checks that identity on every case with grid spacing = sampling time
(`model-error` otherwise) and prints the long-division sequence `H`, which this module checks
again independently against the implementation's impulse response.

`with_tf(Base)` extends the C06 family: cases whose `op` starts with "tf" are handled here,
everything else by `Base`.  Each tf case carries the exact controller-canonical realisation as
`case["sys"]`, so that the regime / tolerance / feature helpers of `Base` apply unchanged."""
import warnings
from fractions import Fraction

import numpy as np
import control as ct

from core.runner import Verdict, AGREE, VIOLATES, DIFFERS
from core.exact import fr, tok, Tokens

F = Fraction
TF_OPS = ("tfforced", "tfstep", "tfimpulse")


def ccf_sys(num, den, dt):
    """exact controller canonical form of num/den (what scipy.signal.tf2ss builds), as a `sys`
    dict of the C06 case encoding; None if not proper."""
    d = [F(x) for x in den]
    while d and d[0] == 0:
        d = d[1:]
    nu = [F(x) for x in num]
    if not d or len(nu) > len(d):
        return None
    n = len(d) - 1
    a = [x / d[0] for x in d]
    b = [F(0)] * (len(d) - len(nu)) + nu
    b = [x / d[0] for x in b]
    A = [(-a[j + 1] if i == 0 else (F(1) if i == j + 1 else F(0))) for i in range(n) for j in range(n)]
    B = [F(1) if i == 0 else F(0) for i in range(n)]
    C = [b[j + 1] - b[0] * a[j + 1] for j in range(n)]
    s = lambda v: [tok(x) for x in v]
    return {"n": n, "p": 1, "m": 1, "dt": dt, "A": s(A), "B": s(B), "C": s(C), "D": s([b[0]])}


def with_tf(Base):
    import sys as _sys
    base_mod = _sys.modules[Base.__module__]

    class C06WithTF(Base):
        rule = Base.rule + (
            "; transfer-function stream: SISO TransferFunction num/den of degree 0..4 (integer / "
            "half-integer coefficients, leading denominator coefficient 1, -1, 2, 1/2 or 3, "
            "numerator degree <= denominator degree, a few improper ones), timebases True, None, "
            "dt, grids at 1x / 2x the sampling time, forced_response with scalar / 1-D / 2-D input, "
            "step_response, impulse_response; only time, outputs and inputs are compared")
        assumptions = list(Base.assumptions) + [
            "transfer-function stream: the states returned for a TransferFunction are not compared "
            "(they depend on the realisation; the theorems of Props/C06Real.lean say the outputs do "
            "not); continuous-time transfer functions are not generated"]

        # ---- generation -----------------------------------------------------
        def gen_tf(self, rng):
            op = rng.choice(["tfforced", "tfforced", "tfforced", "tfstep", "tfimpulse"])
            dt = rng.choice(["T", "N", "D1", "D1/2", "D1/4", "D2", "D1/10", "D1/5"])
            n = rng.choice([0, 1, 1, 2, 2, 2, 3, 3, 4])
            half = rng.random() < 0.2
            q = (lambda: F(rng.randint(-3, 3), 2)) if half else (lambda: F(rng.randint(-3, 3)))
            den = [F(rng.choice([1, 1, 1, 1, -1, 2, F(1, 2), 3]))] + [q() for _ in range(n)]
            improper = rng.random() < 0.04
            ln = n + 2 if improper else rng.randint(1, n + 1)
            num = [q() for _ in range(ln)]
            if ln > 1 and num[0] == 0:
                num[0] = F(rng.choice([-2, -1, 1, 2]))
            if dt in ("T", "N"):
                h = rng.choice([1, 1, 1, F(1, 2), 2])
            else:
                h = F(dt[1:]) * rng.choice([1, 1, 1, 1, 2])
            T = self.rgrid(rng, h)
            k = len(T["vals"])
            c = {"op": op, "num": [tok(x) for x in num], "den": [tok(x) for x in den], "dt": dt, "T": T,
                 "sys": ccf_sys(num, den, dt)}
            if c["sys"] is None:
                c["sys"] = {"n": 0, "p": 1, "m": 1, "dt": dt, "A": [], "B": [], "C": [], "D": ["0"]}
                c["improper"] = True
            if op == "tfforced":
                U = self.rU(rng, 1, k, zero_ok=False)
                c["U"] = U
            return c

        def generate(self, rng, tier):
            out = Base.generate(self, rng, tier)
            n = 120 if tier == "quick" else 3000
            return out + [self.gen_tf(rng) for _ in range(n)]

        def corpus(self):
            grid = lambda h, k: {"vals": [tok(F(h) * i) for i in range(k)], "form": "exact"}
            mk = lambda op, num, den, dt, T, **kw: dict(
                {"op": op, "num": num, "den": den, "dt": dt, "T": T, "sys": ccf_sys(num, den, dt)}, **kw)
            return list(Base.corpus(self)) + [
                # (2 z + 1)/(z^2 - z - 1): impulse response 0, 2, 3, 5, 8
                mk("tfforced", ["2", "1"], ["1", "-1", "-1"], "T", grid(1, 5), U=["V", ["1", "0", "0", "0", "0"], "float"]),
                mk("tfimpulse", ["1", "0"], ["1", "-2"], "D1/2", grid(F(1, 2), 4)),
                mk("tfstep", ["1", "0"], ["1", "-2"], "D1/2", grid(F(1, 2), 4)),
            ]

        # ---- execution --------------------------------------------------------
        def line(self, case):
            if case["op"] not in TF_OPS:
                return Base.line(self, case)
            T = case["T"]
            tt = ("T %d %s" % (len(T["vals"]), " ".join(T["vals"]))).rstrip()
            lst = lambda v: ("%d %s" % (len(v), " ".join(v))).rstrip()
            head = "trtf %s %s %s %s %s" % (case["op"][2:], case["dt"], lst(case["num"]), lst(case["den"]), tt)
            if case["op"] == "tfforced":
                return head + " " + base_mod.arr_tokens(case["U"])
            return head

        def impl(self, case):
            if case["op"] not in TF_OPS:
                return Base.impl(self, case)
            try:
                with warnings.catch_warnings():
                    warnings.simplefilter("ignore")
                    sys = ct.tf([float(F(x)) for x in case["num"]], [float(F(x)) for x in case["den"]],
                                dt=base_mod.dt_value(case["dt"]))
                    T = base_mod.time_value(case["T"])
                    Tin = [tok(fr(x)) for x in np.asarray(T, dtype=float).reshape(-1)]
                    if case["op"] == "tfforced":
                        r = ct.forced_response(sys, T, base_mod.arr_value(case["U"]), squeeze=False)
                    elif case["op"] == "tfstep":
                        r = ct.step_response(sys, T, squeeze=False)
                    else:
                        r = ct.impulse_response(sys, T, squeeze=False)
                    t = [tok(fr(x)) for x in np.asarray(r.time, dtype=float).reshape(-1)]
                    y = np.asarray(r.outputs, dtype=float)
                    u = np.asarray(np.asarray(r.inputs).tolist(), dtype=float)
                    k = len(t)
                    if y.size != k or u.size != k:
                        return {"ok": {"t": t, "badshape": [list(y.shape), list(u.shape)]}}
                    col = lambda a: [[tok(fr(v))] for v in a.reshape(-1)]
                    return {"ok": {"t": t, "y": col(y), "u": col(u), "yshape": list(y.shape)}, "Tin": Tin}
            except Exception as e:  # noqa
                return {"err": base_mod.classify_exc(e), "exc": "%s: %s" % (type(e).__name__, str(e)[:200])}

        def parse_model(self, case, out):
            if case["op"] not in TF_OPS:
                return Base.parse_model(self, case, out)
            if out.startswith("err "):
                return {"err": out.split()[1]}
            tk = Tokens(out)
            assert tk.next() == "ok"
            bits = int(tk.next().split("=")[1])
            assert tk.next() == "T"
            t = [tk.next() for _ in range(tk.nat())]

            def block(tag):
                assert tk.next() == tag
                w, k = tk.nat(), tk.nat()
                return [[tk.next() for _ in range(w)] for _ in range(k)]
            h = None
            if case["op"] == "tfforced":
                y, u = block("Y"), block("U")
                assert tk.next() == "H"
                h = [tk.next() for _ in range(tk.nat())]
            else:
                assert tk.next() == "NTR" and tk.nat() == 1
                block("X")
                y, u = block("Y"), block("U")
            assert tk.done()
            return {"ok": {"t": t, "y": y, "u": u}, "bits": bits, "h": h}

        # ---- comparison ---------------------------------------------------------
        def tf_features(self, case, kind, impl=None):
            f = self.features(case, kind, impl)
            f["system"] = "tf"
            return f

        def compare(self, case, impl, model):
            if case["op"] not in TF_OPS:
                return Base.compare(self, case, impl, model)
            if "err" in model:
                if "err" in impl:
                    return Verdict(AGREE)
                return Verdict(DIFFERS, "model rejects the arguments (%s), implementation returns" % model["err"],
                               self.tf_features(case, "returns-" + model["err"], impl))
            if "err" in impl:
                return Verdict(VIOLATES, "implementation raises %s where the response exists" % impl["exc"],
                               self.tf_features(case, "raises", impl))
            a, b = impl["ok"], model["ok"]
            if "badshape" in a:
                return Verdict(DIFFERS, "array shapes %s" % a["badshape"], self.tf_features(case, "rank", impl))
            if a["t"] != impl["Tin"]:
                return Verdict(VIOLATES, "returned times %s differ from the requested %s" % (a["t"], impl["Tin"]),
                               self.tf_features(case, "time", impl))
            d = self.arrays_differ([a["t"]], [b["t"]], False)
            if d is not None:
                return Verdict(VIOLATES, "time vector: " + d, self.tf_features(case, "time", impl))
            ex = self.regime(case, model) == "E" and self.den_pow2(case)
            floor = F(0) if ex else self.noise_floor(case) * self.tf_scale(case) * (10 if case["op"] == "tfimpulse" else 1)
            for nm, what, fl in (("y", "outputs", floor), ("u", "inputs", F(0))):
                d = self.arrays_differ(a[nm], b[nm], ex, fl)
                if d is not None:
                    kind = "shape" if d.startswith("shape") else "value-" + what
                    return Verdict(VIOLATES, "%s of the transfer function %s/%s: %s" % (
                        what, case["num"], case["den"], d), self.tf_features(case, kind, impl))
            return Verdict(AGREE)

        def den_pow2(self, case):
            a0 = abs(F(case["den"][0]))
            return a0.numerator & (a0.numerator - 1) == 0 and a0.denominator & (a0.denominator - 1) == 0

        def tf_scale(self, case):
            s = case["sys"]
            return F(max([1.0] + [abs(float(F(x))) for x in s["C"]]) * max(1, s["n"]))

        def nontrivial(self, case, model):
            if case["op"] not in TF_OPS:
                return Base.nontrivial(self, case, model)
            if "ok" not in model or case["sys"]["n"] == 0 or len(model["ok"]["t"]) < 3:
                return False
            return any(F(v) != 0 for row in model["ok"]["y"] for v in row)

        def stats(self, case, impl, model):
            if case["op"] not in TF_OPS:
                return Base.stats(self, case, impl, model)
            st = {"op": case["op"], "timebase": self.timebase(case), "nstates": case["sys"]["n"],
                  "io": "tf", "outcome": ("err:" + model["err"]) if "err" in model else "ok"}
            inc = self.inc_of(case)
            st["inc"] = str(inc) if inc.denominator == 1 else "non-integer"
            if "ok" in model:
                st["regime"] = "E" if (self.regime(case, model) == "E" and self.den_pow2(case)) else "T"
                st["steps"] = min(len(model["ok"]["t"]), 10)
                st["long_division_checked"] = str(inc == 1 and case["op"] in ("tfforced", "tfstep"))
            if "U" in case:
                st["Uform"] = case["U"][0]
            if case.get("improper"):
                st["malformed"] = "improper"
            if "err" in model and "err" in impl:
                st["errkind_equal"] = impl["err"] == model["err"]
            return st

        def shrink(self, case):
            if case["op"] not in TF_OPS:
                yield from Base.shrink(self, case)
                return
            import copy
            T = case["T"]
            k = len(T["vals"])
            if k > 2:
                c = copy.deepcopy(case)
                c["T"]["vals"] = T["vals"][:-1]
                if "U" in c:
                    U = c["U"]
                    if U[0] == "V" and len(U[1]) == k:
                        U[1] = U[1][:-1]
                    elif U[0] == "M" and U[2] == k:
                        U[3] = U[3][:k - 1]
                        U[2] = k - 1
                yield c
            if F(T["vals"][0]) != 0:
                c = copy.deepcopy(case)
                t0 = F(T["vals"][0])
                c["T"]["vals"] = [tok(F(x) - t0) for x in T["vals"]]
                yield c
            if T["form"] != "exact":
                c = copy.deepcopy(case)
                c["T"]["form"] = "exact"
                yield c
            if len(case["den"]) > 1 and len(case["num"]) < len(case["den"]):
                c = copy.deepcopy(case)
                c["den"] = case["den"][:-1]
                c["sys"] = ccf_sys(c["num"], c["den"], c["dt"])
                if c["sys"] is not None:
                    yield c
            for key in ("num", "den"):
                for i in range(1 if key == "den" else 0, len(case[key])):
                    if F(case[key][i]) != 0:
                        c = copy.deepcopy(case)
                        c[key][i] = "0"
                        c["sys"] = ccf_sys(c["num"], c["den"], c["dt"])
                        if c["sys"] is not None:
                            yield c

        def search(self, rng, case, tier):
            if case["op"] not in TF_OPS:
                return Base.search(self, rng, case, tier)
            return [self.gen_tf(rng) for _ in range(200)]

    C06WithTF.__name__ = Base.__name__
    return C06WithTF
