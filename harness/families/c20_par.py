"""C20 (parameter part) — user-defined flat systems that DECLARE DEFAULT PARAMETERS
(`FlatSystem(forward, reverse, updfcn, params={…})`) and planning calls that pass `params=`:
correspondence between control.flatsys (point_to_point with / without cost, solve_flat_optimal,
SystemTrajectory.eval; the dict the library hands to the user's forward / reverse) together with
`NonlinearIOSystem.dynamics(…, params=)` and the Lean model `CtrlVerif.Model.FlatParams` (driver
line `flat par …`).

Systems: the multi-chain Brunovsky forms of families/c20_multi.py seen through changes of state /
input coordinates whose coefficients DEPEND ON PARAMETERS  (x = P (xi + s(xi, p)),
u = G v + q(xi, p), s and q polynomial in xi and linear in the parameters): forward, reverse and
the dynamics are polynomial maps in (x, u, p), computed symbolically.  The user's callables read
each parameter the way user code does — `params.get(key, fallback)` or `params[key]`.

case = {"kind": "par", "sys": {n, m, len, np, fwd, rev, dyn, core, reads, decl, ctor}, "arg": None | {...},
        "fr": {x, u, z}, "p2p": {...}}

Property oracle (on the implementation's own outputs, exact arithmetic):
  * both end points;
  * d/dt x(t) = f(x(t), u(t); rho) where rho are the parameter values `sys.dynamics(t, x, u, params=arg)`
    reads, i.e. the reads on `{**sys.params, **arg}` (`_update_params`); the harness also asks the
    implementation's `dynamics` for the same value (`dynamics-value`);
  * the same for the trajectory returned by point_to_point with a cost and by solve_flat_optimal
    (initial point + feasibility; the optimiser is external).
"""
import re
import warnings
from fractions import Fraction

import numpy as np
import control.flatsys as fs

from core.runner import Verdict, AGREE, VIOLATES, DIFFERS
from core.exact import fr, tok
from families import c20_multi as cm
from families.c20_multi import MP, F, ftok, vals, TOL

MAXDEG = 5
MAXTERMS = 40
PVALS = [Fraction(v) for v in (-2, -1, 1, 2, 3)] + [Fraction(-1, 2), Fraction(1, 2), Fraction(3, 2), Fraction(1, 4)]
KEYNAMES = ["k%d" % i for i in range(8)]          # key number a is the Python key 'k<a>'


def classify_exc(e):
    if isinstance(e, KeyError):
        return "unknownName"
    return cm.classify_exc(e)


# ---------------------------------------------------------------------------------------------
# symbolic construction (variables: (x, u, p) resp. (flag, p))
# ---------------------------------------------------------------------------------------------
def build_system_par(r, P, Pi, G, Gi, shears, q, npar):
    """as c20_multi.build_system, with `npar` parameter variables appended to every variable list;
    shears[j] and q[i] are MPs in the n + npar variables (xi, p)"""
    m = len(r)
    n = sum(r)
    pos = {}
    a = 0
    for i in range(m):
        for k in range(r[i]):
            pos[(i, k)] = a
            a += 1
    nv = n + m + npar
    X = [MP.var(nv, j) for j in range(n)]
    U = [MP.var(nv, n + i) for i in range(m)]
    PV = [MP.var(nv, n + m + a) for a in range(npar)]
    y = []
    for j in range(n):
        s = MP(nv)
        for l in range(n):
            if Pi[j][l]:
                s = s + X[l].scale(Pi[j][l])
        y.append(s)
    xi = []
    for j in range(n):
        if j in shears:
            sub = xi + [MP(nv)] * (n - len(xi)) + PV
            xi.append(y[j] - shears[j].subst(sub, nv))
        else:
            xi.append(y[j])
    w = [U[i] - q[i].subst(xi + PV, nv) for i in range(m)]
    v = []
    for i in range(m):
        s = MP(nv)
        for l in range(m):
            if Gi[i][l]:
                s = s + w[l].scale(Gi[i][l])
        v.append(s)
    lens = [r[i] + 1 for i in range(m)]
    fwd = []
    for i in range(m):
        for k in range(r[i]):
            fwd.append(xi[pos[(i, k)]])
        fwd.append(v[i])
    total = sum(lens)
    tv = total + npar
    off = [sum(lens[:i]) for i in range(m)]
    Z = lambda i, k: MP.var(tv, off[i] + k)
    PZ = [MP.var(tv, total + a) for a in range(npar)]
    xiz = [None] * n
    for (i, k), a in pos.items():
        xiz[a] = Z(i, k)
    vz = [Z(i, r[i]) for i in range(m)]
    inner = [xiz[j] + (shears[j].subst(xiz + PZ, tv) if j in shears else MP(tv)) for j in range(n)]
    rev = []
    for j in range(n):
        s = MP(tv)
        for l in range(n):
            if P[j][l]:
                s = s + inner[l].scale(P[j][l])
        rev.append(s)
    for i in range(m):
        s = q[i].subst(xiz + PZ, tv)
        for l in range(m):
            if G[i][l]:
                s = s + vz[l].scale(G[i][l])
        rev.append(s)
    xidot = [None] * n
    for (i, k), a in pos.items():
        xidot[a] = xi[pos[(i, k + 1)]] if k + 1 < r[i] else v[i]
    inner_dot = []
    for j in range(n):
        s = xidot[j]
        if j in shears:
            for l in range(n):
                d = shears[j].diff(l)
                if d.t:
                    s = s + d.subst(xi + PV, nv) * xidot[l]
        inner_dot.append(s)
    dyn = []
    for j in range(n):
        s = MP(nv)
        for l in range(n):
            if P[j][l]:
                s = s + inner_dot[l].scale(P[j][l])
        dyn.append(s)
    return {"n": n, "m": m, "len": lens, "fwd": fwd, "rev": rev, "dyn": dyn}


def gen_system(rng):
    for _ in range(400):
        m = rng.choice([1, 1, 2, 2])
        r = [rng.choice([1, 1, 2, 2, 3] if m == 1 else [0, 1, 1, 2]) for _ in range(m)]
        n = sum(r)
        if not (1 <= n <= 4):
            continue
        npar = rng.choice([1, 1, 2, 2, 3])
        style = rng.choice(["linear", "linear", "poly"])
        P, Pi = cm.unimodular(rng, n, rng.randint(0, 2))
        G, Gi = cm.unimodular(rng, m, rng.randint(0, 1))
        if max(abs(x) for row in P + Pi + G + Gi for x in row) > 3:
            continue
        ne = n + npar
        XI = [MP.var(ne, j) for j in range(n)]
        PV = [MP.var(ne, n + a) for a in range(npar)]
        cf = lambda: Fraction(rng.choice([-2, -1, -1, 1, 1, 2, 1, -1]), rng.choice([1, 1, 2]))
        q = [MP(ne) for _ in range(m)]
        shears = {}
        # every parameter enters the input transformation of some chain that drives a state
        driving = [i for i in range(m) if r[i] > 0]
        for a in range(npar):
            i = rng.choice(driving)
            kind = rng.random()
            if kind < 0.6:
                q[i] = q[i] + (PV[a] * XI[rng.randrange(n)]).scale(cf())        # stiffness / damping
            elif kind < 0.8:
                q[i] = q[i] + PV[a].scale(cf())                                 # constant force
            else:
                q[i] = q[i] + (PV[a] * XI[rng.randrange(n)] * XI[rng.randrange(n)]).scale(cf())
        for i in range(m):
            for j in range(n):
                if rng.random() < 0.25:
                    q[i] = q[i] + XI[j].scale(cf())
        if style == "poly" and n >= 2:
            j = rng.randrange(1, n)
            a_, b_ = rng.randrange(j), rng.randrange(j)
            sh = (XI[a_] * XI[b_]).scale(cf())
            if rng.random() < 0.5:
                sh = sh * PV[rng.randrange(npar)]                                # parameter in the state map
            shears[j] = sh
        S = build_system_par(r, P, Pi, G, Gi, shears, q, npar)
        allp = S["fwd"] + S["rev"] + S["dyn"]
        if max(p.degree() for p in allp) > MAXDEG or max(len(p.t) for p in allp) > MAXTERMS:
            continue
        if max(abs(c) for p in allp for c in p.t.values()) > 32:
            continue
        if any(c.denominator & (c.denominator - 1) for p in allp for c in p.t.values()):
            continue
        nm = S["n"] + S["m"]
        if not all(any(e[nm + a] for p in S["dyn"] for e in p.t) for a in range(npar)):
            continue            # every parameter that is read matters for the dynamics
        # how the callables read their parameters, what the system declares
        reads = []
        for a in range(npar):
            fb = rng.choice(PVALS)
            reads.append({"key": a, "fb": None if rng.random() < 0.2 else tok(fb)})
        rr = rng.random()
        if rr < 0.08:
            decl = None                                  # no `params=` at construction
        else:
            decl = {}
            for a in range(npar):
                if rr < 0.55 or rng.random() < 0.7:      # mostly: every parameter declared
                    fbv = reads[a]["fb"]
                    if fbv is not None and rng.random() < 0.5:
                        decl[str(a)] = fbv               # the documented idiom: same value twice
                    else:
                        decl[str(a)] = tok(rng.choice([v for v in PVALS if fbv is None or v != F(fbv)]))
            if rng.random() < 0.2:
                decl[str(npar)] = tok(rng.choice(PVALS))  # a declared parameter nobody reads
        return {"n": S["n"], "m": S["m"], "len": S["len"], "np": npar,
                "fwd": [p.to_json() for p in S["fwd"]], "rev": [p.to_json() for p in S["rev"]],
                "dyn": [p.to_json() for p in S["dyn"]], "core": list(range(sum(S["len"]))),
                "reads": reads, "decl": decl, "style": style,
                "ctor": rng.choice(["FlatSystem", "flatsys3", "flatsys-kw"])}
    raise RuntimeError("no system generated")


def gen_arg(rng, s):
    """the `params=` argument of the planning call"""
    npar, decl = s["np"], s["decl"] or {}
    r = rng.random()
    if r < 0.12:
        return None, "none"
    if r < 0.17:
        return {}, "empty"
    keys = list(range(npar))
    other = lambda a: tok(rng.choice([v for v in PVALS if str(a) not in decl or v != F(decl[str(a)])]))
    if r < 0.62 or npar == 1:
        arg = {str(a): other(a) for a in keys}
        cls = "full"
    else:
        sub = rng.sample(keys, rng.randint(1, npar - 1))
        arg = {str(a): other(a) for a in sorted(sub)}
        cls = "partial"
    if rng.random() < 0.12:
        arg[str(npar + 1)] = tok(rng.choice(PVALS))       # a key nobody reads
    return arg, cls


# ---------------------------------------------------------------------------------------------
# parameter resolution (harness side; independent of the model, used by the oracle / diagnosis)
# ---------------------------------------------------------------------------------------------
def read_on(reads, dct):
    """values the callables read on the dict `dct` ({key number as str: token}); None = KeyError"""
    out = []
    for rd in reads:
        k = str(rd["key"])
        if k in dct:
            out.append(F(dct[k]))
        elif rd["fb"] is not None:
            out.append(F(rd["fb"]))
        else:
            return None
    return out


def resolutions(s, arg):
    decl = s["decl"] or {}
    o = arg or {}
    return {
        "dynamics": read_on(s["reads"], {**decl, **o}),            # `_update_params`: the requested values
        "argument-replaces-defaults": read_on(s["reads"], decl if arg is None else o),
        "defaults-over-argument": read_on(s["reads"], {**o, **decl}),
        "argument-ignored": read_on(s["reads"], decl),
        "fallbacks-only": read_on(s["reads"], {}),
    }


def specialise(pj, nv, rho):
    """polynomial in nv + len(rho) variables (JSON) at the parameter values rho -> MP in nv variables"""
    t = {}
    for c, e in pj:
        cc = Fraction(c)
        for a, k in enumerate(e[nv:]):
            if k:
                cc *= rho[a] ** k
        key = tuple(e[:nv])
        t[key] = t.get(key, 0) + cc
    return MP(nv, t)


def spec_sys(s, rho):
    n, m, total = s["n"], s["m"], sum(s["len"])
    return {"n": n, "m": m, "len": s["len"], "core": s["core"],
            "fwd": [specialise(p, n + m, rho).to_json() for p in s["fwd"]],
            "rev": [specialise(p, total, rho).to_json() for p in s["rev"]],
            "dyn": [specialise(p, n + m, rho).to_json() for p in s["dyn"]]}


def pydict(d):
    return None if d is None else {KEYNAMES[int(k)]: float(F(v)) for k, v in d.items()}


class Par:
    """the parameter part of the C20 family (called from families/c20.py)"""

    def __init__(self, multi):
        self.multi = multi

    # ---- generation ---------------------------------------------------------------------
    def gen_case(self, rng, tier):
        s = gen_system(rng)
        n, m, lens = s["n"], s["m"], s["len"]
        q = lambda: self.multi.rq(rng)
        arg, acls = gen_arg(rng, s)
        case = {"kind": "par", "sys": s, "arg": arg, "argcls": acls,
                "fr": {"x": [ftok(q()) for _ in range(n)], "u": [ftok(q()) for _ in range(m)],
                       "z": [ftok(q()) for _ in range(sum(lens))]}}
        pp = None
        for _ in range(20):
            pp = self.multi.gen_p2p(rng, s, q)
            if pp and pp["cls"] == "enough":
                break
            if pp and pp["cls"] == "too-small" and rng.random() < 0.3:
                break
        if pp is None:              # no well-conditioned problem found: maps and dynamics only
            case["p2p"] = None
            return case
        pp["bspline"] = None
        pp["opt"] = None
        pp["argkw"] = rng.choice(["kw", "kw", "omit"]) if arg is None else "kw"
        mN = cm.model_basis(pp["basis"], n, m)[1]
        if pp["cls"] == "enough" and m * mN > 2 * sum(lens):
            r = rng.random()
            if r < 0.2:
                pp["opt"] = "cost"              # point_to_point with a cost
            elif r < 0.4:
                pp["opt"] = "sfo"               # solve_flat_optimal
        case["p2p"] = pp
        return case

    def generate(self, rng, tier):
        k = 70 if tier == "quick" else 560
        return [self.gen_case(rng, tier) for _ in range(k)]

    def corpus(self):
        # x' = p x + u  (flag (x, u + p x)), callables read params.get('k0', 3), system declares k0 = 3
        n1 = lambda c, e: [tok(Fraction(c)), e]
        s = {"n": 1, "m": 1, "len": [2], "np": 1,
             "fwd": [[n1(1, [1, 0, 0])], [n1(1, [0, 1, 0]), n1(1, [1, 0, 1])]],
             "rev": [[n1(1, [1, 0, 0])], [n1(1, [0, 1, 0]), n1(-1, [1, 0, 1])]],
             "dyn": [[n1(1, [0, 1, 0]), n1(1, [1, 0, 1])]], "core": [0, 1],
             "reads": [{"key": 0, "fb": "3"}], "decl": {"0": "3"}, "style": "linear", "ctor": "FlatSystem"}
        pp = {"T0": "0", "Tf": "2", "basis": {"kind": "P", "N": 6, "T": "2"}, "cls": "enough", "opt": None,
              "via": "list", "bspline": None, "argkw": "kw", "x0": ["1"], "u0": ["0"], "xf": ["0"], "uf": ["1"],
              "interior": [2, 4, 6]}
        fr_ = {"x": ["1"], "u": ["2"], "z": ["1", "2"]}
        c1 = {"kind": "par", "sys": s, "arg": {"0": "9/2"}, "argcls": "full", "fr": fr_, "p2p": pp}
        c2 = {"kind": "par", "sys": s, "arg": None, "argcls": "none", "fr": fr_, "p2p": dict(pp, opt="sfo")}
        c3 = {"kind": "par", "sys": s, "arg": {"0": "1/2"}, "argcls": "full", "fr": fr_, "p2p": dict(pp, opt="cost")}
        return [c1, c2, c3]

    # ---- execution ------------------------------------------------------------------------
    def line(self, case):
        s = case["sys"]
        n, m, lens, npar = s["n"], s["m"], s["len"], s["np"]
        poly = lambda p: "%d %s" % (len(p), " ".join("%s %s" % (c, " ".join(map(str, e))) for c, e in p))
        dct = lambda d: "%d %s" % (len(d), " ".join("%s %s" % (k, d[k]) for k in sorted(d, key=int)))
        reads = " ".join("%d %s" % (rd["key"], "S" if rd["fb"] is None else "G " + rd["fb"]) for rd in s["reads"])
        ln = "flat par %d %d %s %d %s %s %s %s %s" % (
            n, m, " ".join(map(str, lens)), npar, reads, dct(s["decl"] or {}),
            "N" if case["arg"] is None else "D " + dct(case["arg"]),
            " ".join(poly(p) for p in s["fwd"]), " ".join(poly(p) for p in s["rev"]))
        f = case["fr"]
        ln += " fr %s %s %s" % (" ".join(f["x"]), " ".join(f["u"]), " ".join(f["z"]))
        pp = case.get("p2p")
        if pp:
            kind, N, T = cm.model_basis(pp["basis"], n, m)
            ts = cm.eval_times(pp)
            ln += " p2p %s %d %s %s %s %s %s %s %s %d %s" % (
                kind, N, T, pp["T0"], pp["Tf"], " ".join(pp["x0"]), " ".join(pp["u0"]),
                " ".join(pp["xf"]), " ".join(pp["uf"]), len(ts), " ".join(tok(t) for t in ts))
        return " ".join(ln.split())

    def build(self, s):
        n, m, lens, npar = s["n"], s["m"], s["len"], s["np"]
        cf = [cm.compile_float(p) for p in s["fwd"]]
        cr = [cm.compile_float(p) for p in s["rev"]]
        cd = [cm.compile_float(p) for p in s["dyn"]]
        off = [sum(lens[:i]) for i in range(m)]
        rds = [(KEYNAMES[rd["key"]], None if rd["fb"] is None else float(F(rd["fb"]))) for rd in s["reads"]]

        def read(params):
            # the way user code reads its parameters
            return [float(params[k]) if fb is None else float(params.get(k, fb)) for k, fb in rds]

        def forward(x, u, params={}):
            v = [float(a) for a in np.atleast_1d(x)] + [float(a) for a in np.atleast_1d(u)] + read(params)
            return [np.array([cm.eval_float(cf[off[i] + k], v) for k in range(lens[i])]) for i in range(m)]

        def reverse(zflag, params={}):
            v = [float(zflag[i][k]) for i in range(m) for k in range(lens[i])] + read(params)
            return (np.array([cm.eval_float(cr[j], v) for j in range(n)]),
                    np.array([cm.eval_float(cr[n + j], v) for j in range(m)]))

        def update(t, x, u, params={}):
            v = [float(a) for a in np.atleast_1d(x)] + [float(a) for a in np.atleast_1d(u)] + read(params)
            return np.array([cm.eval_float(p, v) for p in cd])

        kw = {"inputs": m, "states": n}
        if s["decl"] is not None:
            kw["params"] = pydict(s["decl"])
        c = s.get("ctor", "FlatSystem")
        if c == "FlatSystem":
            return fs.FlatSystem(forward, reverse, update, **kw)
        if c == "flatsys3":
            return fs.flatsys(forward, reverse, update, **kw)
        return fs.flatsys(forward, reverse, updfcn=update, **kw)

    def impl(self, case):
        s = case["sys"]
        n, m = s["n"], s["m"]
        out = {}
        try:
            with warnings.catch_warnings():
                warnings.simplefilter("ignore")
                flat = self.build(s)
        except Exception as e:  # noqa
            return {"err": classify_exc(e), "exc": cm.excstr(e)}
        f = case["fr"]
        flt = lambda a: [tok(fr(v)) for v in np.asarray(a, dtype=float).flatten()]
        arg = pydict(case["arg"])
        full = {**(pydict(s["decl"]) or {}), **(arg or {})}      # the dict a caller passes by hand
        try:
            x, u = np.array(vals(f["x"])), np.array(vals(f["u"]))
            zv = vals(f["z"])
            z, a = [], 0
            for L in s["len"]:
                z.append(np.array(zv[a:a + L]))
                a += L
            fwd = flat.forward(x, u, dict(full))
            rx, ru = flat.reverse(z, dict(full))
            r1x, r1u = flat.reverse([np.array(b, dtype=float) for b in fwd], dict(full))
            rt2 = flat.forward(rx, ru, dict(full))
            out["fr"] = {"shape": [len(b) for b in fwd], "fwd": flt(np.hstack(fwd)), "rev": flt(rx) + flt(ru),
                         "rt1": flt(r1x) + flt(r1u), "rt2": flt(np.hstack(rt2))}
        except Exception as e:  # noqa
            out["fr"] = {"err": classify_exc(e), "exc": cm.excstr(e)}
        # what `dynamics` says at (x, u) for the requested parameters
        try:
            dv = flat.dynamics(0., np.array(vals(f["x"])), np.array(vals(f["u"])),
                               **({} if arg is None else {"params": dict(arg)}))
            out["dyn"] = flt(dv)
        except Exception as e:  # noqa
            out["dyn"] = {"err": classify_exc(e), "exc": cm.excstr(e)}
        pp = case.get("p2p")
        if pp:
            out["p2p"] = self.impl_p2p(flat, s, pp, arg)
        out["decl_after"] = (None if s["decl"] is None else
                             {k: tok(fr(float(v))) for k, v in sorted(flat.params.items())})
        out["arg_after"] = None if arg is None else {k: tok(fr(float(v))) for k, v in sorted(arg.items())}
        return out

    def impl_p2p(self, flat, s, pp, arg):
        n, m = s["n"], s["m"]
        pkw = {} if (arg is None and pp.get("argkw") == "omit") else {"params": arg}
        try:
            with warnings.catch_warnings(record=True) as wl:
                warnings.simplefilter("always")
                basis = cm.make_basis(pp["basis"])
                T0, Tf = float(F(pp["T0"])), float(F(pp["Tf"]))
                x0, xf = np.array(vals(pp["x0"])), np.array(vals(pp["xf"]))
                u0, uf = np.array(vals(pp["u0"])), np.array(vals(pp["uf"]))
                kw = dict(pkw) if basis is None else dict(pkw, basis=basis)
                if pp["via"] == "scalar":
                    traj = fs.point_to_point(flat, Tf, x0, u0, xf, uf, initial_time=T0, **kw)
                elif pp["via"] == "list3":
                    traj = fs.point_to_point(flat, [T0, (T0 + Tf) / 2, Tf], x0, u0, xf, uf, **kw)
                else:
                    traj = fs.point_to_point(flat, [T0, Tf], x0, u0, xf, uf, **kw)
                ts = cm.eval_times(pp)
                xs, us = traj.eval(np.array([float(t) for t in ts]))
                N = traj.basis.N
                nodes = cm.nodes_for(pp, N)
                xn, un = traj.eval(np.array([float(t) for t in nodes]))
            res = {"N": N, "flaglen": [int(v) for v in traj.flaglen],
                   "alpha": [tok(fr(v)) for c in traj.coeffs for v in np.asarray(c).flatten()],
                   "xs": [[tok(fr(xs[i, k])) for i in range(n)] for k in range(len(ts))],
                   "us": [[tok(fr(us[i, k])) for i in range(m)] for k in range(len(ts))],
                   "xn": [[tok(fr(xn[i, k])) for i in range(n)] for k in range(len(nodes))],
                   "un": [[tok(fr(un[i, k])) for i in range(m)] for k in range(len(nodes))],
                   "warn": sorted({re.sub(r"[0-9.]+", "#", str(w.message))[:60] for w in wl
                                   if "basis too small" in str(w.message)})}
            if not all(np.isfinite(float(F(v))) for row in res["xs"] + res["us"] for v in row):
                return {"err": "nonfinite", "exc": "non-finite trajectory values"}
            if pp.get("opt"):
                res["opt"] = self.impl_opt(flat, s, pp, pkw, basis, T0, Tf, x0, u0, xf, uf, N)
            return res
        except ValueError as e:
            if "non-finite" in str(e) or "NaN" in str(e) or "infs or NaNs" in str(e):
                return {"err": "nonfinite", "exc": "non-finite trajectory values"}
            return {"err": classify_exc(e), "exc": cm.excstr(e)}
        except Exception as e:  # noqa
            return {"err": classify_exc(e), "exc": cm.excstr(e)}

    def impl_opt(self, flat, s, pp, pkw, basis, T0, Tf, x0, u0, xf, uf, N):
        """point_to_point with a quadratic cost / solve_flat_optimal, same `params=`"""
        n, m = s["n"], s["m"]
        try:
            with warnings.catch_warnings():
                warnings.simplefilter("ignore")
                kw = dict(pkw) if basis is None else dict(pkw, basis=basis)
                cost = lambda x, u: float(np.dot(x, x) + np.dot(u, u))
                tp = [T0 + (Tf - T0) * k / 3 for k in range(3)] + [Tf]
                if pp["opt"] == "cost":
                    traj = fs.point_to_point(flat, tp, x0, u0, xf, uf, cost=cost,
                                             minimize_options={"maxiter": 4}, **kw)
                else:
                    traj = fs.solve_flat_optimal(flat, tp, x0, u0, cost, terminal_cost=cost,
                                                 minimize_options={"maxiter": 4}, **kw)
                xe, ue = traj.eval(np.array([T0, Tf]))
                nodes = cm.nodes_for(pp, N)
                xn, un = traj.eval(np.array([float(t) for t in nodes]))
            if not (np.all(np.isfinite(xn)) and np.all(np.isfinite(un))):
                return {"err": "nonfinite", "exc": "non-finite trajectory values"}
            return {"N": N,
                    "xs": [[tok(fr(xe[i, k])) for i in range(n)] for k in range(2)],
                    "us": [[tok(fr(ue[i, k])) for i in range(m)] for k in range(2)],
                    "xn": [[tok(fr(xn[i, k])) for i in range(n)] for k in range(len(nodes))],
                    "un": [[tok(fr(un[i, k])) for i in range(m)] for k in range(len(nodes))]}
        except Exception as e:  # noqa
            return {"err": classify_exc(e), "exc": cm.excstr(e)}

    def parse_model(self, case, out):
        s = case["sys"]
        n, m, total, npar = s["n"], s["m"], sum(s["len"]), s["np"]
        if out.startswith("err "):
            return {"err": out.split()[1]}
        parts = [o.strip() for o in out.split("|")]
        res = {}
        t = parts[0].split()
        assert t[0] in ("rho", "norho"), parts[0]
        res["rho"] = None if t[0] == "norho" else t[1:]
        assert res["rho"] is None or len(res["rho"]) == npar, parts[0]
        t = parts[1].split()
        if t[0] == "err":
            res["fr"] = {"err": t[1]}
        else:
            assert t[0] == "ok", parts[1]
            v = t[1:]
            a, b, c = total, total + n + m, total + 2 * (n + m)
            assert len(v) == c + total, parts[1]
            res["fr"] = {"fwd": v[:a], "rev": v[a:b], "rt1": v[b:c], "rt2": v[c:]}
        if case.get("p2p"):
            t = parts[2].split()
            if t[0] == "err":
                res["p2p"] = {"err": t[1]}
            elif t[0] == "warn":
                res["p2p"] = {"warn": True}
            else:
                nc = int(t[1])
                v = t[2:]
                alpha, rest = v[:nc], v[nc:]
                k = len(cm.eval_times(case["p2p"]))
                assert len(rest) == k * (n + m), parts[2]
                xs = [rest[i * (n + m):i * (n + m) + n] for i in range(k)]
                us = [rest[i * (n + m) + n:(i + 1) * (n + m)] for i in range(k)]
                res["p2p"] = {"ncoef": nc, "alpha": alpha, "xs": xs, "us": us}
        return res

    # ---- comparison ---------------------------------------------------------------------------
    def feat(self, case, kind, **kw):
        f = {"kind": kind, "class": "params", "override": case.get("argcls", "?")}
        f.update(kw)
        return f

    vclose = staticmethod(cm.Multi.vclose)

    def excfeat(self, d):
        e = d.get("exc", "")
        return {"exc": e.split(":")[0], "msg": re.sub(r"[0-9]+", "#", e.split(":", 1)[-1].strip())[:60]}

    def keyerror_cause(self, case, d):
        """a KeyError of the user's strict read: which dict was it looked up in?"""
        s, arg = case["sys"], case["arg"]
        mt = re.search(r"KeyError: '(k[0-9]+)'", d.get("exc", ""))
        if not mt:
            return "other"
        k = str(KEYNAMES.index(mt.group(1)))
        decl = s["decl"] or {}
        if arg is not None and k in decl and k not in arg:
            return "declared-default-not-used"
        if arg is not None and k in arg:
            return "override-not-used"
        return "other"

    def compare(self, case, impl, model):
        s = case["sys"]
        n, m = s["n"], s["m"]
        res_ = resolutions(s, case["arg"])
        rho = res_["dynamics"]
        if "err" in model:
            return Verdict(DIFFERS, "model: " + model["err"], self.feat(case, "model-" + model["err"]))
        if (model["rho"] is None) != (rho is None) or \
                (rho is not None and [F(v) for v in model["rho"]] != rho):
            return Verdict(DIFFERS, "model reads %s, harness %s" % (model["rho"], rho),
                           self.feat(case, "model-resolution"))
        if "err" in impl:
            return Verdict(VIOLATES, "FlatSystem constructor raises: " + impl["exc"],
                           self.feat(case, "construct-raises", **self.excfeat(impl)))
        # the caller's dicts are not written to
        if impl["decl_after"] is not None and impl["decl_after"] != \
                {KEYNAMES[int(k)]: tok(F(v)) for k, v in sorted((s["decl"] or {}).items(), key=lambda kv: KEYNAMES[int(kv[0])])}:
            return Verdict(VIOLATES, "sys.params after the calls: %s" % impl["decl_after"],
                           self.feat(case, "argument-modified", which="sys.params"))
        if impl["arg_after"] is not None and impl["arg_after"] != \
                {KEYNAMES[int(k)]: tok(F(v)) for k, v in sorted(case["arg"].items(), key=lambda kv: KEYNAMES[int(kv[0])])}:
            return Verdict(VIOLATES, "params argument after the calls: %s" % impl["arg_after"],
                           self.feat(case, "argument-modified", which="params"))
        fi, fm = impl["fr"], model["fr"]
        f = case["fr"]
        if rho is None:
            # a strict read finds its key neither in sys.params nor in the argument: KeyError everywhere
            bad = [k for k in ("fr", "p2p") if k in impl and "err" not in impl[k]]
            if bad:
                return Verdict(DIFFERS, "parameter without a value accepted by %s" % bad,
                               self.feat(case, "missing-parameter-accepted"))
            return Verdict(AGREE)
        if "err" in fi:
            return Verdict(VIOLATES, "forward/reverse raise: " + fi["exc"],
                           self.feat(case, "fr-raises", **self.excfeat(fi)))
        xu = f["x"] + f["u"]
        scale = max([Fraction(1)] + [abs(F(v)) for v in xu + f["z"] + fm["fwd"] + fm["rev"] + fm["rt2"]])
        if fi["shape"] != s["len"]:
            return Verdict(VIOLATES, "flag shape %s" % fi["shape"], self.feat(case, "flag-shape"))
        if not self.vclose(fi["rt1"], xu, scale):
            return Verdict(VIOLATES, "reverse(forward(x,u,p),p) = %s, (x,u) = %s" % (vals(fi["rt1"]), vals(xu)),
                           self.feat(case, "roundtrip-xu"))
        if [F(v) for v in fm["rt1"]] != [F(v) for v in xu]:
            return Verdict(DIFFERS, "model: reverse(forward(x,u)) = %s" % vals(fm["rt1"]),
                           self.feat(case, "model-roundtrip"))
        # dynamics(…, params=arg) of the implementation = f(x, u; rho)
        S = spec_sys(s, rho)
        dyn = [MP.from_json(n + m, p) for p in S["dyn"]]
        dexp = [dyn[j].ev([F(v) for v in xu]) for j in range(n)]
        if isinstance(impl["dyn"], dict):
            return Verdict(DIFFERS, "sys.dynamics raises: " + impl["dyn"]["exc"],
                           self.feat(case, "dynamics-raises", **self.excfeat(impl["dyn"])))
        dsc = max([scale] + [abs(v) for v in dexp])
        if not self.vclose(impl["dyn"], [tok(v) for v in dexp], dsc):
            return Verdict(DIFFERS, "sys.dynamics(x, u, params=arg) = %s, expected %s" % (
                vals(impl["dyn"]), [float(v) for v in dexp]), self.feat(case, "dynamics-value"))
        pp = case.get("p2p")
        if pp:
            v = self.compare_p2p(case, impl["p2p"], model["p2p"], pp, s, S, res_)
            if v is not None:
                return v
        for key in ("fwd", "rev", "rt2"):
            if not self.vclose(fi[key], fm[key], scale):
                return Verdict(DIFFERS, "%s differs from the model: %s vs %s" % (key, vals(fi[key]), vals(fm[key])),
                               self.feat(case, key + "-value"))
        return Verdict(AGREE)

    def diagnose(self, pi, pp, s, res_, tolscale):
        """for which parameter resolution IS the returned trajectory a trajectory of the system?"""
        rho = res_["dynamics"]
        for name in ("argument-replaces-defaults", "defaults-over-argument", "argument-ignored", "fallbacks-only"):
            cand = res_[name]
            if cand is None or cand == rho:
                continue
            r = self.multi.residual(pi, pp, spec_sys(s, cand))
            if r is not None and r[0] <= TOL * 10 * max(tolscale, r[2]):
                return name, cand
        return "other", None

    CAUSE = {"argument-replaces-defaults": "declared-default-not-used",
             "defaults-over-argument": "override-not-used",
             "argument-ignored": "override-not-used",
             "fallbacks-only": "declared-default-not-used"}

    def feasibility(self, case, pi, pp, s, S, res_, scale, what, tolmul=10):
        res = self.multi.residual(pi, pp, S)
        if res is None:
            return None
        worst, where, dscale = res
        if worst <= TOL * tolmul * max(scale, dscale):
            return None
        name, cand = self.diagnose(pi, pp, s, res_, scale)
        rho = res_["dynamics"]
        return Verdict(
            VIOLATES, "%s: d/dt x - f(x, u; params) = %.3g at t = %s (scale %.3g) for the requested parameter "
            "values %s (sys.params %s, params argument %s); the trajectory is one of the system for %s" % (
                what, float(worst), float(where), float(max(scale, dscale)), [float(v) for v in rho],
                s["decl"], case["arg"], "no candidate resolution" if cand is None else
                "%s = %s" % (name, [float(v) for v in cand])),
            self.feat(case, "p2p-params-infeasible", call=what, planned_for=name,
                      cause=self.CAUSE.get(name, "other")))

    def compare_p2p(self, case, pi, pm, pp, s, S, res_):
        n, m = s["n"], s["m"]
        reads_agree = res_["argument-replaces-defaults"] == res_["dynamics"]
        if "err" in pm:
            if "err" in pi:
                return None
            return Verdict(DIFFERS, "model raises %s, point_to_point returns" % pm["err"],
                           self.feat(case, "p2p-returns-" + pm["err"]))
        if "warn" in pm:
            if "err" in pi:
                return Verdict(DIFFERS, "rank-deficient boundary system: point_to_point raises " + pi["exc"],
                               self.feat(case, "p2p-rankdef-raises", **self.excfeat(pi)))
            if not pi.get("warn"):
                return Verdict(DIFFERS, "rank-deficient boundary system accepted without the warning",
                               self.feat(case, "p2p-no-warning"))
            return None
        if "err" in pi:
            if pi["err"] == "unknownName":
                return Verdict(VIOLATES, "point_to_point(params=%s) on a system with sys.params %s raises %s" % (
                    case["arg"], s["decl"], pi["exc"]),
                    self.feat(case, "p2p-params-raises", cause=self.keyerror_cause(case, pi),
                              **self.excfeat(pi)))
            return Verdict(VIOLATES, "point_to_point raises: " + pi["exc"],
                           self.feat(case, "p2p-raises", **self.excfeat(pi)))
        bc = pp["x0"] + pp["u0"] + pp["xf"] + pp["uf"]
        allv = [F(v) for k in range(len(pm["xs"])) for v in pm["xs"][k] + pm["us"][k]]
        scale = max([Fraction(1)] + [abs(F(v)) for v in bc] + [abs(v) for v in allv])
        for k, which, xr, ur in ((0, "initial", pp["x0"], pp["u0"]), (1, "final", pp["xf"], pp["uf"])):
            if not self.vclose(pi["xs"][k] + pi["us"][k], xr + ur, scale):
                return Verdict(VIOLATES, "(x, u)(%s) = %s, requested %s" % (
                    "T0" if k == 0 else "Tf", vals(pi["xs"][k] + pi["us"][k]), vals(xr + ur)),
                    self.feat(case, "p2p-endpoint", which=which))
        v = self.feasibility(case, pi, pp, s, S, res_, scale, "point_to_point")
        if v is not None:
            return v
        po = pi.get("opt")
        if po:
            what = "point_to_point with cost" if pp["opt"] == "cost" else "solve_flat_optimal"
            if "err" in po:
                if po["err"] == "unknownName":
                    return Verdict(VIOLATES, "%s(params=%s) raises %s" % (what, case["arg"], po["exc"]),
                                   self.feat(case, "p2p-params-raises", call=what,
                                             cause=self.keyerror_cause(case, po), **self.excfeat(po)))
                return Verdict(VIOLATES, "%s raises: %s" % (what, po["exc"]),
                               self.feat(case, "p2p-cost-raises", call=what, **self.excfeat(po)))
            oscale = max([scale] + [abs(F(v)) for row in po["xn"] + po["un"] for v in row])
            ends = ((0, "initial", pp["x0"], pp["u0"]), (1, "final", pp["xf"], pp["uf"]))
            for k, which, xr, ur in (ends if pp["opt"] == "cost" else ends[:1]):
                if not self.vclose(po["xs"][k] + po["us"][k], xr + ur, oscale, TOL * 10):
                    return Verdict(VIOLATES, "%s: (x, u)(%s) = %s, requested %s" % (
                        what, "T0" if k == 0 else "Tf", vals(po["xs"][k] + po["us"][k]), vals(xr + ur)),
                        self.feat(case, "p2p-cost-endpoint", call=what, which=which))
            v = self.feasibility(case, po, pp, s, S, res_, oscale, what, tolmul=100)
            if v is not None:
                return v
        if not reads_agree:
            # the code's resolution (the argument replaces sys.params) reads other values than the
            # dynamics do, but no property failure is visible on this case: nothing to compare the
            # model's trajectory (planned for the requested values) with
            return None
        for k in range(len(pm["xs"])):
            if not self.vclose(pi["xs"][k] + pi["us"][k], pm["xs"][k] + pm["us"][k], scale):
                return Verdict(DIFFERS, "trajectory at sample %d: %s, model %s" % (
                    k, vals(pi["xs"][k] + pi["us"][k]), vals(pm["xs"][k] + pm["us"][k])),
                    self.feat(case, "p2p-trajectory"))
        if pi["flaglen"] != s["len"]:
            return Verdict(DIFFERS, "traj.flaglen = %s" % pi["flaglen"], self.feat(case, "p2p-flaglen"))
        ascale = max([Fraction(1)] + [abs(F(v)) for v in pm["alpha"]])
        if not self.vclose(pi["alpha"], pm["alpha"], ascale, TOL * 10):
            return Verdict(DIFFERS, "coefficients differ from the minimum-norm solution: %s, model %s" % (
                vals(pi["alpha"]), vals(pm["alpha"])), self.feat(case, "p2p-coefficients"))
        if pi.get("warn"):
            return Verdict(DIFFERS, "unexpected warning %s" % pi["warn"], self.feat(case, "p2p-warning"))
        return None

    def nontrivial(self, case, model):
        if "err" in model or model.get("rho") is None:
            return False
        f = case["fr"]
        return case["arg"] is not None and any(F(v) != 0 for v in f["x"] + f["u"] + f["z"])

    def stats(self, case, impl, model):
        s = case["sys"]
        res_ = resolutions(s, case["arg"])
        st = {"par_override": case.get("argcls", "?"), "par_params": s["np"],
              "par_declared": "none" if s["decl"] is None else str(len(s["decl"])),
              "par_reads": "strict" if any(rd["fb"] is None for rd in s["reads"]) else "get",
              "par_code_reads": "keyerror" if res_["dynamics"] is None else
              ("same" if res_["argument-replaces-defaults"] == res_["dynamics"] else "differ")}
        pp = case.get("p2p")
        if pp and "err" not in model and "p2p" in model:
            pm = model["p2p"]
            st["par_p2p"] = ("err:" + pm["err"]) if "err" in pm else ("warn" if "warn" in pm else "ok")
            if pp.get("opt"):
                st["par_optimised"] = pp["opt"]
        return st

    # ---- shrinking --------------------------------------------------------------------------
    def shrink(self, case):
        pp = case.get("p2p")
        f = case["fr"]
        z = lambda v: ["0"] * len(v)
        if pp:
            if pp.get("opt"):
                c = dict(case)
                c["p2p"] = dict(pp, opt=None)
                yield c
            for key in ("x0", "xf", "u0", "uf"):
                if any(F(v) != 0 for v in pp[key]):
                    c = dict(case)
                    c["p2p"] = dict(pp)
                    c["p2p"][key] = z(pp[key])
                    yield c
            c = dict(case)
            c["p2p"] = dict(pp)
            for key in ("x0", "xf", "u0", "uf"):
                c["p2p"][key] = [tok(Fraction(round(F(v)))) for v in pp[key]]
            yield c
        arg = case["arg"]
        if arg and len(arg) > 1:
            for k in sorted(arg):
                c = dict(case)
                c["arg"] = {a: b for a, b in arg.items() if a != k}
                c["argcls"] = "partial" if any(str(rd["key"]) not in c["arg"] for rd in case["sys"]["reads"]) \
                    else case["argcls"]
                yield c
        for key in ("x", "u", "z"):
            if any(F(v) != 0 for v in f[key]):
                c = dict(case)
                c["fr"] = dict(f)
                c["fr"][key] = z(f[key])
                yield c

    def search(self, rng, case, tier):
        return [self.gen_case(rng, tier) for _ in range(60)]


def selftest(seed=0, k=200):
    """symbolic consistency of the generated systems for symbolic parameters: reverse o forward = id,
    forward o reverse = id, Dreverse_x(z) shift(z) = f(reverse z) at a random exact point"""
    import random
    rng = random.Random(seed)
    for _ in range(k):
        s = gen_system(rng)
        n, m, lens, npar = s["n"], s["m"], s["len"], s["np"]
        total = sum(lens)
        nv, tv = n + m + npar, total + npar
        fwd = [MP.from_json(nv, p) for p in s["fwd"]]
        rev = [MP.from_json(tv, p) for p in s["rev"]]
        dyn = [MP.from_json(nv, p) for p in s["dyn"]]
        PV = [MP.var(nv, n + m + a) for a in range(npar)]
        PZ = [MP.var(tv, total + a) for a in range(npar)]
        comp = [p.subst(fwd + PV, nv) for p in rev]
        for j, p in enumerate(comp):
            assert (p - MP.var(nv, j)).t == {}, ("rev o fwd", s, j)
        for a in range(total):
            p = fwd[a].subst(rev + PZ, tv)
            assert (p - MP.var(tv, a)).t == {}, ("fwd o rev", s, a)
        pt = [Fraction(rng.randint(-5, 5), rng.choice([1, 2, 3])) for _ in range(tv)]
        off = [sum(lens[:i]) for i in range(m)]
        nxt = {}
        for i in range(m):
            for k_ in range(lens[i] - 1):
                nxt[off[i] + k_] = pt[off[i] + k_ + 1]
        xu = [p.ev(pt) for p in rev] + pt[total:]
        for st in range(n):
            used = {a for e in rev[st].t for a, k_ in enumerate(e[:total]) if k_}
            assert used <= set(nxt), ("state depends on a top derivative", s)
            xdot = sum((rev[st].diff(a).ev(pt) * nxt[a] for a in used), Fraction(0))
            assert xdot == dyn[st].ev(xu), ("dynamics", s, st)
    return True
